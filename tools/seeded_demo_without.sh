#!/bin/bash
# usage: seeded_demo_without.sh <seeded-dir-name>   — (re)runs only the last confirmation step: the demonstration on the
# unchanged tree at the recorded base commit must PASS; merges the outcome into confirm.json.
set -u
name=$1; d=/verif/seeded/$name; base=$(cat "$d/base" 2>/dev/null || cat /verif/seeded/BASE_COMMIT)
wt=$(mktemp -d /tmp/sdemo.XXXXXX); rmdir "$wt"
git -C /repo worktree add -q --detach "$wt" "$base" || exit 2
export TMPDIR=$(mktemp -d /tmp/sdemo_tmp.XXXXXX)
trap 'git -C /repo worktree remove --force "$wt" >/dev/null 2>&1; rm -rf "$wt" "$TMPDIR"' EXIT
. /verif/env.sh; cd "$wt"; cp -r "$d/demo/." "$wt/"
demo=$(head -1 "$d/demo_cmd.txt")
( eval "$demo" ) >"$d/demo_without.log" 2>&1; rc=$?
python3 - "$d/confirm.json" $rc <<'P'
import json,sys,time
p=sys.argv[1]; j=json.load(open(p)); j['demo_without_change']='PASS_as_expected' if sys.argv[2]=='0' else 'FAIL_unexpected'; j['when']=time.strftime('%Y-%m-%dT%H:%M:%S'); json.dump(j,open(p,'w'),indent=1)
P
jq -c . "$d/confirm.json"
