#!/bin/bash
# usage: mutant_setup.sh <property-id>...  — creates the scratch worktree + deliverable dir a bug-seeding sub-agent works in
set -eu
mkdir -p /tmp/wt; cp /verif/env.sh /tmp/wt/env.sh
for id in "$@"; do
  [ -d /tmp/wt/$id ] || git -C /repo worktree add -q --detach /tmp/wt/$id HEAD
  mkdir -p /tmp/wt/$id-out
done
