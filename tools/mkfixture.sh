#!/bin/bash
# usage: mkfixture.sh <property-id> <name> <expect...>   (run after editing the scratch copy /tmp/fx)
# Records the diff between /repo and the scratch copy as a selfcheck fixture, then resets the scratch copy.
set -eu
here=$(cd "$(dirname "$0")/.." && pwd)
id=$1; name=$2; shift 2; expect="$*"
mkdir -p "$here/fixtures/$id"
out="$here/fixtures/$id/$name.patch"
{ echo "# expect: $expect"; (cd /tmp && diff -ruN -x .git --label a --label b repo_ref fx 2>/dev/null || true) ; } > /dev/null
{ echo "# expect: $expect"; (cd / && diff -ru -x .git repo tmp/fx | sed -E 's#^(---|\+\+\+) (repo|tmp/fx)/#\1 x/#; s#^diff -ru -x .git repo/(\S+) tmp/fx/(\S+)#diff a/\1 b/\2#' || true); } > "$out"
n=$(grep -c '^@@' "$out" || true)
[ "$n" -gt 0 ] || { echo "no differences"; rm -f "$out"; exit 1; }
rsync -a --delete --exclude .git /repo/ /tmp/fx/
echo "wrote $out ($n hunks)"
