#!/bin/bash
# usage: seeded_eval.sh <seeded-dir-name>...   (or: all)
# Evaluates every armed check on /repo's current tree with each seeded change applied (in-process
# variants: the patch is applied to copies of the files it touches; /repo itself is never modified)
# and records which checks / obligations report it in seeded/<name>/eval.json.
set -u
here=/verif; . $here/env.sh
names="$@"; [ "$names" = all ] && names=$(ls $here/seeded | grep -v BASE_COMMIT)
list=""; for n in $names; do [ -f "$here/seeded/$n/patch.diff" ] && list="$list,$here/seeded/$n/patch.diff"; done
list=${list#,}; [ -z "$list" ] && exit 0
$here/bin/mutrun -repo /repo -eval-patches "$list" -known $here/known_findings.json 2>/dev/null | while read -r line; do
  name=$(echo "$line" | jq -r .patch | sed -E 's#.*/seeded/([^/]+)/patch.diff#\1#')
  own=${name%%-*}
  echo "$line" | jq --arg own "$own" --arg vc "$(git -C /verif rev-parse --short HEAD)" --arg rc "$(git -C /repo rev-parse --short HEAD)" --arg when "$(date +%Y-%m-%dT%H:%M:%S)" \
    '{own_property_check_detects: ((.detected_by // []) | index($own) != null), detected_by: (.detected_by // []), obligations: (.obligations // []), error: (.error // null), verif_commit: $vc, repo_commit: $rc, when: $when}' > "$here/seeded/$name/eval.json"
  echo "== $name: $(jq -c '{own:.own_property_check_detects,by:.detected_by,ob:.obligations,err:.error}' $here/seeded/$name/eval.json)"
done
