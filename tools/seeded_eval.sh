#!/bin/bash
# usage: seeded_eval.sh <seeded-dir-name>...   (or: all)
# Applies each seeded change to a scratch COPY of /repo's working tree and runs every armed check on it;
# prints which obligations fire. /repo itself is never touched.
set -u
here=/verif; . $here/env.sh
names="$@"; [ "$names" = all ] && names=$(ls $here/seeded | grep -v BASE_COMMIT)
for name in $names; do
  d=$here/seeded/$name; [ -f "$d/patch.diff" ] || continue
  w=$(mktemp -d /tmp/seval.XXXXXX); rsync -a --exclude .git /repo/ "$w/"
  if ! (cd "$w" && patch -p1 -s --no-backup-if-mismatch < "$d/patch.diff" >/dev/null 2>&1); then echo "== $name: patch does not apply to current /repo tree"; rm -rf "$w"; continue; fi
  out=$($here/bin/gtcheck -repo "$w" -evidence "" -known $here/known_findings.json 2>&1)
  rm -rf "$w"
  fired=$(echo "$out" | grep -E '^\s+\S+: \[(violated|undecided)\]' | sed -E 's/^.*\] //' | sort -u)
  props=$(echo "$out" | grep '^VIOLATION' | sed -E 's/.*property=(C[0-9]+).*/\1/' | sort -u | tr '\n' ' ')
  own=${name%%-*}; case " $props " in *" $own "*) ownhit=yes;; *) ownhit=NO;; esac
  echo "== $name: own_property_check_detects=$ownhit detected_by=[${props}]"
  echo "$fired" | sed 's/^/     /'
  python3 - "$d/eval.json" "$props" "$fired" "$ownhit" "$(git -C /verif rev-parse --short HEAD)" "$(git -C /repo rev-parse --short HEAD)" <<'P'
import json,sys,time
json.dump({"own_property_check_detects":sys.argv[4]=="yes","detected_by":sys.argv[2].split(),"obligations":[l for l in sys.argv[3].splitlines() if l.strip()],"verif_commit":sys.argv[5],"repo_commit":sys.argv[6],"when":time.strftime('%Y-%m-%dT%H:%M:%S')},open(sys.argv[1],'w'),indent=1)
P
done
