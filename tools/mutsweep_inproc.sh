#!/bin/bash
# usage: mutsweep_inproc.sh <mutants-dir> <ids-file> <results.jsonl>
# Development tool: runs bin/mutrun over the listed variants, restarting the process every 120 variants (memory hygiene).
. /verif/env.sh
while :; do
  /verif/bin/mutrun -repo /repo -mutants "$1" -ids "$2" -out "$3" -funcs-by-rule "$1/funcs_by_rule.tsv" -max 120 2>>"$3.log"
  rc=$?; [ $rc -eq 3 ] || break
done
echo "sweep finished rc=$rc" >> "$3.log"
