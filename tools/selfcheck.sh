#!/bin/bash
# usage: selfcheck.sh <property-id|all> [fixture-name-glob]
# Runs the firing / silent fixtures of a property: each fixtures/<id>/<name>.patch is
# applied to a scratch copy of /repo (never to /repo itself); the checker must report
# exactly the expected obligation keys (firing) or nothing new (silent).
set -u
here=$(cd "$(dirname "$0")/.." && pwd)
. "$here/env.sh"
id=${1:?id}; pat=${2:-*}
repo=${VERIF_REPO:-/repo}
bin="$here/bin/gtcheck"
ids=$id; [ "$id" = all ] && ids=$(ls "$here/fixtures" 2>/dev/null)
fail=0; nfire=0; nsilent=0
work=$(mktemp -d /tmp/gtsc.XXXXXX); trap 'rm -rf "$work"' EXIT
run_one() { # patchfile propid
  local pf=$1 pid=$2 name d out expect
  name=$(basename "$pf" .patch); d="$work/$pid-$name"
  mkdir -p "$d"; rsync -a --exclude .git "$repo/" "$d/"
  if ! (cd "$d" && patch -p1 -s --no-backup-if-mismatch < "$pf" >/dev/null 2>&1); then echo "SELFCHECK-STALE $pid/$name: patch does not apply to the current tree (fixture needs re-basing; not a property verdict)"; rm -rf "$d"; return 3; fi
  out=$("$bin" -repo "$d" -props "$pid" -evidence "" -known "$here/known_findings.json" 2>&1)
  rm -rf "$d"
  expect=$(grep -m1 '^# expect:' "$pf" | sed 's/^# expect: *//')
  local got; got=$(echo "$out" | grep -E '^\s+\S+: \[(violated|undecided)\]' | sed -E 's/^.*\] //' | sort -u)
  if [ "$expect" = silent ]; then
    if [ -n "$got" ]; then echo "SELFCHECK-FAIL $pid/$name: expected silence, got:"; echo "$got" | sed 's/^/    /'; return 1; fi
    echo "selfcheck ok   $pid/$name: silent (behaviour-preserving edit)"; return 0
  fi
  local ok=1
  for e in $expect; do
    echo "$got" | grep -q -F -- "$e" || { ok=0; echo "SELFCHECK-FAIL $pid/$name: expected a report matching '$e'; got:"; echo "${got:-<nothing>}" | sed 's/^/    /'; echo "$out" | grep -E '^ERROR' | head -3; }
  done
  [ $ok = 1 ] && { echo "selfcheck ok   $pid/$name: fired $(echo "$got" | wc -l) report(s) incl. $expect"; return 0; }
  return 1
}
export -f run_one; export here bin work repo
list=()
for pid in $ids; do for pf in "$here"/fixtures/$pid/$pat.patch; do [ -f "$pf" ] && list+=("$pf $pid"); done; done
[ ${#list[@]} -eq 0 ] && { echo "selfcheck: no fixtures for $id"; exit 0; }
printf '%s\n' "${list[@]}" | xargs -P 2 -L 1 bash -c 'run_one $0 $1' > "$work/out.txt" 2>&1
cat "$work/out.txt"
grep -q 'SELFCHECK-FAIL' "$work/out.txt" && fail=1
echo "selfcheck: $(grep -c 'selfcheck ok' "$work/out.txt") ok, $(grep -c SELFCHECK-FAIL "$work/out.txt") failed, $(grep -c SELFCHECK-STALE "$work/out.txt") stale of ${#list[@]} fixtures"
exit $fail
