#!/bin/bash
# usage: selfcheck.sh <property-id|all>
# Runs the firing / silent fixtures of a property: each fixtures/<id>/<name>.patch is applied to copies
# of the files it touches (never to /repo itself) and the resulting variant of /repo's CURRENT tree is
# analysed in-process (eng.Base.Variant: the touched packages and their importers are re-type-checked
# from source, everything else is shared). The checker must report the expected obligation keys
# (firing fixtures) or nothing new (silent fixtures: behaviour-preserving edits).
set -u
here=$(cd "$(dirname "$0")/.." && pwd)
. "$here/env.sh"
id=${1:?id}
repo=${VERIF_REPO:-/repo}
props=$id; [ "$id" = all ] && props=""
if [ ! -x "$here/bin/mutrun" ] || [ -n "$(find "$here/checker" -name '*.go' -newer "$here/bin/mutrun" -print -quit 2>/dev/null)" ]; then
  (cd "$here/checker" && go build -o "$here/bin/mutrun" ./cmd/mutrun) || { echo "ERROR: cannot build mutrun"; exit 2; }
fi
exec "$here/bin/mutrun" -repo "$repo" -fixtures "$here/fixtures" -fixture-props "$props" -known "$here/known_findings.json"
