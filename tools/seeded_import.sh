#!/bin/bash
# usage: seeded_import.sh <property-id> <mutant: m1|m2>   — copies a sub-agent's deliverable into /verif/seeded/<id>-<m>/
set -eu
id=$1; m=$2; src=/tmp/wt/$id-out/$m; dst=/verif/seeded/$id-$m
[ -f "$src/patch.diff" ] || { echo "no $src/patch.diff"; exit 1; }
mkdir -p "$dst"; cp "$src/patch.diff" "$dst/patch.diff"; rm -rf "$dst/demo"; cp -r "$src/demo" "$dst/demo"
cp "$src/demo_cmd.txt" "$dst/demo_cmd.txt"; cp "$src/README.md" "$dst/AGENT_README.md" 2>/dev/null || true
git -C /tmp/wt/$id rev-parse HEAD > "$dst/base" 2>/dev/null || git -C /repo rev-parse HEAD > "$dst/base"
echo "imported $dst"
