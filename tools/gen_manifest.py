#!/usr/bin/env python3
"""Regenerates /verif/MANIFEST.json from the rules registered in gtcheck and the
per-property text below. Run after adding rules: tools/gen_manifest.py"""
import json, subprocess, os, sys
here = os.path.dirname(os.path.dirname(os.path.abspath(__file__)))
env = dict(os.environ)
out = subprocess.run([os.path.join(here, "bin/gtcheck"), "-list"], capture_output=True, text=True, check=True).stdout
rules = {}
for line in out.splitlines():
    rid = line.split()[0]
    rules.setdefault(rid.split(".")[0], []).append(rid)

TECH = {
 "C01": "dataflow provenance + dominator guards + must-pass-through over SSA of the verification walk; type-switch exhaustiveness; error-discipline lint over the call graph; decision tables of the readers it relies on",
 "C02": "typestate (Loaded→Chained→Effective) over SSA values + must-pass-through on CFG (chain coverage, pinned root, documented unverified exits); error-discipline lint over the call graph",
 "C03": "who-may-write over call graph with constant ref evaluation; must-pass-through; sibling agreement",
 "C04": "decision tables (predicate abstraction over the CFG, exhaustive over truth assignments) for the reader's match/bound logic and the stepper; exact-scan rules for the annotation predicates; must-pass-through; who-may-call; error-discipline lint",
 "C05": "dominator/must-pass-through rules on SignatureVerifier.Verify (credit only behind a verified signature); who-may-write field; error-discipline lint",
 "C06": "dominator guards + provenance on the delegation walk; exact-scan rule over the four Matches siblings; sibling agreement with ListRules",
 "C07": "must-pass-through with emptiness/nil-ness path facts + dominator guards + option-set constant evaluation on the recovery loop; exact-scan rules for SkippedBy/RefersTo",
 "C08": "effect analysis over the call graph (who-may-write refs) + must-read-tip reachability",
 "C09": "validate-on-read must-pass-through + argument provenance; sibling agreement of attestation getters; dismissal writer rule; error-discipline lint",
 "C10": "constant evaluation of git argument vectors and taint of their output (NUL protocol, one obligation per defect kind) + loop-shape dataflow (every path, per-commit trusted verifier)",
 "C11": "allocation-site provenance of always-succeeding verifiers + must-pass-through of the global-rule loop",
 "C12": "ordered must-pass-through gates in Apply + decision table of its consistency switch; who-may-write policy refs; argument provenance at 27 call sites; error-discipline lint",
 "C13": "per-store proof patterns on Delegations.Roles; refuse-before-mutate CFG rule; struct field bijections; guard rule on migration copies; must-pass-through on name registration; error-discipline lint",
 "C14": "writer/parser table extraction from AST and agreement check; guard rules on parser state machines",
 "C15": "type-switch exhaustiveness over rsl.Entry implementers; provenance; refspec constant evaluation; exhaustive-scan rule on the annotation map used for reference tips; error-discipline lint",
 "C16": "compensation pairing on CFG (effect → compensator on every error path, compensator restores the value read before the effect, unconditional reset primitive); error-discipline lint",
 "C17": "argument identity (CAS old == parent) over SSA; must-pass-through on the compare-and-set primitive; interprocedural single-read rule; lock dominance; compensation rules of the multi-write operations",
 "C18": "dependency-set inclusion between compared and copied values; provenance of recorded fields",
 "C19": "sibling cross-check of verifyMergeable vs verifyEntry; guard and assignment rules on the relaxation flag; error-discipline lint",
 "C20": "name-table extraction from gopher-lua source + constant evaluation of the sandbox setup; CFG rules",
}
meta = {}
for l in open(os.path.join(here, "properties.jsonl")):
    p = json.loads(l); meta[p["id"]] = p
extra = {}
ep = os.path.join(here, "tools/manifest_text.json")
if os.path.exists(ep):
    extra = json.load(open(ep))
checks, na = [], []
for pid in sorted(meta):
    if pid in rules:
        e = extra.get(pid, {})
        checks.append({
            "property_id": pid,
            "quick_cmd": f"./check {pid} quick",
            "thorough_cmd": f"./check {pid} thorough",
            "evidence_file": f"evidence/{pid}.json",
            "replay_cmd_template": "cat {path}",
            "engine": "gtcheck",
            "level_claimed": {
                "category": "other",
                "text": e.get("level", "Static analysis of /repo's type-checked program: the rules " + ", ".join(rules[pid]) + " are structural necessary conditions of the property, decided on every CFG path / call-graph path of the anchored code. They do not decide the quantified behaviour itself (see DESIGN.md §4 " + pid + ")."),
                "design_ref": f"DESIGN.md §4 {pid}",
            },
            "level_note": e.get("note", "Trusted: go/packages+go/types+go/ssa (x/tools v0.50.0, go1.26.8) model of the source; module-local class-hierarchy resolution of interface calls; the anchor tables and accepted-idiom lists frozen in /verif/checker/rules. Breaking a rule breaks the property for some input; satisfying all rules does not prove it."),
            "technique": TECH[pid],
        })
    else:
        na.append({"property_id": pid, "reason": extra.get(pid, {}).get("na", "no static rule armed for this property in this commit (rules are being built property by property, DESIGN.md §8); nothing is claimed for it")})
man = {
 "version": 1,
 "setup_cmd": ". ./env.sh && mkdir -p bin evidence && cd checker && go build -o ../bin/gtcheck ./cmd/gtcheck && go build -o ../bin/mutrun ./cmd/mutrun",
 "hooks": {"guard": "verif", "enable": "none needed: the analysis reads /repo's sources as they are (no instrumentation); -tags verif would enable hooks if any existed",
           "baseline_off_cmd": ". /verif/env.sh && cd /repo && go test -json -vet=off -count=1 -timeout 25m ./...",
           "source_commits": [], "add_only": True},
 "engines": [{"name": "gtcheck", "path": "checker/cmd/gtcheck", "serves_properties": sorted(rules), "kind_free_text": "repository-specific static analyser over go/packages + go/ssa: dominators, must-pass-through path search, value provenance, module call graph, table extraction"}],
 "checks": checks,
 "not_applicable": na,
 "notes": "Family: static analysis only. Every check re-loads and re-type-checks /repo's working tree on each run. Findings on the reference tree are listed in known_findings.json and printed as KNOWN-FINDING lines.",
}
json.dump(man, open(os.path.join(here, "MANIFEST.json"), "w"), indent=1)
print("checks:", [c["property_id"] for c in checks], "na:", len(na))
