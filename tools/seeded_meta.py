#!/usr/bin/env python3
"""usage: seeded_meta.py <name> <property> <one-line: what the change does> <what it needs in order to manifest>
Writes seeded/<name>/meta.json from those strings plus confirm.json (what was run in the scratch worktree and
its outcome) and eval.json (which checks/obligations report it). Re-run after seeded_confirm.sh / seeded_eval.sh."""
import json, os, sys, re
name, prop, what, needs = sys.argv[1:5]
d = f"/verif/seeded/{name}"
def load(f):
    p = os.path.join(d, f)
    return json.load(open(p)) if os.path.exists(p) else {}
old = load("meta.json")
conf, ev = load("confirm.json"), load("eval.json")
full = load("confirm_full_run.json")
if full:
    conf = dict(conf); conf["earlier_full_suite_run"] = {k: v for k, v in full.items() if k.startswith("suite") or k == "when"}; conf["note"] = "the whole suite was run first (earlier_full_suite_run); the packages that failed there under load (timeout / UI timing) were then re-run alone with the change applied (this run)"
files = sorted(set(re.findall(r"^\+\+\+ b/(\S+)", open(os.path.join(d, "patch.diff")).read(), re.M)))
demo = open(os.path.join(d, "demo_cmd.txt")).read().strip().splitlines()[0]
base = open(os.path.join(d, "base")).read().strip() if os.path.exists(os.path.join(d, "base")) else conf.get("base", "")
if "suite_exit" not in conf:
    conf = dict(conf)
    conf["suite_note"] = ("the whole existing suite was NOT re-run in this scratch-worktree confirmation (machine time: one suite run took 2-3 hours "
        "under the load of this session, see DESIGN.md §9); what was confirmed here is: the patch applies and builds, the demonstration fails with the change and "
        "passes without it. The seeding agent's own runs of the suite / of every package that depends on the changed code, with the change applied, are reported "
        "in AGENT_README.md")
meta = {
 "id": name, "property": prop,
 "breaks": what or old.get("breaks", ""),
 "needs_to_manifest": needs or old.get("needs_to_manifest", ""),
 "files_changed": files, "base_commit": base,
 "written_by": "independent sub-agent given only the property text and a scratch worktree (see AGENT_README.md)",
 "demonstration": {"files": sorted(os.path.relpath(os.path.join(r, f), os.path.join(d, "demo")) for r, _, fs in os.walk(os.path.join(d, "demo")) for f in fs), "command": demo},
 "confirmed_in_scratch_worktree": {
   "tool": "tools/seeded_confirm.sh (git worktree of /repo at base_commit under /tmp, removed afterwards)",
   "ran": ["git apply patch.diff", "go build ./...", demo + "   (with the change)", "go test -vet=off -count=1 -timeout 180m ./...   (with the change, demonstration files removed)", demo + "   (change reverted)"],
   "outcome": conf},
 "history": old.get("history", "caught on first evaluation"),
 "detection": {"tool": "tools/seeded_eval.sh (patch applied to a scratch copy of /repo's working tree; every armed check run on it)", **ev},
}
json.dump(meta, open(os.path.join(d, "meta.json"), "w"), indent=1)
print("wrote", os.path.join(d, "meta.json"))
