#!/bin/bash
# usage: mutant_prompt.sh <property-id>  -> prints the brief handed to an independent sub-agent
id=$1
wt=/tmp/wt/$id
cat <<P
You are helping to evaluate a verification effort by acting as an independent "bug seeder" for the open-source Go project gittuf (a TUF-inspired security layer for Git: signed Reference State Log (RSL) + policy verification).

Your private scratch copy of the repository is a git worktree at: $wt
Work ONLY inside $wt (source edits) and $wt-out (deliverables). Never read or write /repo or /verif. The sandbox is offline; start every shell command with \`. /tmp/wt/env.sh;\` (it puts the right Go toolchain on PATH and sets the offline flags). The first build is slow (minutes). The machine is shared with other heavy jobs and is badly overloaded, so do NOT run the whole test suite: it would take hours. Instead, for each finished mutant run the tests of (1) every package you touched and (2) the packages that import them and exercise the changed code — at least \`./internal/policy/...\`, \`./pkg/rsl/...\`, \`./pkg/gitinterface/...\`, \`./internal/attestations/...\`, \`./internal/tuf/...\` and \`./experimental/gittuf/...\` when they depend on your change (\`go list -deps\` / grep the imports to decide) — in the background with output redirected to a file and a generous \`-timeout 240m\`, and wait for them (poll with sleep). The full suite will be run later by someone else on your patch; a mutant that fails any existing test anywhere is worthless, so think about which existing tests could notice your change and run those packages. A package that only fails with 'test timed out' or a UI-timing test in internal/cmd/tui is load, not your change — re-run that package alone.

Here is ONE semantic property that gittuf is supposed to satisfy (JSON record):

$(grep "\"id\": *\"$id\"" /verif/properties.jsonl || jq -c "select(.id==\"$id\")" /verif/properties.jsonl)

YOUR TASK: produce TWO independent, realistic source changes ("mutants", call them m1 and m2) to gittuf's non-test Go code, each of which BREAKS this property, while
  (a) the repository still compiles (\`go build ./...\` and \`go vet ./...\` clean for the touched packages),
  (b) the ENTIRE existing test suite still passes unchanged (run the affected packages as described above and see them pass — do not edit, delete or skip existing tests),
  (c) the breakage needs something SPECIFIC to manifest — a particular interleaving, a crash or fault at a particular point, a multi-step sequence of operations, an unusual input, or two cooperating sites that each look fine alone — NOT something ordinary use would expose at once,
  (d) the change looks like something a developer could plausibly write (a refactor gone slightly wrong, a dropped check, a swapped argument, an off-by-one, a reordered step, a missed case, an "optimisation"), is small (typically 1-15 changed lines), and m1 and m2 touch DIFFERENT mechanisms/functions of the property (read the anchors in the record for where the mechanisms live, but you may break the property anywhere in the code base).
For each mutant also write a DEMONSTRATION: a new Go test file (placed in the appropriate package directory of the worktree, name it zz_seeded_<m1|m2>_test.go) or a small program, that FAILS with the mutant applied and PASSES on the original code. The demonstration must exercise real gittuf code (no mocks of the function under change) and its failure must be a manifestation of the property being broken, not an artificial assertion on internals.

PROCEDURE
 1. Read the code the property is anchored in. Pick two mechanisms.
 2. For each mutant: edit the source in $wt, build, run the tests of the affected packages (must pass), write the demo, run it with the mutant (must fail), then \`git stash\`/revert the mutant keeping the demo and run the demo again (must pass).
 3. Deliver into $wt-out/m1/ and $wt-out/m2/ each:
      patch.diff   — \`git diff\` of the non-test source change only, relative to the worktree root, applicable with \`git apply\` to a clean checkout of the same commit
      demo/...     — the demonstration file(s), with the same relative path they must be placed at (e.g. demo/internal/policy/zz_seeded_m1_test.go) and
      demo_cmd.txt — the exact command (run from the repo root) that runs just the demonstration (e.g. \`go test -vet=off -count=1 -run TestSeededM1 ./internal/policy/\`)
      README.md    — which clause of the property it breaks, what it needs in order to manifest, why the existing tests miss it, and the commands you ran with their outcome (affected packages pass with mutant; demo fail with mutant; demo pass without).
 4. Leave the worktree clean of the mutant when done (\`git -C $wt checkout -- . \`; demo files may remain untracked). Do not commit anything.

If after honest effort one mutant cannot be made to pass the full suite, replace it with a different one; if you can only deliver one, say so in $wt-out/NOTES.md. Your final message should list the mutants (file, function, one line each) and the verification outcomes.
P
