#!/bin/bash
# usage: seeded_confirm.sh <seeded-dir-name> [--no-suite]
# Confirms a seeded change in a scratch worktree of /repo at the commit it was written against:
# (1) applies + builds, (2) demonstration FAILS with it, (3) the full existing suite PASSES with it,
# (4) demonstration PASSES without it. Writes confirm.json next to the patch. Removes the worktree.
set -u
name=$1; nosuite=${2:-}
d=/verif/seeded/$name; base=$(cat "$d/base" 2>/dev/null || cat /verif/seeded/BASE_COMMIT)
wt=$(mktemp -d /tmp/sconf.XXXXXX); rmdir "$wt"
git -C /repo worktree add -q --detach "$wt" "$base" || exit 2
cleanup() { git -C /repo worktree remove --force "$wt" >/dev/null 2>&1; rm -rf "$wt" "${TMPDIR:-/nonexistent}"; }
trap cleanup EXIT
. /verif/env.sh
# the suite has tests that clone into fixed paths under $TMPDIR: give every confirmation its own
export TMPDIR=$(mktemp -d /tmp/sconf_tmp.XXXXXX)
cd "$wt"
res() { python3 - "$d/confirm.json" "$@" <<'P'
import json,sys,os,time
p=sys.argv[1]; kv=dict(a.split('=',1) for a in sys.argv[2:])
j=json.load(open(p)) if os.path.exists(p) else {}
j.update(kv); j['when']=time.strftime('%Y-%m-%dT%H:%M:%S'); json.dump(j,open(p,'w'),indent=1)
P
}
case "$nosuite" in --only-pkgs=*) [ -f "$d/confirm.json" ] && cp "$d/confirm.json" "$d/confirm_full_run.json";; esac
rm -f "$d/confirm.json"
git apply "$d/patch.diff" || { res applies=no; exit 1; }
res applies=yes base=$base
go build ./... >"$wt/.build.log" 2>&1 && res builds=yes || { res builds=no; exit 1; }
cp -r "$d/demo/." "$wt/"
demo=$(cat "$d/demo_cmd.txt" | head -1)
( eval "$demo" ) >"$d/demo_with.log" 2>&1; rc=$?
[ $rc -ne 0 ] && res demo_with_change=FAIL_as_expected || res demo_with_change=PASS_unexpected
# remove demo files for the suite run
(cd "$d/demo" && find . -type f) | while read f; do rm -f "$wt/$f"; done
if [ "$nosuite" != "--no-suite" ]; then
  pkgs="./..."; case "$nosuite" in --only-pkgs=*) pkgs="${nosuite#--only-pkgs=}";; esac
  go test -vet=off -count=1 -timeout 240m $pkgs >"$wt/.suite.log" 2>&1; rc=$?
  nok=$(grep -c '^ok' "$wt/.suite.log"); nfail=$(grep -c -E '^(FAIL|---\s*FAIL|panic:)' "$wt/.suite.log")
  res suite_cmd="go test -vet=off -count=1 -timeout 240m $pkgs" suite_exit=$rc suite_ok_pkgs=$nok suite_fail_lines=$nfail
  grep -E '^(FAIL|--- FAIL|panic:)' "$wt/.suite.log" | head -20 > "$d/suite_failures.log"
  # The sandbox is heavily loaded while several suites run side by side: packages that fail are re-run
  # alone (timeouts and UI-timing tests are load, not the change); the verdict is the union.
  failed=$(grep -E '^FAIL\s+github.com' "$wt/.suite.log" | awk '{print $2}' | sed 's#github.com/gittuf/gittuf#.#' | sort -u)
  if [ -n "$failed" ]; then
    still=""
    for p in $failed; do
      TMPDIR=$(mktemp -d /tmp/sconf_tmp.XXXXXX) go test -vet=off -count=1 -timeout 240m "$p/" >"$wt/.rerun.log" 2>&1 || still="$still $p"
      grep -E '^(ok|FAIL|--- FAIL|panic:)' "$wt/.rerun.log" | head -5 >> "$d/suite_failures.log"
    done
    res suite_rerun_alone="$failed" suite_still_failing="${still:-none}"
  else
    res suite_still_failing=none
  fi
fi
git checkout -q -- . ; cp -r "$d/demo/." "$wt/"
( eval "$demo" ) >"$d/demo_without.log" 2>&1; rc=$?
[ $rc -eq 0 ] && res demo_without_change=PASS_as_expected || res demo_without_change=FAIL_unexpected
cat "$d/confirm.json"
