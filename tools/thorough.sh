#!/bin/bash
# thorough tier: the same rules on (a) dependencies type-checked from source,
# (b) GOOS in {linux, darwin, windows} so build-tagged files are covered, and
# (c) the selfcheck battery (firing / silent overlay fixtures) for the property.
set -u
here=$(cd "$(dirname "$0")/.." && pwd)
. "$here/env.sh"
id=$1; repo=${2:-/repo}
bin="$here/bin/gtcheck"
rc=0
for goos in darwin windows; do
  out=$("$bin" -repo "$repo" -props "$id" -tier thorough -goos "$goos" -evidence "" -known "$here/known_findings.json" 2>&1); r=$?
  echo "$out" | grep -E '^(VIOLATION|KNOWN-FINDING|ERROR|C[0-9]+:|  )' | sed "s/^/[goos=$goos] /" | grep -v 'KNOWN-FINDING' || true
  if [ $r -ne 0 ]; then rc=1; echo "$out" | grep '^VIOLATION' ; fi
done
if [ -x "$here/tools/selfcheck.sh" ]; then
  "$here/tools/selfcheck.sh" "$id" || rc=1
fi
GTCHECK_ALLSYNTAX=1 "$bin" -repo "$repo" -props "$id" -tier thorough -evidence "$here/evidence" -known "$here/known_findings.json" || rc=1
exit $rc
