#!/bin/bash
# thorough tier: the same rules (a) for GOOS in {linux, darwin, windows} so that
# build-tagged files are covered, and (b) preceded by the selfcheck battery of
# the property: every firing fixture (one instance broken in a scratch copy that
# still type-checks) must be reported, every silent fixture (behaviour-preserving
# edit) must stay silent. The battery demonstrates the checker's sensitivity on
# this run; its outcome is written into the evidence. It does not decide the
# property and does not change the exit status (a fixture that no longer applies
# to an edited tree says nothing about the tree).
set -u
here=$(cd "$(dirname "$0")/.." && pwd)
. "$here/env.sh"
id=$1; repo=${2:-/repo}
bin="$here/bin/gtcheck"
rc=0
extra=$(mktemp /tmp/gtextra.XXXXXX.json); trap 'rm -f "$extra" "$extra.sc"' EXIT
declare -A osres
for goos in darwin windows; do
  out=$("$bin" -repo "$repo" -props "$id" -tier thorough -goos "$goos" -evidence "" -known "$here/known_findings.json" 2>&1); r=$?
  echo "$out" | grep -E '^(VIOLATION|ERROR|C[0-9]+:|  )' | sed "s/^/[goos=$goos] /" || true
  osres[$goos]=$(echo "$out" | grep -E "^$id:" | head -1)
  if [ $r -ne 0 ]; then rc=1; fi
done
sc_ok=0; sc_fail=0; sc_stale=0; sc_list=""
if [ -x "$here/tools/selfcheck.sh" ] && [ -d "$here/fixtures/$id" ]; then
  "$here/tools/selfcheck.sh" "$id" > "$extra.sc" 2>&1 || true
  cat "$extra.sc"
  sc_ok=$(grep -c '^selfcheck ok' "$extra.sc"); sc_fail=$(grep -c '^SELFCHECK-FAIL' "$extra.sc"); sc_stale=$(grep -c '^SELFCHECK-STALE' "$extra.sc")
fi
python3 - "$extra" "$extra.sc" "$sc_ok" "$sc_fail" "$sc_stale" "${osres[darwin]:-}" "${osres[windows]:-}" <<'P'
import json,sys,os
out,sc,ok,fail,stale,dar,win=sys.argv[1:8]
lines=[l.rstrip() for l in open(sc)] if os.path.exists(sc) else []
json.dump({"selfcheck":{"fixtures_ok":int(ok),"fixtures_failed":int(fail),"fixtures_stale":int(stale),
  "results":[l for l in lines if l.startswith(("selfcheck ok","SELFCHECK"))]},
  "other_goos":{"darwin":dar,"windows":win}},open(out,"w"))
P
[ "$sc_fail" -gt 0 ] && echo "WARNING: $sc_fail selfcheck fixture(s) did not behave as recorded (checker sensitivity regression; see evidence)"
GTCHECK_EXTRA_JSON="$extra" "$bin" -repo "$repo" -props "$id" -tier thorough -evidence "$here/evidence" -known "$here/known_findings.json" || rc=1
exit $rc
