#!/bin/bash
# usage: mutsweep.sh <mutants-dir> <results.jsonl> [parallel=2] [id-list-file]
# Development tool (DESIGN.md §9): runs the armed rules on every mutant produced by bin/mutgen, each in a
# hardlinked scratch copy of /repo's working tree, and records whether some rule fires. Decides nothing.
set -u
here=/verif; . $here/env.sh
md=$1; res=$2; par=${3:-2}; ids=${4:-}
base=$(mktemp -d /tmp/msbase.XXXXXX); rsync -a --exclude .git /repo/ "$base/"
trap 'rm -rf "$base"' EXIT
export md res base here
run_one() {
  id=$1
  meta=$(jq -c --arg id "$id" '.[]|select(.id==$id)' "$md/mutants.json")
  file=$(echo "$meta" | jq -r .file); fn=$(echo "$meta" | jq -r .func)
  props=$(awk -F'\t' -v f="$fn" '$1==f{print $2}' "$md/funcs_by_rule.tsv" | sort -u | paste -sd, -)
  [ -z "$props" ] && props=""
  w=$(mktemp -d /tmp/ms.XXXXXX); cp -al "$base/." "$w/"
  rm -f "$w/$file"; cp "$md/$id/$file" "$w/$file"
  out=$($here/bin/gtcheck -repo "$w" ${props:+-props "$props"} -evidence "" -known $here/known_findings.json 2>&1); rc=$?
  rm -rf "$w"
  fired=$(echo "$out" | grep -E '^\s+\S+: \[(violated|undecided)\]' | sed -E 's/^.*\] //' | sort -u | paste -sd, -)
  vprops=$(echo "$out" | grep '^VIOLATION' | sed -E 's/.*property=(C[0-9]+).*/\1/' | sort -u | paste -sd, -)
  err=""; echo "$out" | grep -q '^ERROR: cannot analyse' && rc=3; [ $rc -ge 2 ] && err=$(echo "$out" | grep -m1 -E 'ERROR|panic|type error' | head -c 300)
  echo "$meta" | jq -c --arg rc "$rc" --arg fired "$fired" --arg vprops "$vprops" --arg props "$props" --arg err "$err" '. + {rc:($rc|tonumber), fired:$fired, detected_by:$vprops, props_run:$props, err:$err}' >> "$res"
}
export -f run_one
if [ -n "$ids" ]; then cat "$ids"; else jq -r '.[].id' "$md/mutants.json"; fi | xargs -P "$par" -I{} bash -c 'run_one {}'
