#!/usr/bin/env python3
"""Rewrites the table between <!-- seeded-table --> markers in DESIGN.md from seeded/*/meta.json."""
import json, glob, os, re
rows = []
for d in sorted(glob.glob('/verif/seeded/C*-m*')):
    mp = os.path.join(d, 'meta.json')
    if not os.path.exists(mp):
        continue
    m = json.load(open(mp))
    det = m.get('detection', {})
    conf = m.get('confirmed_in_scratch_worktree', {}).get('outcome', {})
    own = 'yes' if det.get('own_property_check_detects') else 'NO'
    obl = ', '.join(sorted(set(re.sub(r'#\d+$', '', o).split(':')[0] + ':' + ':'.join(o.split(':')[1:2]) for o in det.get('obligations', [])))[:4])
    st = 'pending'
    if conf.get('demo_with_change'):
        demo_ok = conf.get('demo_with_change', '').startswith('FAIL') and conf.get('demo_without_change', '').startswith('PASS')
        suite_done = 'suite_exit' in conf
        suite_ok = suite_done and conf.get('suite_still_failing', 'none') == 'none'
        if demo_ok and suite_ok:
            st = 'confirmed here: builds, demo fails with / passes without, whole suite passes with the change'
            if conf.get('suite_rerun_alone'):
                st += ' (' + conf['suite_rerun_alone'].replace('./', '') + ' re-run alone: load)'
        elif demo_ok and not suite_done:
            st = 'demo confirmed here (fails with / passes without); suite with the change: run by the seeding agent only (AGENT_README.md)'
        else:
            st = 'incomplete: ' + ', '.join(f"{k}={v}" for k, v in conf.items() if k in ('demo_with_change', 'demo_without_change', 'suite_still_failing', 'suite_exit'))
    hist = m.get('history', '')
    rows.append(f"| {m['id']} | {m['breaks'][:150].replace('|','/')} | {own} ({', '.join(det.get('detected_by', []))}) | {obl} | {hist} | {st} |")
tab = "| change | what it does | own check detects (all that do) | obligations (first few) | first seen | confirmation |\n|---|---|---|---|---|---|\n" + "\n".join(rows)
p = '/verif/DESIGN.md'
s = open(p).read()
a, b = '<!-- seeded-table -->', '<!-- /seeded-table -->'
if a in s:
    s = s[:s.index(a) + len(a)] + "\n" + tab + "\n" + s[s.index(b):]
    open(p, 'w').write(s)
print(tab)
