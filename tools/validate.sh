#!/bin/bash
# validates MANIFEST.json and every evidence file against the harness schemas
python3-vt - <<'P'
import json,jsonschema,glob
jsonschema.validate(json.load(open('/verif/MANIFEST.json')), json.load(open('/root/.vp/MANIFEST.schema.json')))
print('manifest ok')
s=json.load(open('/root/.vp/EVIDENCE.schema.json'))
for f in sorted(glob.glob('/verif/evidence/C??.json')):
    jsonschema.validate(json.load(open(f)), s)
print('evidence ok', len(glob.glob('/verif/evidence/C??.json')))
P
