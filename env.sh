# sourced by every /verif script: pins the Go toolchain that can load /repo offline
export PATH=/opt/veriftools/go1.26.8/bin:$PATH
export GOFLAGS="-mod=mod -trimpath" GOPROXY=off GOSUMDB=off GOTOOLCHAIN=local CARGO_NET_OFFLINE=true
unset GOWORK
