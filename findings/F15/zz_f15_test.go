package v01

import (
	"encoding/json"
	"testing"
)

func TestF15RootVersionSurvivesRoundTrip(t *testing.T) {
	m := NewRootMetadata()
	m.IncrementVersion()
	m.IncrementVersion()
	b, err := json.Marshal(m)
	if err != nil {
		t.Fatal(err)
	}
	n := &RootMetadata{}
	if err := json.Unmarshal(b, n); err != nil {
		t.Fatal(err)
	}
	if n.GetVersion() != m.GetVersion() {
		t.Fatalf("version %d became %d after serialize+reload (%s)", m.GetVersion(), n.GetVersion(), b)
	}
}
