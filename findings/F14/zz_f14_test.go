package v02

import (
	"testing"

	"github.com/gittuf/gittuf/internal/tuf"
)

func TestF14DuplicateIDsCannotMeetThreshold(t *testing.T) {
	m := NewTargetsMetadata()
	k := &Key{KeyID: "alice"}
	if err := m.AddPrincipal(k); err != nil {
		t.Fatal(err)
	}
	err := m.AddRule("r", []string{"alice", "alice"}, []string{"git:refs/heads/main"}, 2)
	if err == nil {
		for _, r := range m.GetRules() {
			if r.ID() == "r" {
				t.Fatalf("rule accepted with threshold %d but %d distinct principals", r.GetThreshold(), r.GetPrincipalIDs().Len())
			}
		}
	}
	if err != tuf.ErrCannotMeetThreshold {
		t.Fatalf("unexpected error %v", err)
	}
}
