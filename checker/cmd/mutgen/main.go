// mutgen enumerates small syntactic mutations of the functions that the
// rules are anchored in and writes each as a one-file replacement. It is a
// development tool (sensitivity sweep, see /verif/DESIGN.md §9): it decides
// nothing. A mutant that does not type-check is discarded by the runner.
package main

import (
	"bytes"
	"encoding/json"
	"flag"
	"fmt"
	"go/ast"
	"go/format"
	"go/parser"
	"go/token"
	"math/rand"
	"os"
	"path/filepath"
	"sort"
	"strings"

	"go/importer"
	"go/types"

	"golang.org/x/tools/go/packages"
)

// typeChecker re-type-checks one package with one file replaced, importing
// dependencies from the export data go/packages located.
type typeChecker struct {
	pkg   *packages.Package
	files map[string]*ast.File // abs path -> parsed (original)
	fset  *token.FileSet
	imp   types.Importer
}

type mapImporter struct {
	m map[string]*types.Package
}

func (mi mapImporter) Import(path string) (*types.Package, error) {
	if p, ok := mi.m[path]; ok && p != nil {
		return p, nil
	}
	return nil, fmt.Errorf("no export data for %s", path)
}

func loadCheckers(repo string, dirs []string) map[string]*typeChecker {
	var pats []string
	for _, d := range dirs {
		pats = append(pats, "./"+d)
	}
	cfg := &packages.Config{Mode: packages.LoadSyntax, Dir: repo}
	pkgs, err := packages.Load(cfg, pats...)
	if err != nil {
		panic(err)
	}
	res := map[string]*typeChecker{}
	for _, p := range pkgs {
		if len(p.Errors) > 0 {
			panic(fmt.Sprint(p.Errors))
		}
		m := map[string]*types.Package{}
		for path, ip := range p.Imports {
			m[path] = ip.Types
		}
		m["unsafe"] = types.Unsafe
		tc := &typeChecker{pkg: p, imp: mapImporter{m}}
		rel, _ := filepath.Rel(repo, filepath.Dir(p.CompiledGoFiles[0]))
		res[rel] = tc
	}
	_ = importer.Default
	return res
}

// ok reports whether the package still type-checks when file abs is replaced by src.
func (tc *typeChecker) ok(abs string, src []byte) bool {
	fset := token.NewFileSet()
	var files []*ast.File
	for _, f := range tc.pkg.CompiledGoFiles {
		var (
			af  *ast.File
			err error
		)
		if f == abs {
			af, err = parser.ParseFile(fset, f, src, 0)
		} else {
			af, err = parser.ParseFile(fset, f, nil, 0)
		}
		if err != nil {
			return false
		}
		files = append(files, af)
	}
	bad := false
	conf := types.Config{Importer: tc.imp, Error: func(error) { bad = true }, GoVersion: "go1.26"}
	conf.Check(tc.pkg.PkgPath, fset, files, nil)
	return !bad
}

type mutant struct {
	ID     string `json:"id"`
	File   string `json:"file"`
	Func   string `json:"func"`
	Line   int    `json:"line"`
	Op     string `json:"op"`
	Before string `json:"before"`
	After  string `json:"after"`
}

func main() {
	repo := flag.String("repo", "/repo", "repository root")
	funcsFile := flag.String("funcs", "", "file with one function name per line (checker naming); '' = every function of -files")
	files := flag.String("files", "", "comma separated repo-relative files to take every function from")
	out := flag.String("out", "", "output directory")
	perFunc := flag.Int("per-func", 0, "sample at most this many mutants per function (0 = all)")
	seed := flag.Int64("seed", 1, "sampling seed")
	flag.Parse()
	if *out == "" {
		fmt.Fprintln(os.Stderr, "need -out")
		os.Exit(2)
	}
	want := map[string]bool{}
	if *funcsFile != "" {
		b, err := os.ReadFile(*funcsFile)
		if err != nil {
			panic(err)
		}
		for _, l := range strings.Split(string(b), "\n") {
			if l = strings.TrimSpace(l); l != "" {
				want[l] = true
			}
		}
	}
	dirs := map[string]bool{}
	for f := range want {
		dirs[pkgDirOf(f)] = true
	}
	fileSet := map[string]bool{}
	for _, f := range strings.Split(*files, ",") {
		if f = strings.TrimSpace(f); f != "" {
			fileSet[f] = true
			dirs[filepath.Dir(f)] = true
		}
	}
	rng := rand.New(rand.NewSource(*seed))
	var all []mutant
	seen := map[string]bool{}
	var dl []string
	for d := range dirs {
		dl = append(dl, d)
	}
	sort.Strings(dl)
	os.MkdirAll(*out, 0o755)
	n := 0
	checkers := loadCheckers(*repo, dl)
	rejected := 0
	for _, d := range dl {
		ents, err := os.ReadDir(filepath.Join(*repo, d))
		if err != nil {
			fmt.Fprintln(os.Stderr, "skip dir", d, err)
			continue
		}
		for _, e := range ents {
			name := e.Name()
			if e.IsDir() || !strings.HasSuffix(name, ".go") || strings.HasSuffix(name, "_test.go") {
				continue
			}
			rel := filepath.Join(d, name)
			src, err := os.ReadFile(filepath.Join(*repo, rel))
			if err != nil {
				panic(err)
			}
			fset := token.NewFileSet()
			f, err := parser.ParseFile(fset, rel, src, parser.ParseComments)
			if err != nil {
				panic(err)
			}
			for di, decl := range f.Decls {
				fd, ok := decl.(*ast.FuncDecl)
				if !ok || fd.Body == nil {
					continue
				}
				fname := funcName(d, fd)
				if !(want[fname] || fileSet[rel]) {
					continue
				}
				seen[fname] = true
				// count mutation points
				pts := enumerate(fd)
				idx := make([]int, len(pts))
				for i := range idx {
					idx[i] = i
				}
				if *perFunc > 0 && len(idx) > *perFunc {
					rng.Shuffle(len(idx), func(i, j int) { idx[i], idx[j] = idx[j], idx[i] })
					idx = idx[:*perFunc]
					sort.Ints(idx)
				}
				for _, pi := range idx {
					// re-parse for a fresh tree, apply the pi-th mutation
					fset2 := token.NewFileSet()
					f2, _ := parser.ParseFile(fset2, rel, src, parser.ParseComments)
					fd2 := f2.Decls[di].(*ast.FuncDecl)
					pts2 := enumerate(fd2)
					if len(pts2) != len(pts) {
						panic("unstable enumeration")
					}
					p := pts2[pi]
					before := nodeStr(fset2, p.node)
					line := fset2.Position(p.node.Pos()).Line
					p.apply()
					after := p.afterStr(fset2)
					var buf bytes.Buffer
					if err := format.Node(&buf, fset2, f2); err != nil {
						continue
					}
					if tc := checkers[d]; tc != nil && !tc.ok(filepath.Join(*repo, rel), buf.Bytes()) {
						rejected++
						continue
					}
					n++
					id := fmt.Sprintf("m%05d", n)
					md := filepath.Join(*out, id)
					os.MkdirAll(filepath.Join(md, filepath.Dir(rel)), 0o755)
					os.WriteFile(filepath.Join(md, rel), buf.Bytes(), 0o644)
					m := mutant{ID: id, File: rel, Func: fname, Line: line, Op: p.op, Before: clip(before), After: clip(after)}
					all = append(all, m)
				}
			}
		}
	}
	for f := range want {
		if !seen[f] {
			fmt.Fprintln(os.Stderr, "WARNING: function not found:", f)
		}
	}
	b, _ := json.MarshalIndent(all, "", " ")
	os.WriteFile(filepath.Join(*out, "mutants.json"), b, 0o644)
	fmt.Printf("%d mutants over %d functions (%d discarded: do not type-check)\n", len(all), len(seen), rejected)
}

func clip(s string) string {
	s = strings.Join(strings.Fields(s), " ")
	if len(s) > 160 {
		s = s[:160] + "…"
	}
	return s
}

func pkgDirOf(fn string) string {
	// "(*internal/policy.State).Commit" | "internal/policy.verifyEntry" | "(internal/tuf/v01.X).M"
	s := strings.TrimPrefix(fn, "(")
	s = strings.TrimPrefix(s, "*")
	if i := strings.LastIndex(s, "/"); i >= 0 {
		rest := s[i+1:]
		j := strings.Index(rest, ".")
		return s[:i+1+j]
	}
	j := strings.Index(s, ".")
	return s[:j]
}

func funcName(dir string, fd *ast.FuncDecl) string {
	if fd.Recv == nil || len(fd.Recv.List) == 0 {
		return dir + "." + fd.Name.Name
	}
	t := fd.Recv.List[0].Type
	ptr := false
	if st, ok := t.(*ast.StarExpr); ok {
		ptr = true
		t = st.X
	}
	if ix, ok := t.(*ast.IndexExpr); ok {
		t = ix.X
	}
	id, _ := t.(*ast.Ident)
	tn := "?"
	if id != nil {
		tn = id.Name
	}
	if ptr {
		return "(*" + dir + "." + tn + ")." + fd.Name.Name
	}
	return "(" + dir + "." + tn + ")." + fd.Name.Name
}

func nodeStr(fset *token.FileSet, n ast.Node) string {
	var b bytes.Buffer
	format.Node(&b, fset, n)
	return b.String()
}

type point struct {
	op       string
	node     ast.Node
	apply    func()
	afterStr func(*token.FileSet) string
}

var swapOps = map[token.Token][]token.Token{
	token.LAND: {token.LOR},
	token.LOR:  {token.LAND},
	token.EQL:  {token.NEQ},
	token.NEQ:  {token.EQL},
	token.LSS:  {token.LEQ, token.GTR},
	token.LEQ:  {token.LSS},
	token.GTR:  {token.GEQ, token.LSS},
	token.GEQ:  {token.GTR},
	token.ADD:  {token.SUB},
	token.SUB:  {token.ADD},
}

func endsInReturn(b *ast.BlockStmt) bool {
	if len(b.List) == 0 {
		return false
	}
	_, ok := b.List[len(b.List)-1].(*ast.ReturnStmt)
	return ok
}

func enumerate(fd *ast.FuncDecl) []point {
	var pts []point
	self := func(n ast.Node) func(*token.FileSet) string {
		return func(fs *token.FileSet) string { return nodeStr(fs, n) }
	}
	// statement lists: deletion / replacement
	var visitList func(list *[]ast.Stmt)
	visitList = func(list *[]ast.Stmt) {
		for i := range *list {
			i := i
			st := (*list)[i]
			del := func(op string) {
				pts = append(pts, point{op: op, node: st, apply: func() {
					(*list)[i] = &ast.EmptyStmt{Semicolon: st.Pos(), Implicit: false}
				}, afterStr: func(*token.FileSet) string { return "<deleted>" }})
			}
			switch s := st.(type) {
			case *ast.ExprStmt:
				del("del-call")
			case *ast.AssignStmt:
				if s.Tok != token.DEFINE {
					del("del-assign")
				}
			case *ast.IncDecStmt:
				del("del-incdec")
			case *ast.BranchStmt:
				if s.Tok == token.BREAK || s.Tok == token.CONTINUE {
					del("del-" + s.Tok.String())
					pts = append(pts, point{op: "flip-" + s.Tok.String(), node: s, apply: func() {
						if s.Tok == token.BREAK {
							s.Tok = token.CONTINUE
						} else {
							s.Tok = token.BREAK
						}
					}, afterStr: self(s)})
				}
			case *ast.IfStmt:
				if s.Else == nil && endsInReturn(s.Body) {
					del("del-guard")
				}
				if s.Else == nil && len(s.Body.List) > 0 {
					if _, ok := s.Body.List[len(s.Body.List)-1].(*ast.BranchStmt); ok {
						del("del-guard-branch")
					}
				}
			case *ast.DeferStmt:
				del("del-defer")
			}
		}
	}
	ast.Inspect(fd.Body, func(n ast.Node) bool {
		switch x := n.(type) {
		case *ast.FuncLit:
			// closures are part of the function
		case *ast.BlockStmt:
			visitList(&x.List)
		case *ast.CaseClause:
			visitList(&x.Body)
		case *ast.CommClause:
			visitList(&x.Body)
		case *ast.IfStmt:
			pts = append(pts, point{op: "neg-if", node: x.Cond, apply: func() {
				x.Cond = &ast.UnaryExpr{Op: token.NOT, X: &ast.ParenExpr{X: x.Cond}}
			}, afterStr: func(fs *token.FileSet) string { return nodeStr(fs, x.Cond) }})
		case *ast.BinaryExpr:
			for _, to := range swapOps[x.Op] {
				to := to
				from := x.Op
				pts = append(pts, point{op: "binop " + from.String() + "→" + to.String(), node: x, apply: func() { x.Op = to }, afterStr: self(x)})
			}
		case *ast.CallExpr:
			// swap adjacent arguments (type checker filters the ill-typed ones)
			for i := 0; i+1 < len(x.Args); i++ {
				i := i
				if nodeEq(x.Args[i], x.Args[i+1]) {
					continue
				}
				pts = append(pts, point{op: fmt.Sprintf("swap-args %d,%d", i, i+1), node: x, apply: func() {
					x.Args[i], x.Args[i+1] = x.Args[i+1], x.Args[i]
				}, afterStr: self(x)})
			}
			// drop a variadic/trailing argument when ≥2 args and callee takes options (filtered by type checker)
			if len(x.Args) >= 2 {
				last := len(x.Args) - 1
				if _, isCall := x.Args[last].(*ast.CallExpr); isCall {
					pts = append(pts, point{op: "drop-last-arg", node: x, apply: func() {
						x.Args = x.Args[:last]
					}, afterStr: self(x)})
				}
			}
		case *ast.BasicLit:
			if x.Kind == token.INT {
				old := x.Value
				var nv string
				switch old {
				case "0":
					nv = "1"
				case "1":
					nv = "2"
				case "2":
					nv = "1"
				default:
					return true
				}
				pts = append(pts, point{op: "int " + old + "→" + nv, node: x, apply: func() { x.Value = nv }, afterStr: self(x)})
			}
		case *ast.Ident:
			if x.Name == "true" || x.Name == "false" {
				old := x.Name
				nv := "true"
				if old == "true" {
					nv = "false"
				}
				pts = append(pts, point{op: "bool " + old + "→" + nv, node: x, apply: func() { x.Name = nv }, afterStr: self(x)})
			}
		case *ast.ReturnStmt:
			// swallow the error: `return …, err` → `return …, nil` when the last result is an identifier named err-ish
			if len(x.Results) > 0 {
				last := len(x.Results) - 1
				if id, ok := x.Results[last].(*ast.Ident); ok && (id.Name == "err" || strings.HasSuffix(id.Name, "Err")) {
					pts = append(pts, point{op: "swallow-err", node: x, apply: func() {
						x.Results[last] = ast.NewIdent("nil")
					}, afterStr: self(x)})
				}
				if ce, ok := x.Results[last].(*ast.CallExpr); ok && len(x.Results) >= 1 {
					if se, ok := ce.Fun.(*ast.SelectorExpr); ok {
						if pk, ok := se.X.(*ast.Ident); ok && (pk.Name == "fmt" || pk.Name == "errors") {
							pts = append(pts, point{op: "swallow-err", node: x, apply: func() {
								x.Results[last] = ast.NewIdent("nil")
							}, afterStr: self(x)})
						}
					}
				}
			}
		}
		return true
	})
	// `!x` → `x` wherever a unary NOT sits in a replaceable slot
	ast.Inspect(fd.Body, func(n ast.Node) bool {
		rep := func(slot *ast.Expr) {
			if u, ok := (*slot).(*ast.UnaryExpr); ok && u.Op == token.NOT {
				pts = append(pts, point{op: "drop-not", node: u, apply: func() { *slot = u.X }, afterStr: func(fs *token.FileSet) string { return nodeStr(fs, u.X) }})
			}
		}
		switch x := n.(type) {
		case *ast.BinaryExpr:
			rep(&x.X)
			rep(&x.Y)
		case *ast.IfStmt:
			rep(&x.Cond)
		case *ast.ParenExpr:
			rep(&x.X)
		case *ast.AssignStmt:
			for i := range x.Rhs {
				rep(&x.Rhs[i])
			}
		case *ast.ReturnStmt:
			for i := range x.Results {
				rep(&x.Results[i])
			}
		}
		return true
	})
	return pts
}

func nodeEq(a, b ast.Node) bool {
	fs := token.NewFileSet()
	return nodeStr(fs, a) == nodeStr(fs, b)
}
