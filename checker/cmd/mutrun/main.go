// mutrun evaluates the armed rules on many one-file variants of the tree in
// one process (development tool: sensitivity sweep and fixture battery; it
// decides nothing and is not registered in MANIFEST.json).
package main

import (
	"bufio"
	"encoding/json"
	"flag"
	"fmt"
	"os"
	"os/exec"
	"path/filepath"
	"runtime"
	"runtime/debug"
	"sort"
	"strings"
	"time"

	"verif/checker/eng"
	"verif/checker/rules"
)

type mutant struct {
	ID     string `json:"id"`
	File   string `json:"file"`
	Func   string `json:"func"`
	Line   int    `json:"line"`
	Op     string `json:"op"`
	Before string `json:"before"`
	After  string `json:"after"`
}

type result struct {
	mutant
	Status     string   `json:"status"` // detected | silent | typeerror | panic
	Fired      []string `json:"fired,omitempty"`
	DetectedBy []string `json:"detected_by,omitempty"`
	PropsRun   []string `json:"props_run,omitempty"`
	Err        string   `json:"err,omitempty"`
	Secs       float64  `json:"secs"`
}

func main() {
	repo := flag.String("repo", "/repo", "repository root")
	mdir := flag.String("mutants", "", "directory written by mutgen")
	idsFile := flag.String("ids", "", "file with mutant ids to run (default all)")
	out := flag.String("out", "", "results file (JSON lines, appended; ids already present are skipped)")
	knownPath := flag.String("known", "/verif/known_findings.json", "known findings file")
	fbr := flag.String("funcs-by-rule", "", "tsv func<TAB>property<TAB>rule: run only the properties that analyse the mutated function ('' = all)")
	max := flag.Int("max", 0, "stop after this many variants (0 = no limit); exit status 3 means more remain")
	fixtures := flag.String("fixtures", "", "fixture battery: directory with <property>/<name>.patch files (first line `# expect: <keys…>|silent`); prints selfcheck lines")
	fixProps := flag.String("fixture-props", "", "comma separated property ids whose fixtures to run (default all)")
	evalPatches := flag.String("eval-patches", "", "comma separated patch files: evaluate every property's rules on each patched variant; JSON lines on stdout")
	flag.Parse()
	if os.Getenv("GOMAXPROCS") == "" {
		os.Setenv("GOMAXPROCS", "4")
		runtime.GOMAXPROCS(4)
	}
	if *fixtures != "" {
		os.Exit(runFixtures(*repo, *fixtures, *fixProps, *knownPath))
	}
	if *evalPatches != "" {
		os.Exit(runEvalPatches(*repo, strings.Split(*evalPatches, ","), *knownPath))
	}
	var muts []mutant
	b, err := os.ReadFile(filepath.Join(*mdir, "mutants.json"))
	if err != nil {
		fatal(err)
	}
	if err := json.Unmarshal(b, &muts); err != nil {
		fatal(err)
	}
	want := map[string]bool{}
	if *idsFile != "" {
		b, err := os.ReadFile(*idsFile)
		if err != nil {
			fatal(err)
		}
		byID := map[string]mutant{}
		for _, m := range muts {
			byID[m.ID] = m
		}
		var ordered []mutant
		for _, l := range strings.Fields(string(b)) {
			if m, ok := byID[l]; ok && !want[l] {
				want[l] = true
				ordered = append(ordered, m)
			}
		}
		muts = ordered // the ids file gives the order
	}
	done := map[string]bool{}
	if f, err := os.Open(*out); err == nil {
		sc := bufio.NewScanner(f)
		sc.Buffer(make([]byte, 1<<20), 1<<24)
		for sc.Scan() {
			var r result
			if json.Unmarshal(sc.Bytes(), &r) == nil {
				done[r.ID] = true
			}
		}
		f.Close()
	}
	propsOf := map[string]map[string]bool{}
	if *fbr != "" {
		b, err := os.ReadFile(*fbr)
		if err != nil {
			fatal(err)
		}
		for _, l := range strings.Split(string(b), "\n") {
			f := strings.Split(l, "\t")
			if len(f) >= 2 {
				if propsOf[f[0]] == nil {
					propsOf[f[0]] = map[string]bool{}
				}
				propsOf[f[0]][f[1]] = true
			}
		}
	}
	known, err := eng.LoadKnown(*knownPath)
	if err != nil {
		fatal(err)
	}
	allProps := map[string]bool{}
	for _, r := range rules.All() {
		allProps[r.Prop] = true
	}
	base, err := eng.LoadBase(*repo, "")
	if err != nil {
		fatal(err)
	}
	fmt.Fprintf(os.Stderr, "base loaded in %.1fs\n", base.LoadS)
	of, err := os.OpenFile(*out, os.O_APPEND|os.O_CREATE|os.O_WRONLY, 0o644)
	if err != nil {
		fatal(err)
	}
	defer of.Close()
	n := 0
	remaining := false
	for _, m := range muts {
		if (len(want) > 0 && !want[m.ID]) || done[m.ID] {
			continue
		}
		if *max > 0 && n >= *max {
			remaining = true
			break
		}
		n++
		res := runOne(base, *repo, *mdir, m, propsOf, allProps, known)
		jb, _ := json.Marshal(res)
		of.Write(append(jb, '\n'))
		if n%10 == 0 {
			var ms runtime.MemStats
			runtime.ReadMemStats(&ms)
			fmt.Fprintf(os.Stderr, "%d variants, heap %d MB\n", n, ms.HeapAlloc>>20)
		}
	}
	if remaining {
		os.Exit(3)
	}
}

func runOne(base *eng.Base, repo, mdir string, m mutant, propsOf map[string]map[string]bool, allProps map[string]bool, known *eng.KnownFile) (res result) {
	t0 := time.Now()
	res.mutant = m
	defer func() {
		res.Secs = time.Since(t0).Seconds()
		if p := recover(); p != nil {
			res.Status = "panic"
			res.Err = fmt.Sprint(p)
		}
		rules.ResetCaches()
		debug.FreeOSMemory()
	}()
	src, err := os.ReadFile(filepath.Join(mdir, m.ID, m.File))
	if err != nil {
		res.Status = "panic"
		res.Err = err.Error()
		return
	}
	c, err := base.Variant(map[string][]byte{m.File: src})
	if err != nil {
		res.Status = "typeerror"
		res.Err = clip(err.Error(), 300)
		return
	}
	c.Tier = "quick"
	props := allProps
	if ps := propsOf[m.Func]; len(ps) > 0 {
		props = ps
	}
	var ids []string
	for p := range props {
		ids = append(ids, p)
	}
	sort.Strings(ids)
	res.PropsRun = ids
	fired := map[string]bool{}
	ruleCache := map[string]eng.RuleResult{}
	for _, p := range ids {
		var rrs []eng.RuleResult
		for _, r := range rules.RulesFor(p) {
			rr, ok := ruleCache[r.ID]
			if !ok {
				rr = eng.RunRule(c, r)
				ruleCache[r.ID] = rr
			}
			rrs = append(rrs, rr)
		}
		pr := eng.Summarise(p, rrs, known)
		if len(pr.Violations) > 0 {
			res.DetectedBy = append(res.DetectedBy, p)
			for _, o := range pr.Violations {
				fired[o.Key] = true
			}
		}
	}
	for k := range fired {
		res.Fired = append(res.Fired, k)
	}
	sort.Strings(res.Fired)
	if len(res.DetectedBy) > 0 {
		res.Status = "detected"
	} else {
		res.Status = "silent"
	}
	return
}

func clip(s string, n int) string {
	if len(s) > n {
		return s[:n]
	}
	return s
}

func fatal(err error) {
	fmt.Fprintln(os.Stderr, "ERROR:", err)
	os.Exit(2)
}

// runFixtures applies each fixture patch to copies of the files it touches,
// analyses the resulting variant in-process and compares the reports with the
// fixture's expectation. Output format is that of tools/selfcheck.sh.
func runFixtures(repo, dir, props, knownPath string) int {
	known, err := eng.LoadKnown(knownPath)
	if err != nil {
		fatal(err)
	}
	want := map[string]bool{}
	for _, p := range strings.Split(props, ",") {
		if p = strings.TrimSpace(p); p != "" {
			want[p] = true
		}
	}
	pds, _ := os.ReadDir(dir)
	type fx struct{ prop, name, path string }
	var list []fx
	for _, pd := range pds {
		if !pd.IsDir() || (len(want) > 0 && !want[pd.Name()]) {
			continue
		}
		fs, _ := os.ReadDir(filepath.Join(dir, pd.Name()))
		for _, f := range fs {
			if strings.HasSuffix(f.Name(), ".patch") {
				list = append(list, fx{pd.Name(), strings.TrimSuffix(f.Name(), ".patch"), filepath.Join(dir, pd.Name(), f.Name())})
			}
		}
	}
	if len(list) == 0 {
		fmt.Println("selfcheck: no fixtures")
		return 0
	}
	base, err := eng.LoadBase(repo, "")
	if err != nil {
		fatal(err)
	}
	nok, nfail, nstale := 0, 0, 0
	for _, f := range list {
		ov, expect, err := fixtureOverlay(repo, f.path)
		if err != nil {
			nstale++
			fmt.Printf("SELFCHECK-STALE %s/%s: patch does not apply to the current tree (fixture needs re-basing; not a property verdict): %v\n", f.prop, f.name, err)
			continue
		}
		var got []string
		func() {
			defer func() {
				if p := recover(); p != nil {
					got = append(got, fmt.Sprint("panic: ", p))
				}
				rules.ResetCaches()
				debug.FreeOSMemory()
			}()
			c, err := base.Variant(ov)
			if err != nil {
				got = append(got, "ERROR: "+clip(err.Error(), 300))
				return
			}
			c.Tier = "quick"
			var rrs []eng.RuleResult
			for _, r := range rules.RulesFor(f.prop) {
				rrs = append(rrs, eng.RunRule(c, r))
			}
			pr := eng.Summarise(f.prop, rrs, known)
			seen := map[string]bool{}
			for _, o := range pr.Violations {
				if !seen[o.Key] {
					seen[o.Key] = true
					got = append(got, o.Key)
				}
			}
		}()
		sort.Strings(got)
		if expect == "silent" {
			if len(got) > 0 {
				nfail++
				fmt.Printf("SELFCHECK-FAIL %s/%s: expected silence, got:\n    %s\n", f.prop, f.name, strings.Join(got, "\n    "))
			} else {
				nok++
				fmt.Printf("selfcheck ok   %s/%s: silent (behaviour-preserving edit)\n", f.prop, f.name)
			}
			continue
		}
		ok := true
		for _, e := range strings.Fields(expect) {
			hit := false
			for _, g := range got {
				if strings.Contains(g, e) {
					hit = true
				}
			}
			if !hit {
				ok = false
				fmt.Printf("SELFCHECK-FAIL %s/%s: expected a report matching '%s'; got:\n    %s\n", f.prop, f.name, e, strings.Join(append(got, ""), "\n    "))
			}
		}
		if ok {
			nok++
			fmt.Printf("selfcheck ok   %s/%s: fired %d report(s) incl. %s\n", f.prop, f.name, len(got), expect)
		} else {
			nfail++
		}
	}
	fmt.Printf("selfcheck: %d ok, %d failed, %d stale of %d fixtures\n", nok, nfail, nstale, len(list))
	if nfail > 0 {
		return 1
	}
	return 0
}

// fixtureOverlay returns the contents of the files a fixture patch touches after applying it.
func fixtureOverlay(repo, patch string) (map[string][]byte, string, error) {
	if abs, err := filepath.Abs(patch); err == nil {
		patch = abs
	}
	b, err := os.ReadFile(patch)
	if err != nil {
		return nil, "", err
	}
	expect := ""
	var files []string
	for _, l := range strings.Split(string(b), "\n") {
		if strings.HasPrefix(l, "# expect:") && expect == "" {
			expect = strings.TrimSpace(strings.TrimPrefix(l, "# expect:"))
		}
		if strings.HasPrefix(l, "+++ ") {
			f := strings.Fields(l)[1]
			if i := strings.Index(f, "/"); i >= 0 {
				f = f[i+1:] // strip the a/ b/ x/ prefix
			}
			files = append(files, f)
		}
	}
	tmp, err := os.MkdirTemp("", "gtfx")
	if err != nil {
		return nil, "", err
	}
	defer os.RemoveAll(tmp)
	for _, f := range files {
		src, err := os.ReadFile(filepath.Join(repo, f))
		if err != nil && !os.IsNotExist(err) {
			return nil, "", err
		}
		os.MkdirAll(filepath.Dir(filepath.Join(tmp, f)), 0o755)
		if err == nil {
			os.WriteFile(filepath.Join(tmp, f), src, 0o644)
		}
	}
	cmd := exec.Command("patch", "-p1", "-s", "--no-backup-if-mismatch", "-d", tmp, "-i", patch)
	if out, err := cmd.CombinedOutput(); err != nil {
		return nil, "", fmt.Errorf("%v: %s", err, clip(string(out), 200))
	}
	ov := map[string][]byte{}
	for _, f := range files {
		nb, err := os.ReadFile(filepath.Join(tmp, f))
		if err != nil {
			return nil, "", err
		}
		ov[f] = nb
	}
	return ov, expect, nil
}

// runEvalPatches evaluates all properties on each patched variant (used for seeded changes).
func runEvalPatches(repo string, patches []string, knownPath string) int {
	known, err := eng.LoadKnown(knownPath)
	if err != nil {
		fatal(err)
	}
	base, err := eng.LoadBase(repo, "")
	if err != nil {
		fatal(err)
	}
	props := map[string]bool{}
	for _, r := range rules.All() {
		props[r.Prop] = true
	}
	var ids []string
	for p := range props {
		ids = append(ids, p)
	}
	sort.Strings(ids)
	for _, pf := range patches {
		out := map[string]any{"patch": pf}
		ov, _, err := fixtureOverlay(repo, pf)
		if err != nil {
			out["error"] = "patch does not apply to the current tree: " + err.Error()
			jb, _ := json.Marshal(out)
			fmt.Println(string(jb))
			continue
		}
		func() {
			defer func() {
				if p := recover(); p != nil {
					out["error"] = fmt.Sprint("panic: ", p)
				}
				rules.ResetCaches()
				debug.FreeOSMemory()
			}()
			c, err := base.Variant(ov)
			if err != nil {
				out["error"] = clip(err.Error(), 400)
				return
			}
			c.Tier = "quick"
			cache := map[string]eng.RuleResult{}
			var by []string
			fired := map[string]bool{}
			for _, p := range ids {
				var rrs []eng.RuleResult
				for _, r := range rules.RulesFor(p) {
					rr, ok := cache[r.ID]
					if !ok {
						rr = eng.RunRule(c, r)
						cache[r.ID] = rr
					}
					rrs = append(rrs, rr)
				}
				pr := eng.Summarise(p, rrs, known)
				if len(pr.Violations) > 0 {
					by = append(by, p)
					for _, o := range pr.Violations {
						fired[o.Key] = true
					}
				}
			}
			var keys []string
			for k := range fired {
				keys = append(keys, k)
			}
			sort.Strings(keys)
			out["detected_by"] = by
			out["obligations"] = keys
		}()
		jb, _ := json.Marshal(out)
		fmt.Println(string(jb))
	}
	return 0
}
