// gtcheck decides structural necessary conditions of gittuf properties
// C01..C20 from /repo's current source (see /verif/DESIGN.md).
package main

import (
	"encoding/json"
	"flag"
	"fmt"
	"os"
	"runtime"
	"sort"
	"strconv"
	"strings"
	"time"

	"verif/checker/eng"
	"verif/checker/rules"
)

func main() {
	repo := flag.String("repo", "/repo", "repository root")
	props := flag.String("props", "", "comma separated property ids (default: all with rules)")
	tier := flag.String("tier", "quick", "quick|thorough")
	evdir := flag.String("evidence", "/verif/evidence", "evidence directory ('' = do not write)")
	knownPath := flag.String("known", "/verif/known_findings.json", "known findings file")
	goos := flag.String("goos", "", "GOOS to analyse (default: host)")
	verbose := flag.Bool("v", false, "print every obligation")
	list := flag.Bool("list", false, "list rules and exit")
	only := flag.String("rule", "", "run only rules whose id has this prefix")
	flag.Parse()
	// Measured on this 16-core sandbox: parsing + type-checking 1372 packages
	// with 4 threads takes 8 s wall / 28 CPU-s; with 16 threads 9-11 s wall /
	// 100+ CPU-s (contention). The `go list` child inherits the setting.
	if os.Getenv("GOMAXPROCS") == "" {
		os.Setenv("GOMAXPROCS", "4")
		runtime.GOMAXPROCS(4)
	}

	if *list {
		for _, r := range rules.All() {
			fmt.Printf("%-28s floor=%-3d %s\n", r.ID, r.Floor, r.Doc)
		}
		return
	}
	seed := 0
	if s := os.Getenv("VERIF_SEED"); s != "" {
		seed, _ = strconv.Atoi(s)
	}
	want := map[string]bool{}
	for _, p := range strings.Split(*props, ",") {
		if p = strings.TrimSpace(p); p != "" {
			want[p] = true
		}
	}
	byProp := map[string][]*eng.Rule{}
	propsWithRules := map[string]bool{}
	for _, r := range rules.All() {
		propsWithRules[r.Prop] = true
	}
	for p := range propsWithRules {
		if len(want) > 0 && !want[p] {
			continue
		}
		for _, r := range rules.RulesFor(p) {
			if *only != "" && !strings.HasPrefix(r.ID, *only) {
				continue
			}
			byProp[p] = append(byProp[p], r)
		}
	}
	for p := range want {
		if len(byProp[p]) == 0 {
			fmt.Printf("ERROR: no rules registered for property %s\n", p)
			os.Exit(2)
		}
	}
	known, err := eng.LoadKnown(*knownPath)
	if err != nil {
		fmt.Println("ERROR:", err)
		os.Exit(2)
	}
	t0 := time.Now()
	c, err := eng.Load(*repo, *goos, nil)
	if err != nil {
		// the tree does not load: nothing can be decided -> every requested property fails
		fmt.Println("ERROR: cannot analyse the tree:", err)
		for p := range byProp {
			fmt.Printf("VIOLATION property=%s replay=%s (tree does not type-check; no verdict)\n", p, *repo)
		}
		os.Exit(1)
	}
	c.Tier = *tier
	fmt.Printf("loaded %d module packages (%d total), %d package-level funcs, goos=%q in %.1fs\n", len(c.Pkgs), len(c.All), c.NumFuncs, *goos, time.Since(t0).Seconds())

	if d := os.Getenv("GTCHECK_DUMP"); d != "" {
		rules.Dump(c, d)
		return
	}
	ids := make([]string, 0, len(byProp))
	for p := range byProp {
		ids = append(ids, p)
	}
	sort.Strings(ids)
	exit := 0
	for _, p := range ids {
		tp := time.Now()
		var rrs []eng.RuleResult
		for _, r := range byProp[p] {
			rrs = append(rrs, eng.RunRule(c, r))
		}
		pr := eng.Summarise(p, rrs, known)
		pr.WallS = time.Since(tp).Seconds() + c.LoadS
		if *verbose {
			for _, rr := range rrs {
				for _, o := range rr.Obls {
					fmt.Printf("  [%s] %s %s — %s\n", o.Status, o.Key, o.Pos, o.Msg)
				}
			}
		}
		for _, o := range pr.KnownHits {
			fmt.Printf("KNOWN-FINDING: property=%s %s %s — %s\n", p, o.Key, o.Pos, o.Msg)
		}
		replay := ""
		if *evdir != "" {
			replay = fmt.Sprintf("%s/%s.violations.json", *evdir, p)
			if err := writeEvidence(c, *evdir, pr, *tier, seed, *goos); err != nil {
				fmt.Println("ERROR: writing evidence:", err)
				exit = 2
			}
		}
		if len(pr.Violations) > 0 {
			for _, o := range pr.Violations {
				fmt.Printf("  %s: [%s] %s\n      %s\n", o.Pos, o.Status, o.Key, o.Msg)
			}
			if *evdir != "" {
				_ = eng.WriteJSON(replay, pr.Violations)
			}
			fmt.Printf("VIOLATION property=%s replay=%s\n", p, replay)
			if exit == 0 {
				exit = 1
			}
		} else if *evdir != "" {
			os.Remove(replay)
		}
		fmt.Printf("%s: rules=%d obligations=%d discharged=%d known=%d violations=%d\n", p, len(rrs), pr.Obligations, pr.Discharged, pr.Known, len(pr.Violations))
	}
	os.Exit(exit)
}

func writeEvidence(c *eng.Ctx, dir string, pr *eng.PropResult, tier string, seed int, goos string) error {
	var ruleDocs []map[string]any
	var samples []map[string]any
	funcs := map[string]bool{}
	sites := 0
	for _, rr := range pr.Rules {
		n, d, v, u := 0, 0, 0, 0
		for _, o := range rr.Obls {
			n++
			switch o.Status {
			case eng.Discharged:
				d++
			case eng.Violated:
				v++
			default:
				u++
			}
		}
		ruleDocs = append(ruleDocs, map[string]any{"rule": rr.Rule.ID, "statement": rr.Rule.Doc, "floor": rr.Rule.Floor,
			"obligations": n, "discharged": d, "violated": v, "undecided": u, "functions": rr.Funcs, "sites": rr.Sites})
		for _, f := range rr.Funcs {
			funcs[f] = true
		}
		sites += rr.Sites
		for i, o := range rr.Obls {
			if i < 4 || o.Status != eng.Discharged {
				samples = append(samples, map[string]any{"key": o.Key, "status": o.Status, "pos": o.Pos, "msg": o.Msg, "known": o.Known})
			}
		}
	}
	fl := make([]string, 0, len(funcs))
	for f := range funcs {
		fl = append(fl, f)
	}
	sort.Strings(fl)
	meta := rules.Meta[pr.Prop]
	ev := eng.Evidence{
		PropertyID: pr.Prop, Tier: tier, Seed: seed, Level: "other",
		Coverage: map[string]any{
			"explanation":        meta.Explanation,
			"decides":            meta.Decides,
			"does_not_decide":    meta.NotDecided,
			"obligations":        pr.Obligations,
			"discharged":         pr.Discharged,
			"known_findings":     pr.Known,
			"violated_or_undecided": len(pr.Violations),
			"rules":              ruleDocs,
			"functions_analysed": fl,
			"call_sites_analysed": sites,
			"packages_loaded":    len(c.Pkgs),
			"packages_total":     len(c.All),
			"goos":               goos,
			"samples":            samples,
			"checker_cmd":        fmt.Sprintf("/verif/check %s %s", pr.Prop, tier),
		},
		Assumptions: append([]string{
			"go/packages + go/types + go/ssa (x/tools v0.50.0, go1.26.8) represent the program the Go compiler builds for the analysed GOOS (non-test files, default build tags); module packages and all dependencies are type-checked from source on every run",
			"interface calls are resolved over the module's own implementers; function values are not followed except closures defined in the analysed function",
			"each rule is a necessary condition of the property visible in the code's shape; discharging it does not prove the quantified behaviour",
		}, meta.Assumptions...),
		WallS:      pr.WallS,
		Violations: len(pr.Violations),
	}
	if x := os.Getenv("GTCHECK_EXTRA_JSON"); x != "" {
		if b, err := os.ReadFile(x); err == nil {
			var extra map[string]any
			if json.Unmarshal(b, &extra) == nil {
				for k, v := range extra {
					ev.Coverage[k] = v
				}
			}
		}
	}
	return eng.WriteJSON(fmt.Sprintf("%s/%s.json", dir, pr.Prop), ev)
}
