package eng

import (
	"go/constant"
	"go/token"
	"go/types"

	"golang.org/x/tools/go/ssa"
)

// Pat is a predicate over SSA values used to describe operands of conditions
// and arguments of calls structurally (never by variable name or position).
type Pat func(ssa.Value) bool

// AllRoots lifts a predicate on root values to "every possible origin of v
// satisfies p".
func AllRoots(p Pat) Pat {
	return func(v ssa.Value) bool {
		rs := Roots(v)
		if len(rs) == 0 {
			return false
		}
		for _, r := range rs {
			if !p(r) {
				return false
			}
		}
		return true
	}
}

// SomeRoot: at least one origin satisfies p.
func SomeRoot(p Pat) Pat {
	return func(v ssa.Value) bool {
		for _, r := range Roots(v) {
			if p(r) {
				return true
			}
		}
		return false
	}
}

// PParam matches the function parameter with this name (or receiver).
func PParam(name string) Pat {
	return AllRoots(func(v ssa.Value) bool {
		p, ok := v.(*ssa.Parameter)
		return ok && p.Name() == name
	})
}

// PInt matches an integer constant.
func PInt(n int64) Pat {
	return func(v ssa.Value) bool {
		i, ok := ConstInt(v)
		return ok && i == n
	}
}

// PStr matches a string constant.
func PStr(s string) Pat {
	return func(v ssa.Value) bool {
		x, ok := ConstString(v)
		return ok && x == s
	}
}

// PNil matches the nil constant.
func PNil() Pat { return IsNilConst }

// PAny matches anything.
func PAny() Pat { return func(ssa.Value) bool { return true } }

// POr / PAnd combine patterns.
func POr(ps ...Pat) Pat {
	return func(v ssa.Value) bool {
		for _, p := range ps {
			if p(v) {
				return true
			}
		}
		return false
	}
}

// PCall matches (every origin of) a value that is result idx (-1: any) of a
// call whose Name() or bare method name is `name`, with receiver/args patterns
// (nil entries and missing trailing entries are wildcards). For methods, args[0]
// is the receiver pattern when recvFirst.
func PCall(name string, idx int, args ...Pat) Pat {
	return AllRoots(func(v ssa.Value) bool {
		k, i, ok := RootCall(v)
		if !ok || (idx >= 0 && i != idx) {
			return false
		}
		return callMatches(k, name, args)
	})
}

// PMethod matches a call of method `method` (any receiver type) whose receiver
// satisfies recv.
func PMethod(method string, recv Pat, args ...Pat) Pat {
	return AllRoots(func(v ssa.Value) bool {
		k, _, ok := RootCall(v)
		if !ok || k.Method() != method {
			return false
		}
		if recv != nil {
			r := k.Recv()
			if r == nil || !recv(r) {
				return false
			}
		}
		for i, a := range args {
			if a == nil {
				continue
			}
			x := k.Arg(i)
			if x == nil || !a(x) {
				return false
			}
		}
		return true
	})
}

func callMatches(k Call, name string, args []Pat) bool {
	if k.Name() != name && k.Method() != name {
		return false
	}
	for i, a := range args {
		if a == nil {
			continue
		}
		x := k.Arg(i)
		if x == nil || !a(x) {
			return false
		}
	}
	return true
}

// PBin matches `x op y` (commutative ops in either order).
func PBin(op token.Token, x, y Pat) Pat {
	return func(v ssa.Value) bool {
		b, ok := Strip(v).(*ssa.BinOp)
		if !ok || b.Op != op {
			return false
		}
		if x(b.X) && y(b.Y) {
			return true
		}
		if op == token.ADD || op == token.MUL || op == token.AND || op == token.OR {
			return x(b.Y) && y(b.X)
		}
		return false
	}
}

// PLen matches len(x).
func PLen(x Pat) Pat { return Pat(IsLenOf(x)) }

// PField matches a load of field `name` from a base matching p (nil: any).
func PField(name string, base Pat) Pat {
	return AllRoots(func(v ssa.Value) bool {
		n, b, ok := FieldLoad(v)
		if !ok || n != name {
			return false
		}
		return base == nil || base(b)
	})
}

// PGlobal matches a load of the package-level variable `name`.
func PGlobal(name string) Pat {
	return AllRoots(func(v ssa.Value) bool {
		g := GlobalLoad(v)
		return g != nil && g.Name() == name
	})
}

// PTypeIs matches values whose static type's named type is `name`.
func PTypeIs(name string) Pat {
	return func(v ssa.Value) bool {
		t := v.Type()
		if p, ok := t.(*types.Pointer); ok {
			t = p.Elem()
		}
		n, ok := t.(*types.Named)
		return ok && n.Obj().Name() == name
	}
}

// PSame matches exactly this SSA value (after origin resolution).
func PSame(w ssa.Value) Pat {
	return func(v ssa.Value) bool { return sameValue(v, w) }
}

var negate = map[token.Token]token.Token{
	token.EQL: token.NEQ, token.NEQ: token.EQL,
	token.LSS: token.GEQ, token.GEQ: token.LSS,
	token.GTR: token.LEQ, token.LEQ: token.GTR,
}

// RelEdges returns the CFG edges of fn on which the relation `x op y` is known
// to hold, whatever way the source spells the test (negated, mirrored, under
// `!`): e.g. for op ">=" it returns the true edge of `x >= y`, the false edge
// of `x < y`, the true edge of `y <= x`, …
func RelEdges(fn *ssa.Function, op token.Token, x, y Pat) []Edge {
	var out []Edge
	for _, b := range fn.Blocks {
		if len(b.Instrs) == 0 {
			continue
		}
		iff, ok := b.Instrs[len(b.Instrs)-1].(*ssa.If)
		if !ok {
			continue
		}
		c, pol := normCond(iff.Cond, true)
		bo, ok := c.(*ssa.BinOp)
		if !ok {
			continue
		}
		if _, isRel := negate[bo.Op]; !isRel {
			continue
		}
		for _, truth := range []bool{true, false} {
			rel := bo.Op
			if !truth {
				rel = negate[bo.Op]
			}
			match := (rel == op && x(bo.X) && y(bo.Y)) || (mirror[rel] == op && x(bo.Y) && y(bo.X))
			if !match {
				// integer normalisation: `v < k` ≡ `v <= k-1`, `v <= k` ≡ `v < k+1`, `v > k` ≡ `v >= k+1`, `v >= k` ≡ `v > k-1`
				for _, alt := range intEquivalents(rel, bo.X, bo.Y) {
					if alt.op == op && x(alt.x) && y(alt.y) {
						match = true
					}
				}
				for _, alt := range intEquivalents(mirror[rel], bo.Y, bo.X) {
					if alt.op == op && x(alt.x) && y(alt.y) {
						match = true
					}
				}
			}
			if !match {
				continue
			}
			if truth == pol {
				out = append(out, Edge{b, 0})
			} else {
				out = append(out, Edge{b, 1})
			}
		}
	}
	return out
}

// BoolEdges returns the edges on which a boolean-valued expression matching p
// has the given truth value.
func BoolEdges(fn *ssa.Function, p Pat, truth bool) []Edge {
	return CondEdges(fn, func(c ssa.Value) bool { return p(c) }, truth)
}

// LeadsOnlyToErr reports whether every path starting on edge e ends in a
// return whose error is certainly non-nil and (if sentinel != "") wraps the
// named package-level error. It returns a witness path otherwise.
func LeadsOnlyToErr(e Edge, sentinel string) *Path {
	bad := func(in ssa.Instruction) bool {
		r, ok := in.(*ssa.Return)
		if !ok {
			return false
		}
		ev := RetErr(r)
		if ClassifyErr(ev, r.Block()) != ErrNonNil {
			return true
		}
		if sentinel != "" && !Sentinels(ev)[sentinel] {
			return true
		}
		return false
	}
	return FindPath(e.To(), 0, bad, nil)
}

// IsPanicBlockEnd reports whether block ends in panic.
func endsInPanic(b *ssa.BasicBlock) bool {
	if len(b.Instrs) == 0 {
		return false
	}
	_, ok := b.Instrs[len(b.Instrs)-1].(*ssa.Panic)
	return ok
}

type relAlt struct {
	op   token.Token
	x, y ssa.Value
}

// intEquivalents rewrites `x rel k` (k an integer constant on the right) into
// the equivalent strict/non-strict form with k±1.
func intEquivalents(rel token.Token, x, y ssa.Value) []relAlt {
	k, ok := y.(*ssa.Const)
	if !ok || k.Value == nil || k.Value.Kind() != constant.Int {
		return nil
	}
	n, exact := constant.Int64Val(k.Value)
	if !exact {
		return nil
	}
	mk := func(v int64) ssa.Value { return ssa.NewConst(constant.MakeInt64(v), k.Type()) }
	// a length is never negative: `len(x) <= 0` ≡ `len(x) < 1` ≡ `len(x) == 0`, `len(x) > 0` ≡ `len(x) >= 1` ≡ `len(x) != 0`
	if IsLenOf(Any)(x) {
		switch {
		case (rel == token.LEQ && n == 0) || (rel == token.LSS && n == 1):
			return []relAlt{{token.EQL, x, mk(0)}, {token.LEQ, x, mk(0)}, {token.LSS, x, mk(1)}}
		case (rel == token.GTR && n == 0) || (rel == token.GEQ && n == 1):
			return []relAlt{{token.NEQ, x, mk(0)}, {token.GTR, x, mk(0)}, {token.GEQ, x, mk(1)}}
		case rel == token.EQL && n == 0:
			return []relAlt{{token.LEQ, x, mk(0)}, {token.LSS, x, mk(1)}}
		case rel == token.NEQ && n == 0:
			return []relAlt{{token.GTR, x, mk(0)}, {token.GEQ, x, mk(1)}}
		}
	}
	switch rel {
	case token.LSS:
		return []relAlt{{token.LEQ, x, mk(n - 1)}}
	case token.LEQ:
		return []relAlt{{token.LSS, x, mk(n + 1)}}
	case token.GTR:
		return []relAlt{{token.GEQ, x, mk(n + 1)}}
	case token.GEQ:
		return []relAlt{{token.GTR, x, mk(n - 1)}}
	}
	return nil
}
