package eng

import (
	"fmt"
	"go/constant"
	"go/token"

	"golang.org/x/tools/go/ssa"
)

// Decision tables. A piece of branching code whose branch conditions are all
// either (a) named *atoms* — predicates over run-time values that the analysis
// does not interpret — or (b) boolean / nil-ness bookkeeping over SSA values
// that can be evaluated from constants and phi edges, computes a boolean
// function of the atoms. WalkDecision evaluates that function for ONE truth
// assignment by walking the CFG (no execution: conditions are looked up, not
// computed); a rule enumerates all assignments and compares the outcomes with
// the table the property demands. This is predicate abstraction with
// exhaustive enumeration — the code touches the values only through the
// comparisons that are the atoms.

// AtomFn classifies a (negation-stripped) branch condition: the atom's name
// and whether the condition is the atom (true) or its negation (false).
type AtomFn func(cond ssa.Value) (name string, positive bool, ok bool)

// OutcomeFn names the outcome reached when the walk arrives at an instruction
// ("" = keep walking).
type OutcomeFn func(in ssa.Instruction) string

// WalkDecision walks from (start, idx) under the assignment until an outcome
// is reached. It returns the outcome label, or an error describing the first
// condition it could not decide (neither atom nor evaluable bookkeeping).
func WalkDecision(start *ssa.BasicBlock, idx int, atoms AtomFn, asg map[string]bool, outcome OutcomeFn) (string, error) {
	return WalkDecisionSeeded(start, idx, atoms, asg, outcome, nil)
}

// WalkDecisionSeeded is WalkDecision with assumed values (1 true/non-nil, 0
// false/nil) for SSA values the walk cannot derive itself — typically
// loop-carried variables whose value at the start point is a loop invariant.
func WalkDecisionSeeded(start *ssa.BasicBlock, idx int, atoms AtomFn, asg map[string]bool, outcome OutcomeFn, seed func(ssa.Value) (int8, bool)) (string, error) {
	env := map[ssa.Value]int8{} // 1 = true / non-nil, 0 = false / nil
	var evalV func(v ssa.Value, depth int) (int8, bool)
	evalV = func(v ssa.Value, depth int) (int8, bool) {
		if depth > 8 {
			return 0, false
		}
		switch x := v.(type) {
		case *ssa.Const:
			if x.Value == nil {
				return 0, true // nil
			}
			if x.Value.Kind() == constant.Bool {
				if constant.BoolVal(x.Value) {
					return 1, true
				}
				return 0, true
			}
			return 0, false
		}
		if k, ok := env[v]; ok {
			return k, true
		}
		if seed != nil {
			if k, ok := seed(v); ok {
				return k, true
			}
		}
		c, pol := normCond(v, true)
		if c != v {
			if k, ok := evalV(c, depth+1); ok {
				if !pol {
					k = 1 - k
				}
				return k, true
			}
			return 0, false
		}
		if name, positive, ok := atoms(v); ok {
			val, has := asg[name]
			if !has {
				return 0, false
			}
			if val == positive {
				return 1, true
			}
			return 0, true
		}
		switch x := v.(type) {
		case *ssa.BinOp:
			// comparisons with nil / between bookkeeping booleans
			if x.Op == token.EQL || x.Op == token.NEQ {
				a, okA := evalV(x.X, depth+1)
				b, okB := evalV(x.Y, depth+1)
				_, cx := x.X.(*ssa.Const)
				_, cy := x.Y.(*ssa.Const)
				if okA && okB && (cx || cy) {
					eq := a == b
					if x.Op == token.NEQ {
						eq = !eq
					}
					if eq {
						return 1, true
					}
					return 0, true
				}
			}
		case *ssa.MakeInterface, *ssa.Alloc, *ssa.MakeMap, *ssa.MakeSlice, *ssa.MakeClosure:
			return 1, true
		case *ssa.ChangeInterface:
			return evalV(x.X, depth+1)
		case *ssa.Extract:
			// value half of a comma-ok type assertion taken on its ok edge: non-nil
			if ta, ok := x.Tuple.(*ssa.TypeAssert); ok && x.Index == 0 && ta.CommaOk {
				return 1, true
			}
		case *ssa.TypeAssert:
			if !x.CommaOk {
				return 1, true
			}
		}
		return 0, false
	}
	steps := 0
	var walk func(b *ssa.BasicBlock, i int, prev *ssa.BasicBlock, depth int) (string, error)
	walk = func(b *ssa.BasicBlock, i int, prev *ssa.BasicBlock, depth int) (string, error) {
		for {
			if steps++; steps > 20000 {
				return "", fmt.Errorf("walk did not terminate (loop without outcome)")
			}
			// phis on entry
			if i == 0 && prev != nil {
				pi := -1
				for k, p := range b.Preds {
					if p == prev {
						pi = k
					}
				}
				type upd struct {
					v  ssa.Value
					k  int8
					ok bool
				}
				var ups []upd
				for _, in := range b.Instrs {
					phi, ok := in.(*ssa.Phi)
					if !ok {
						break
					}
					if pi < 0 || pi >= len(phi.Edges) {
						continue
					}
					k, okv := evalV(phi.Edges[pi], 0)
					ups = append(ups, upd{phi, k, okv})
				}
				for _, u := range ups {
					if u.ok {
						env[u.v] = u.k
					} else {
						delete(env, u.v)
					}
				}
			}
			next := (*ssa.BasicBlock)(nil)
			for ; i < len(b.Instrs); i++ {
				in := b.Instrs[i]
				if lab := outcome(in); lab != "" {
					return lab, nil
				}
				switch x := in.(type) {
				case *ssa.If:
					k, ok := evalV(x.Cond, 0)
					if !ok {
						// a condition the table does not know: harmless if it cannot change the outcome
						if depth > 6 {
							return "", fmt.Errorf("condition %s at block %d is neither an atom nor evaluable", x.Cond.String(), b.Index)
						}
						saved := map[ssa.Value]int8{}
						for kk, vv := range env {
							saved[kk] = vv
						}
						o0, e0 := walk(b.Succs[0], 0, b, depth+1)
						for kk := range env {
							delete(env, kk)
						}
						for kk, vv := range saved {
							env[kk] = vv
						}
						o1, e1 := walk(b.Succs[1], 0, b, depth+1)
						if e0 != nil {
							return "", e0
						}
						if e1 != nil {
							return "", e1
						}
						if o0 != o1 {
							return "", fmt.Errorf("condition %s at block %d is neither an atom nor evaluable, and the outcome depends on it (%s vs %s)", x.Cond.String(), b.Index, o0, o1)
						}
						return o0, nil
					}
					if k == 1 {
						next = b.Succs[0]
					} else {
						next = b.Succs[1]
					}
				case *ssa.Jump:
					next = b.Succs[0]
				case *ssa.Return:
					return "return", nil
				case *ssa.Panic:
					return "panic", nil
				}
				if next != nil {
					break
				}
			}
			if next == nil {
				return "", fmt.Errorf("fell off block %d", b.Index)
			}
			prev, b, i = b, next, 0
		}
	}
	return walk(start, idx, nil, 0)
}

// CmpAtom matches v as a comparison between operands satisfying x and y and
// returns the operator normalised to `x op y`.
func CmpAtom(v ssa.Value, x, y func(ssa.Value) bool) (token.Token, bool) {
	b, ok := v.(*ssa.BinOp)
	if !ok {
		return 0, false
	}
	if _, isRel := mirror[b.Op]; !isRel {
		return 0, false
	}
	if x(b.X) && y(b.Y) {
		return b.Op, true
	}
	if x(b.Y) && y(b.X) {
		return mirror[b.Op], true
	}
	return 0, false
}
