package eng

import (
	"fmt"
	"go/ast"
	"go/parser"
	"go/token"
	"go/types"
	"os"
	"path/filepath"
	"sort"
	"strings"
	"time"

	"golang.org/x/tools/go/packages"
)

// Base is a tree loaded once (go list + parse + type-check of everything);
// Variant derives, in the same process, the program obtained by replacing a
// few source files: only the module packages that contain a replaced file and
// the module packages that import them (transitively) are re-type-checked from
// source; every other package (all dependencies) is shared. Used by the
// development tools (mutation sweep, fixture battery) — the registered checks
// always load /repo afresh.
type Base struct {
	RepoDir string
	GOOS    string
	roots   []*packages.Package
	all     map[string]*packages.Package
	topo    []*packages.Package // module packages, dependencies first
	LoadS   float64
}

// LoadBase runs packages.Load on the tree.
func LoadBase(repoDir, goos string) (*Base, error) {
	t0 := time.Now()
	env := os.Environ()
	if goos != "" {
		env = append(env, "GOOS="+goos, "CGO_ENABLED=0")
	}
	cfg := &packages.Config{Mode: packages.LoadAllSyntax | packages.NeedModule, Dir: repoDir, Env: env, Tests: false}
	pkgs, err := packages.Load(cfg, "./...")
	if err != nil {
		return nil, fmt.Errorf("packages.Load: %w", err)
	}
	if len(pkgs) == 0 {
		return nil, fmt.Errorf("no packages loaded from %s", repoDir)
	}
	b := &Base{RepoDir: repoDir, GOOS: goos, roots: pkgs, all: map[string]*packages.Package{}}
	var errs []string
	packages.Visit(pkgs, nil, func(p *packages.Package) {
		b.all[p.PkgPath] = p
		if strings.HasPrefix(p.PkgPath, Module) {
			for _, e := range p.Errors {
				errs = append(errs, e.Error())
			}
		}
	})
	if len(errs) > 0 {
		sort.Strings(errs)
		if len(errs) > 10 {
			errs = errs[:10]
		}
		return nil, fmt.Errorf("type/load errors in module packages (the tree does not build): %s", strings.Join(errs, "; "))
	}
	// topological order of module packages
	seen := map[*packages.Package]bool{}
	var visit func(p *packages.Package)
	visit = func(p *packages.Package) {
		if seen[p] || !strings.HasPrefix(p.PkgPath, Module) {
			return
		}
		seen[p] = true
		var keys []string
		for k := range p.Imports {
			keys = append(keys, k)
		}
		sort.Strings(keys)
		for _, k := range keys {
			visit(p.Imports[k])
		}
		b.topo = append(b.topo, p)
	}
	var paths []string
	for path := range b.all {
		paths = append(paths, path)
	}
	sort.Strings(paths)
	for _, path := range paths {
		visit(b.all[path])
	}
	b.LoadS = time.Since(t0).Seconds()
	return b, nil
}

// Ctx builds the analysable program for the unchanged tree.
func (b *Base) Ctx() (*Ctx, error) {
	return finishLoad(b.RepoDir, b.GOOS, b.roots, time.Now().Add(-time.Duration(b.LoadS*float64(time.Second))))
}

// Variant builds the program in which the files named by overlay (absolute
// path or path relative to the repository root → new content) are replaced.
// A replaced file must already belong to a module package; a path that does
// not exist yet is added to the package whose directory it is in.
func (b *Base) Variant(overlay map[string][]byte) (*Ctx, error) {
	t0 := time.Now()
	ov := map[string][]byte{}
	for k, v := range overlay {
		if !filepath.IsAbs(k) {
			k = filepath.Join(b.RepoDir, k)
		}
		ov[k] = v
	}
	fset := b.roots[0].Fset
	affected := map[*packages.Package]bool{}
	used := map[string]bool{}
	extra := map[*packages.Package][]string{}
	for _, p := range b.topo {
		for _, f := range p.CompiledGoFiles {
			if _, ok := ov[f]; ok {
				affected[p] = true
				used[f] = true
			}
		}
	}
	for f := range ov {
		if used[f] || strings.HasSuffix(f, "_test.go") {
			continue
		}
		dir := filepath.Dir(f)
		found := false
		for _, p := range b.topo {
			if len(p.CompiledGoFiles) > 0 && filepath.Dir(p.CompiledGoFiles[0]) == dir {
				affected[p] = true
				extra[p] = append(extra[p], f)
				found = true
			}
		}
		if !found {
			return nil, fmt.Errorf("overlay file %s belongs to no loaded module package", f)
		}
	}
	repl := map[*packages.Package]*packages.Package{}
	var errs []string
	for _, p := range b.topo {
		if !affected[p] {
			for _, ip := range p.Imports {
				if repl[ip] != nil {
					affected[p] = true
					break
				}
			}
		}
		if !affected[p] {
			continue
		}
		np := *p
		np.Errors = nil
		np.IllTyped = false
		np.Imports = map[string]*packages.Package{}
		for k, ip := range p.Imports {
			if r := repl[ip]; r != nil {
				np.Imports[k] = r
			} else {
				np.Imports[k] = ip
			}
		}
		var files []*ast.File
		for i, f := range p.CompiledGoFiles {
			if src, ok := ov[f]; ok {
				af, err := parser.ParseFile(fset, f, src, parser.AllErrors|parser.ParseComments)
				if err != nil {
					errs = append(errs, err.Error())
					continue
				}
				files = append(files, af)
			} else if i < len(p.Syntax) {
				files = append(files, p.Syntax[i])
			}
		}
		if len(p.Syntax) != len(p.CompiledGoFiles) {
			return nil, fmt.Errorf("package %s: %d syntax trees for %d files", p.PkgPath, len(p.Syntax), len(p.CompiledGoFiles))
		}
		for _, f := range extra[p] {
			af, err := parser.ParseFile(fset, f, ov[f], parser.AllErrors|parser.ParseComments)
			if err != nil {
				errs = append(errs, err.Error())
				continue
			}
			files = append(files, af)
			np.CompiledGoFiles = append(append([]string(nil), np.CompiledGoFiles...), f)
		}
		np.Syntax = files
		np.Types = types.NewPackage(p.PkgPath, p.Name)
		np.TypesInfo = &types.Info{
			Types:        map[ast.Expr]types.TypeAndValue{},
			Defs:         map[*ast.Ident]types.Object{},
			Uses:         map[*ast.Ident]types.Object{},
			Implicits:    map[ast.Node]types.Object{},
			Instances:    map[*ast.Ident]types.Instance{},
			Scopes:       map[ast.Node]*types.Scope{},
			Selections:   map[*ast.SelectorExpr]*types.Selection{},
			FileVersions: map[*ast.File]string{},
		}
		gov := ""
		if p.Module != nil && p.Module.GoVersion != "" {
			gov = "go" + p.Module.GoVersion
		}
		imps := np.Imports
		conf := types.Config{
			Importer: importerFunc(func(path string) (*types.Package, error) {
				if path == "unsafe" {
					return types.Unsafe, nil
				}
				if ip := imps[path]; ip != nil && ip.Types != nil {
					return ip.Types, nil
				}
				// an import the original file set did not have: any package of the loaded program
				if ip := b.all[path]; ip != nil && ip.Types != nil {
					if r := repl[ip]; r != nil {
						ip = r
					}
					imps[path] = ip
					return ip.Types, nil
				}
				return nil, fmt.Errorf("import %q not resolved", path)
			}),
			Sizes:     p.TypesSizes,
			GoVersion: gov,
			Error:     func(err error) { errs = append(errs, err.Error()) },
		}
		_ = types.NewChecker(&conf, fset, np.Types, np.TypesInfo).Files(files)
		repl[p] = &np
	}
	if len(errs) > 0 {
		sort.Strings(errs)
		if len(errs) > 10 {
			errs = errs[:10]
		}
		return nil, fmt.Errorf("type/load errors in module packages (the tree does not build): %s", strings.Join(errs, "; "))
	}
	roots := make([]*packages.Package, len(b.roots))
	for i, p := range b.roots {
		if r := repl[p]; r != nil {
			roots[i] = r
		} else {
			roots[i] = p
		}
	}
	return finishLoad(b.RepoDir, b.GOOS, roots, t0)
}

type importerFunc func(path string) (*types.Package, error)

func (f importerFunc) Import(path string) (*types.Package, error) { return f(path) }

var _ = token.NoPos
