package eng

import (
	"encoding/json"
	"fmt"
	"go/token"
	"os"
	"path/filepath"
	"sort"
	"strings"

	"golang.org/x/tools/go/ssa"
)

type Status string

const (
	Discharged Status = "discharged"
	Violated   Status = "violated"
	Undecided  Status = "undecided"
)

// Obligation is one instance of a rule on a named construct. Keys never carry
// line numbers: "<rule>:<func>[:<construct>]".
type Obligation struct {
	Key    string `json:"key"`
	Rule   string `json:"rule"`
	Status Status `json:"status"`
	Pos    string `json:"pos"`
	Msg    string `json:"msg"`
	Known  bool   `json:"known,omitempty"`
}

// Rule is a named check with a frozen floor on how many obligations it must
// produce (a rule that matches nothing passes vacuously forever).
type Rule struct {
	ID    string // e.g. "C04.stepper-checks"
	Prop  string // e.g. "C04"
	Doc   string // the rule statement (goes into evidence)
	Floor int    // minimum number of obligations (discharged+violated) expected
	Run   func(c *Ctx, r *R)
}

// R collects the obligations of one rule run.
type R struct {
	c    *Ctx
	rule *Rule
	Obls []Obligation
	seen map[string]int
	// analysed constructs for evidence
	Funcs map[string]bool
	Sites int
}

func (r *R) add(st Status, key string, pos token.Pos, format string, args ...any) {
	full := r.rule.ID + ":" + key
	if n := r.seen[full]; n > 0 {
		r.seen[full] = n + 1
		full = fmt.Sprintf("%s#%d", full, n+1)
	} else {
		r.seen[full] = 1
	}
	r.Obls = append(r.Obls, Obligation{Key: full, Rule: r.rule.ID, Status: st, Pos: r.c.Rel(pos), Msg: fmt.Sprintf(format, args...)})
}

func (r *R) Ok(key string, pos token.Pos, format string, args ...any) {
	r.add(Discharged, key, pos, format, args...)
}
func (r *R) Bad(key string, pos token.Pos, format string, args ...any) {
	r.add(Violated, key, pos, format, args...)
}
func (r *R) Undecided(key string, pos token.Pos, format string, args ...any) {
	r.add(Undecided, key, pos, format, args...)
}

// Check is Ok/Bad by condition.
func (r *R) Check(cond bool, key string, pos token.Pos, okMsg, badMsg string) bool {
	if cond {
		r.Ok(key, pos, "%s", okMsg)
	} else {
		r.Bad(key, pos, "%s", badMsg)
	}
	return cond
}

// Fn resolves an anchored function; an unresolved anchor is a failing
// obligation, not a skip.
func (r *R) Fn(spec string) *ssa.Function {
	f := r.c.Func(spec)
	if f == nil || f.Blocks == nil {
		r.Undecided("anchor:"+spec, token.NoPos, "anchored function %s does not resolve (renamed or moved? update the anchor table)", spec)
		return nil
	}
	r.Funcs[spec] = true
	return f
}

// Site counts an analysed call site / construct for evidence.
func (r *R) Site(n int) { r.Sites += n }

// ---------------------------------------------------------------- known findings

type KnownFinding struct {
	Property string `json:"property"`
	Key      string `json:"key"`
	What     string `json:"what"`
	Since    string `json:"since,omitempty"`
	Finding  string `json:"finding,omitempty"`
}

// FixedFinding records a repaired defect. It suppresses nothing: if the
// obligation is violated again it is reported as a VIOLATION.
type FixedFinding struct {
	Property string `json:"property"`
	Key      string `json:"key"`
	Finding  string `json:"finding,omitempty"`
	Commit   string `json:"commit"`
	Record   string `json:"record"`
}

type KnownFile struct {
	Known []KnownFinding `json:"known"`
	Fixed []FixedFinding `json:"fixed"`
	Note  string         `json:"_note,omitempty"`
}

func LoadKnown(path string) (*KnownFile, error) {
	b, err := os.ReadFile(path)
	if err != nil {
		if os.IsNotExist(err) {
			return &KnownFile{}, nil
		}
		return nil, err
	}
	var k KnownFile
	if err := json.Unmarshal(b, &k); err != nil {
		return nil, fmt.Errorf("%s: %w", path, err)
	}
	return &k, nil
}

// ---------------------------------------------------------------- running

type RuleResult struct {
	Rule        *Rule
	Obls        []Obligation
	Funcs       []string
	Sites       int
	FloorFailed bool
	Panic       string
}

type PropResult struct {
	Prop        string
	Rules       []RuleResult
	Obligations int
	Discharged  int
	Known       int
	Violations  []Obligation // unlisted violations + undecided + floor failures
	KnownHits   []Obligation
	WallS       float64
}

func RunRule(c *Ctx, rule *Rule) (res RuleResult) {
	r := &R{c: c, rule: rule, seen: map[string]int{}, Funcs: map[string]bool{}}
	res.Rule = rule
	defer func() {
		if p := recover(); p != nil {
			res.Panic = fmt.Sprint(p)
			res.Obls = append(r.Obls, Obligation{Key: rule.ID + ":panic", Rule: rule.ID, Status: Undecided, Pos: "-", Msg: "checker panic: " + res.Panic})
		}
	}()
	rule.Run(c, r)
	res.Obls = r.Obls
	for f := range r.Funcs {
		res.Funcs = append(res.Funcs, f)
	}
	sort.Strings(res.Funcs)
	res.Sites = r.Sites
	if len(r.Obls) < rule.Floor {
		res.FloorFailed = true
		res.Obls = append(res.Obls, Obligation{Key: rule.ID + ":floor", Rule: rule.ID, Status: Undecided, Pos: "-",
			Msg: fmt.Sprintf("rule produced %d obligations, below the frozen floor %d confirmed by hand (anchors matched fewer instances than exist on the reference tree)", len(r.Obls), rule.Floor)})
	}
	return res
}

// Evidence is the JSON written to /verif/evidence/<id>.json.
type Evidence struct {
	PropertyID  string         `json:"property_id"`
	Tier        string         `json:"tier"`
	Seed        int            `json:"seed"`
	Level       string         `json:"level"`
	Coverage    map[string]any `json:"coverage"`
	Assumptions []string       `json:"assumptions"`
	WallS       float64        `json:"wall_s"`
	Violations  int            `json:"violations"`
}

func WriteJSON(path string, v any) error {
	if err := os.MkdirAll(filepath.Dir(path), 0o755); err != nil {
		return err
	}
	b, err := json.MarshalIndent(v, "", " ")
	if err != nil {
		return err
	}
	tmp := path + ".tmp"
	if err := os.WriteFile(tmp, append(b, '\n'), 0o644); err != nil {
		return err
	}
	return os.Rename(tmp, path)
}

// Summarise folds rule results and the known-findings file into a PropResult.
func Summarise(prop string, rrs []RuleResult, known *KnownFile) *PropResult {
	pr := &PropResult{Prop: prop, Rules: rrs}
	kn := map[string]bool{}
	// keys start with the rule id and are unique across properties; a rule that is
	// evaluated under several properties (rules.Includes) reports its listed finding under each
	for _, k := range known.Known {
		kn[k.Key] = true
	}
	for i := range rrs {
		for j := range rrs[i].Obls {
			o := &rrs[i].Obls[j]
			pr.Obligations++
			switch o.Status {
			case Discharged:
				pr.Discharged++
			case Violated:
				if kn[o.Key] {
					o.Known = true
					pr.Known++
					pr.KnownHits = append(pr.KnownHits, *o)
				} else {
					pr.Violations = append(pr.Violations, *o)
				}
			default:
				pr.Violations = append(pr.Violations, *o)
			}
		}
	}
	return pr
}

func short(s string, n int) string {
	s = strings.ReplaceAll(s, "\n", " ")
	if len(s) > n {
		return s[:n] + "…"
	}
	return s
}

// Scratch returns a throw-away collector (used when one rule needs another
// rule's anchor lookup without recording its obligations).
func Scratch(c *Ctx) *R {
	return &R{c: c, rule: &Rule{ID: "scratch"}, seen: map[string]int{}, Funcs: map[string]bool{}}
}

// NewScratchR returns a collector that is not attached to a registered rule
// (used to evaluate a primitive once and re-report its outcome).
func NewScratchR(c *Ctx, id string) *R {
	return &R{c: c, rule: &Rule{ID: id}, seen: map[string]int{}, Funcs: map[string]bool{}}
}
