package eng

import (
	"fmt"
	"go/constant"
	"go/token"
	"go/types"
	"sort"
	"strings"

	"golang.org/x/tools/go/ssa"
)

// ---------------------------------------------------------------- calls

// Call is one call site (call, defer or go) inside a module function.
type Call struct {
	Fn     *ssa.Function
	Instr  ssa.CallInstruction
	Callee *types.Func // static callee or interface method; nil for builtins / func values
}

// CalleeOf resolves the callee through type information (never by name).
func CalleeOf(ci ssa.CallInstruction) *types.Func {
	cc := ci.Common()
	if cc.IsInvoke() {
		return cc.Method
	}
	if sc := cc.StaticCallee(); sc != nil {
		if f, ok := sc.Object().(*types.Func); ok {
			return f
		}
		// instantiated generic / wrapper: use origin
		if o := sc.Origin(); o != nil {
			if f, ok := o.Object().(*types.Func); ok {
				return f
			}
		}
	}
	return nil
}

// Name is the callee's go/types full name with the module prefix stripped,
// e.g. "pkg/rsl.GetEntry", "(*pkg/rsl.ReferenceEntry).Commit",
// "(pkg/gitstore.Storer).GetReference", "fmt.Errorf". Builtins are "builtin.len".
func (k Call) Name() string {
	if k.Callee != nil {
		return ObjName(k.Callee)
	}
	if b, ok := k.Instr.Common().Value.(*ssa.Builtin); ok {
		return "builtin." + b.Name()
	}
	return "<dynamic>"
}

// Method is the bare method / function name.
func (k Call) Method() string {
	if k.Callee != nil {
		return k.Callee.Name()
	}
	return ""
}

// RecvTypeName is the receiver's named type ("Storer", "Repository"), or "".
func (k Call) RecvTypeName() string {
	if k.Callee == nil {
		return ""
	}
	sig, _ := k.Callee.Type().(*types.Signature)
	if sig == nil || sig.Recv() == nil {
		return ""
	}
	t := sig.Recv().Type()
	if p, ok := t.(*types.Pointer); ok {
		t = p.Elem()
	}
	if n, ok := t.(*types.Named); ok {
		return n.Obj().Name()
	}
	return ""
}

// IsMethodOf reports whether the call is to method `name` on a receiver whose
// named type is one of recvs (interface or concrete).
func (k Call) IsMethodOf(name string, recvs ...string) bool {
	if k.Callee == nil || k.Callee.Name() != name {
		return false
	}
	rt := k.RecvTypeName()
	for _, r := range recvs {
		if r == rt {
			return true
		}
	}
	return false
}

// Arg returns the i-th source-level argument (receiver excluded).
func (k Call) Arg(i int) ssa.Value {
	cc := k.Instr.Common()
	args := cc.Args
	if !cc.IsInvoke() && k.Callee != nil {
		if sig, _ := k.Callee.Type().(*types.Signature); sig != nil && sig.Recv() != nil {
			if len(args) > 0 {
				args = args[1:]
			}
		}
	}
	if i < 0 || i >= len(args) {
		return nil
	}
	return args[i]
}

// NArgs is the number of source-level arguments.
func (k Call) NArgs() int {
	cc := k.Instr.Common()
	n := len(cc.Args)
	if !cc.IsInvoke() && k.Callee != nil {
		if sig, _ := k.Callee.Type().(*types.Signature); sig != nil && sig.Recv() != nil {
			n--
		}
	}
	return n
}

// Recv returns the receiver value (nil for plain functions).
func (k Call) Recv() ssa.Value {
	cc := k.Instr.Common()
	if cc.IsInvoke() {
		return cc.Value
	}
	if k.Callee != nil {
		if sig, _ := k.Callee.Type().(*types.Signature); sig != nil && sig.Recv() != nil && len(cc.Args) > 0 {
			return cc.Args[0]
		}
	}
	return nil
}

// Value is the call's SSA value (nil for defer/go).
func (k Call) Value() *ssa.Call {
	v, _ := k.Instr.(*ssa.Call)
	return v
}

func (k Call) Pos() token.Pos {
	if p := k.Instr.Pos(); p.IsValid() {
		return p
	}
	return k.Instr.Common().Pos()
}

func (k Call) Block() *ssa.BasicBlock { return k.Instr.Block() }

// Result returns the SSA value of the i-th result (following the Extract),
// or nil when that result is unused / discarded.
func (k Call) Result(i int) ssa.Value {
	v := k.Value()
	if v == nil {
		return nil
	}
	res := v.Call.Signature().Results()
	if res.Len() == 1 {
		if i == 0 {
			return v
		}
		return nil
	}
	for _, r := range *v.Referrers() {
		if e, ok := r.(*ssa.Extract); ok && e.Index == i {
			return e
		}
	}
	return nil
}

// ErrResult returns the value of the trailing error result, plus whether the
// callee has one at all.
func (k Call) ErrResult() (ssa.Value, bool) {
	res := k.Instr.Common().Signature().Results()
	if res.Len() == 0 || !IsErrorType(res.At(res.Len()-1).Type()) {
		return nil, false
	}
	return k.Result(res.Len() - 1), true
}

func IsErrorType(t types.Type) bool {
	return types.Identical(t, types.Universe.Lookup("error").Type())
}

// Calls lists the call sites in fn; with deep, closures defined inside fn are
// included (their bodies run as part of fn for every rule in this checker).
func Calls(fn *ssa.Function, deep bool) []Call {
	var out []Call
	var walk func(f *ssa.Function)
	walk = func(f *ssa.Function) {
		for _, b := range f.Blocks {
			for _, in := range b.Instrs {
				if ci, ok := in.(ssa.CallInstruction); ok {
					out = append(out, Call{Fn: f, Instr: ci, Callee: CalleeOf(ci)})
				}
			}
		}
		if deep {
			for _, a := range f.AnonFuncs {
				walk(a)
			}
		}
	}
	if fn != nil {
		walk(fn)
	}
	return out
}

// CallsTo filters Calls by predicate on Name().
func CallsTo(fn *ssa.Function, deep bool, names ...string) []Call {
	var out []Call
	for _, k := range Calls(fn, deep) {
		n := k.Name()
		for _, want := range names {
			if n == want {
				out = append(out, k)
				break
			}
		}
	}
	return out
}

// CallsToMethod filters by method name and receiver type names.
func CallsToMethod(fn *ssa.Function, deep bool, method string, recvs ...string) []Call {
	var out []Call
	for _, k := range Calls(fn, deep) {
		if k.IsMethodOf(method, recvs...) {
			out = append(out, k)
		}
	}
	return out
}

// ---------------------------------------------------------------- values

// Strip removes value-preserving wrappers (conversions, interface boxing,
// non-comma-ok type assertions).
func Strip(v ssa.Value) ssa.Value {
	for {
		switch x := v.(type) {
		case *ssa.ChangeType:
			v = x.X
		case *ssa.Convert:
			v = x.X
		case *ssa.MakeInterface:
			v = x.X
		case *ssa.ChangeInterface:
			v = x.X
		case *ssa.TypeAssert:
			if x.CommaOk {
				return v
			}
			v = x.X
		default:
			return v
		}
	}
}

// allocOf resolves an address to the *ssa.Alloc of a local variable it
// denotes, looking through closure free variables.
func allocOf(addr ssa.Value) *ssa.Alloc {
	switch a := addr.(type) {
	case *ssa.Alloc:
		return a
	case *ssa.FreeVar:
		fn := a.Parent()
		par := fn.Parent()
		if par == nil {
			return nil
		}
		idx := -1
		for i, fv := range fn.FreeVars {
			if fv == a {
				idx = i
			}
		}
		if idx < 0 {
			return nil
		}
		var res *ssa.Alloc
		var find func(f *ssa.Function)
		find = func(f *ssa.Function) {
			for _, b := range f.Blocks {
				for _, in := range b.Instrs {
					if mc, ok := in.(*ssa.MakeClosure); ok && mc.Fn == fn && idx < len(mc.Bindings) {
						if r := allocOf(mc.Bindings[idx]); r != nil {
							res = r
						}
					}
				}
			}
			for _, an := range f.AnonFuncs {
				find(an)
			}
		}
		find(par)
		return res
	}
	return nil
}

// storesTo lists every Store whose address is the given local (in the
// allocating function and all its closures).
func storesTo(al *ssa.Alloc) []*ssa.Store {
	var out []*ssa.Store
	root := al.Parent()
	var walk func(f *ssa.Function)
	walk = func(f *ssa.Function) {
		for _, b := range f.Blocks {
			for _, in := range b.Instrs {
				if st, ok := in.(*ssa.Store); ok && allocOf(st.Addr) == al {
					out = append(out, st)
				}
			}
		}
		for _, an := range f.AnonFuncs {
			walk(an)
		}
	}
	walk(root)
	return out
}

// Roots computes the provenance of v: the set of values it may be a copy of,
// looking through phis, conversions, and loads of local variables (flow
// insensitively: every store to the local is a possible source). Roots are
// parameters, constants, call results (Call / Extract), loads of fields,
// globals or elements, allocations, arithmetic, etc.
func Roots(v ssa.Value) []ssa.Value {
	seen := map[ssa.Value]bool{}
	var out []ssa.Value
	var rec func(v ssa.Value)
	rec = func(v ssa.Value) {
		v = Strip(v)
		if v == nil || seen[v] {
			return
		}
		seen[v] = true
		switch x := v.(type) {
		case *ssa.Phi:
			for _, e := range x.Edges {
				rec(e)
			}
			return
		case *ssa.UnOp:
			if x.Op == token.MUL {
				if al := allocOf(x.X); al != nil {
					sts := storesTo(al)
					if len(sts) > 0 {
						for _, st := range sts {
							rec(st.Val)
						}
						return
					}
				}
			}
		case *ssa.Extract:
			if ta, ok := x.Tuple.(*ssa.TypeAssert); ok && x.Index == 0 {
				rec(ta.X)
				return
			}
		}
		out = append(out, v)
	}
	rec(v)
	return out
}

// RootCall returns the call a root value is a result of (and which result).
func RootCall(v ssa.Value) (Call, int, bool) {
	switch x := v.(type) {
	case *ssa.Call:
		return Call{Fn: x.Parent(), Instr: x, Callee: CalleeOf(x)}, 0, true
	case *ssa.Extract:
		if c, ok := x.Tuple.(*ssa.Call); ok {
			return Call{Fn: c.Parent(), Instr: c, Callee: CalleeOf(c)}, x.Index, true
		}
	}
	return Call{}, 0, false
}

// FromCall reports whether every root of v is result idx of a call whose
// Name() is in names; returns the calls.
func FromCall(v ssa.Value, idx int, names ...string) ([]Call, bool) {
	var calls []Call
	roots := Roots(v)
	if len(roots) == 0 {
		return nil, false
	}
	for _, r := range roots {
		k, i, ok := RootCall(r)
		if !ok || i != idx {
			return nil, false
		}
		match := false
		for _, n := range names {
			if k.Name() == n {
				match = true
			}
		}
		if !match {
			return nil, false
		}
		calls = append(calls, k)
	}
	return calls, true
}

// AnyRootFromCall reports whether some root of v is result idx of a call named n.
func AnyRootFromCall(v ssa.Value, idx int, names ...string) bool {
	for _, r := range Roots(v) {
		if k, i, ok := RootCall(r); ok && (idx < 0 || i == idx) {
			for _, n := range names {
				if k.Name() == n {
					return true
				}
			}
		}
	}
	return false
}

// IsParam reports whether v is (only) the named parameter of its function.
func IsParam(v ssa.Value, name string) bool {
	roots := Roots(v)
	if len(roots) == 0 {
		return false
	}
	for _, r := range roots {
		p, ok := r.(*ssa.Parameter)
		if !ok || p.Name() != name {
			return false
		}
	}
	return true
}

// ConstString evaluates v to a compile-time string (constants, and loads of
// package-level `const`-like vars are not followed).
func ConstString(v ssa.Value) (string, bool) {
	v = Strip(v)
	if c, ok := v.(*ssa.Const); ok && c.Value != nil && c.Value.Kind() == constant.String {
		return constant.StringVal(c.Value), true
	}
	return "", false
}

// ConstInt evaluates v to a compile-time integer.
func ConstInt(v ssa.Value) (int64, bool) {
	v = Strip(v)
	if c, ok := v.(*ssa.Const); ok && c.Value != nil && c.Value.Kind() == constant.Int {
		i, ok := constant.Int64Val(c.Value)
		return i, ok
	}
	return 0, false
}

// ConstBool evaluates v to a compile-time bool.
func ConstBool(v ssa.Value) (bool, bool) {
	v = Strip(v)
	if c, ok := v.(*ssa.Const); ok && c.Value != nil && c.Value.Kind() == constant.Bool {
		return constant.BoolVal(c.Value), true
	}
	return false, false
}

// IsNilConst reports whether v is the nil constant.
func IsNilConst(v ssa.Value) bool {
	c, ok := Strip(v).(*ssa.Const)
	return ok && c.Value == nil
}

// GlobalLoad: if v is a load `*G` of a package-level variable, returns it.
func GlobalLoad(v ssa.Value) *ssa.Global {
	if u, ok := Strip(v).(*ssa.UnOp); ok && u.Op == token.MUL {
		if g, ok := u.X.(*ssa.Global); ok {
			return g
		}
	}
	return nil
}

// FieldLoad: if v is a load of a struct field `x.F`, returns the field name and
// the base value.
func FieldLoad(v ssa.Value) (string, ssa.Value, bool) {
	switch x := Strip(v).(type) {
	case *ssa.UnOp:
		if x.Op == token.MUL {
			if fa, ok := x.X.(*ssa.FieldAddr); ok {
				return fieldName(fa.X.Type(), fa.Field), fa.X, true
			}
		}
	case *ssa.Field:
		return fieldName(x.X.Type(), x.Field), x.X, true
	}
	return "", nil, false
}

func fieldName(t types.Type, i int) string {
	if p, ok := t.Underlying().(*types.Pointer); ok {
		t = p.Elem()
	}
	if s, ok := t.Underlying().(*types.Struct); ok && i < s.NumFields() {
		return s.Field(i).Name()
	}
	return "?"
}

// VariadicElems returns the elements stored into the backing array of a
// variadic slice argument built at the call site (`f(a, b, c...)` literal
// form), or nil when the slice is not built locally.
func VariadicElems(v ssa.Value) []ssa.Value {
	sl, ok := Strip(v).(*ssa.Slice)
	if !ok {
		if IsNilConst(v) {
			return []ssa.Value{}
		}
		return nil
	}
	al, ok := sl.X.(*ssa.Alloc)
	if !ok {
		return nil
	}
	type ent struct {
		idx int64
		v   ssa.Value
	}
	var ents []ent
	for _, r := range *al.Referrers() {
		ia, ok := r.(*ssa.IndexAddr)
		if !ok {
			continue
		}
		idx, ok := ConstInt(ia.Index)
		if !ok {
			return nil
		}
		for _, rr := range *ia.Referrers() {
			if st, ok := rr.(*ssa.Store); ok && st.Addr == ia {
				ents = append(ents, ent{idx, st.Val})
			}
		}
	}
	sort.Slice(ents, func(i, j int) bool { return ents[i].idx < ents[j].idx })
	out := make([]ssa.Value, 0, len(ents))
	for _, e := range ents {
		out = append(out, e.v)
	}
	return out
}

// ---------------------------------------------------------------- guards

// Edge is a CFG edge (From.Succs[Idx]).
type Edge struct {
	From *ssa.BasicBlock
	Idx  int
}

func (e Edge) To() *ssa.BasicBlock { return e.From.Succs[e.Idx] }

// Guard is a branch condition known to hold (Pol) at some program point.
type Guard struct {
	Cond ssa.Value // with leading negations removed
	Pol  bool
	If   *ssa.If
	Edge Edge // the CFG edge on which the condition has that truth value
}

// normCond strips `!` and returns the flipped polarity.
func normCond(v ssa.Value, pol bool) (ssa.Value, bool) {
	for {
		u, ok := v.(*ssa.UnOp)
		if !ok || u.Op != token.NOT {
			return v, pol
		}
		v = u.X
		pol = !pol
	}
}

// edgeDominates reports whether every path to b goes through edge e.
func edgeDominates(e Edge, b *ssa.BasicBlock) bool {
	s := e.To()
	if !s.Dominates(b) {
		return false
	}
	if e.From.Succs[0] == e.From.Succs[1] {
		return false
	}
	for _, p := range s.Preds {
		if p == e.From {
			continue
		}
		if !s.Dominates(p) { // another way in that does not come round a loop through s
			return false
		}
	}
	// e.From may reach s by both successors only if they are the same block (excluded above)
	return true
}

// GuardsAt lists the branch conditions that hold on every path to block b.
func GuardsAt(b *ssa.BasicBlock) []Guard {
	var out []Guard
	for d := b.Idom(); d != nil; d = d.Idom() {
		if len(d.Instrs) == 0 {
			continue
		}
		iff, ok := d.Instrs[len(d.Instrs)-1].(*ssa.If)
		if !ok {
			continue
		}
		for idx := 0; idx < 2; idx++ {
			if edgeDominates(Edge{d, idx}, b) {
				c, pol := normCond(iff.Cond, idx == 0)
				out = append(out, Guard{Cond: c, Pol: pol, If: iff, Edge: Edge{d, idx}})
			}
		}
	}
	return out
}

// CondEdges finds every If in fn whose (normalised) condition satisfies pred
// and returns the edge taken when the condition has the given truth value.
func CondEdges(fn *ssa.Function, pred func(cond ssa.Value) bool, truth bool) []Edge {
	var out []Edge
	for _, b := range fn.Blocks {
		if len(b.Instrs) == 0 {
			continue
		}
		iff, ok := b.Instrs[len(b.Instrs)-1].(*ssa.If)
		if !ok {
			continue
		}
		c, pol := normCond(iff.Cond, true)
		if !pred(c) {
			continue
		}
		// cond c == truth  <=> iff.Cond == (truth == pol)
		if truth == pol {
			out = append(out, Edge{b, 0})
		} else {
			out = append(out, Edge{b, 1})
		}
	}
	return out
}

// IsCmp matches `x op y` (or the mirrored form) with operand predicates.
func IsCmp(v ssa.Value, op token.Token, x, y func(ssa.Value) bool) bool {
	b, ok := v.(*ssa.BinOp)
	if !ok {
		return false
	}
	if b.Op == op && x(b.X) && y(b.Y) {
		return true
	}
	if m, ok := mirror[op]; ok && b.Op == m && x(b.Y) && y(b.X) {
		return true
	}
	return false
}

var mirror = map[token.Token]token.Token{
	token.EQL: token.EQL, token.NEQ: token.NEQ,
	token.LSS: token.GTR, token.GTR: token.LSS,
	token.LEQ: token.GEQ, token.GEQ: token.LEQ,
}

// Any matches any value.
func Any(ssa.Value) bool { return true }

// IsCallNamed builds a predicate: value is (a result of) a call with one of the names.
func IsCallNamed(names ...string) func(ssa.Value) bool {
	return func(v ssa.Value) bool {
		return AnyRootFromCall(v, -1, names...)
	}
}

// IsLenOf: v is len(x) where x satisfies p.
func IsLenOf(p func(ssa.Value) bool) func(ssa.Value) bool {
	return func(v ssa.Value) bool {
		c, ok := Strip(v).(*ssa.Call)
		if !ok {
			return false
		}
		b, ok := c.Call.Value.(*ssa.Builtin)
		return ok && b.Name() == "len" && len(c.Call.Args) == 1 && p(c.Call.Args[0])
	}
}

// IsConstInt builds a predicate for an integer constant.
func IsConstInt(n int64) func(ssa.Value) bool {
	return func(v ssa.Value) bool {
		i, ok := ConstInt(v)
		return ok && i == n
	}
}

// ---------------------------------------------------------------- paths

// Cut describes what blocks a path search: instructions that end the path when
// reached, and edges that may not be taken.
type Cut struct {
	Instrs map[ssa.Instruction]bool
	Edges  map[Edge]bool
}

func NewCut() *Cut { return &Cut{Instrs: map[ssa.Instruction]bool{}, Edges: map[Edge]bool{}} }

func (c *Cut) AddEdges(es ...Edge) *Cut {
	for _, e := range es {
		c.Edges[e] = true
	}
	return c
}
func (c *Cut) AddInstrs(is ...ssa.Instruction) *Cut {
	for _, i := range is {
		c.Instrs[i] = true
	}
	return c
}

// Path is a witness: the blocks walked and the target reached.
type Path struct {
	Blocks []*ssa.BasicBlock
	Target ssa.Instruction
}

// FindPath searches for a CFG path from (start block, instruction index) to an
// instruction satisfying isTarget that avoids the cut. It returns nil if every
// path is cut — i.e. the must-pass-through obligation holds.
//
// The search is path-sensitive for boolean flags: it tracks the truth value of
// SSA booleans established by branch outcomes and by constant phi operands
// (`found := false; …; found = true; break; …; if found {…}`), and does not
// follow a branch edge that contradicts a tracked fact. Facts about a value are
// dropped whenever the block defining it is re-entered, so loops stay sound.
func FindPath(start *ssa.BasicBlock, idx int, isTarget func(ssa.Instruction) bool, cut *Cut) *Path {
	type item struct {
		b     *ssa.BasicBlock
		i     int
		prev  *item
		facts factMap
	}
	key := func(b *ssa.BasicBlock, f factMap) string {
		if len(f) == 0 {
			return fmt.Sprint(b.Index)
		}
		ks := make([]string, 0, len(f))
		for v, t := range f {
			ks = append(ks, v.Name()+"="+t.ExactString())
		}
		sort.Strings(ks)
		return fmt.Sprint(b.Index, ks)
	}
	visited := map[string]bool{}
	queue := []*item{{start, idx, nil, factMap{}}}
	mk := func(it *item, tgt ssa.Instruction) *Path {
		var bl []*ssa.BasicBlock
		for x := it; x != nil; x = x.prev {
			bl = append([]*ssa.BasicBlock{x.b}, bl...)
		}
		return &Path{Blocks: bl, Target: tgt}
	}
	budget := 200000
	for len(queue) > 0 {
		it := queue[0]
		queue = queue[1:]
		if budget--; budget < 0 {
			return mk(it, nil) // give up: report conservatively
		}
		blocked := false
		for i := it.i; i < len(it.b.Instrs); i++ {
			in := it.b.Instrs[i]
			if isTarget(in) {
				return mk(it, in)
			}
			if cut != nil && cut.Instrs[in] {
				blocked = true
				break
			}
		}
		if blocked {
			continue
		}
		var cond ssa.Value
		condPol := true
		if n := len(it.b.Instrs); n > 0 {
			if iff, ok := it.b.Instrs[n-1].(*ssa.If); ok {
				cond, condPol = normCond(iff.Cond, true)
			}
		}
		for si, s := range it.b.Succs {
			if cut != nil && cut.Edges[Edge{it.b, si}] {
				continue
			}
			facts := it.facts
			if cond != nil {
				// edge si==0 means iff.Cond true, i.e. cond == condPol
				val := condPol
				if si == 1 {
					val = !condPol
				}
				if known, ok := it.facts.evalBool(cond); ok {
					if known != val {
						continue // infeasible under tracked facts
					}
				} else {
					facts = it.facts.learn(cond, val)
				}
			}
			// entering s: drop facts on values defined in s, then evaluate phis for this edge
			nf := facts
			copied := false
			ensure := func() {
				if !copied {
					nf = copyFacts(facts)
					copied = true
				}
			}
			predIdx := -1
			for pi, p := range s.Preds {
				if p == it.b {
					predIdx = pi
					if len(it.b.Succs) == 2 && it.b.Succs[0] == it.b.Succs[1] && si == 1 {
						continue
					}
					break
				}
			}
			type pf struct {
				v   ssa.Value
				val constant.Value
			}
			var phiFacts []pf
			for _, in := range s.Instrs {
				v, isVal := in.(ssa.Value)
				if !isVal {
					continue
				}
				if phi, ok := in.(*ssa.Phi); ok && predIdx >= 0 && predIdx < len(phi.Edges) {
					phiFacts = append(phiFacts, pf{phi, facts.constOf(phi.Edges[predIdx])})
					continue
				}
				if _, has := nf[v]; has {
					ensure()
					delete(nf, v)
				}
			}
			for _, f := range phiFacts {
				if f.val != nil {
					ensure()
					nf[f.v] = f.val
				} else if _, has := nf[f.v]; has {
					ensure()
					delete(nf, f.v)
				}
			}
			k := key(s, nf)
			if visited[k] {
				continue
			}
			visited[k] = true
			queue = append(queue, &item{s, 0, it, nf})
		}
	}
	return nil
}

// factMap records SSA values known to equal a constant on the current path.
type factMap map[ssa.Value]constant.Value

func copyFacts(f factMap) factMap {
	n := make(factMap, len(f)+1)
	for k, v := range f {
		n[k] = v
	}
	return n
}

// constOf returns the constant v is known to equal (bool, string or int), or nil.
func (f factMap) constOf(v ssa.Value) constant.Value {
	// nil-ness domain for interfaces and pointers: true = "is nil", false = "is not nil"
	switch x := v.(type) {
	case *ssa.Const:
		if x.Value == nil && nilnessType(x.Type()) {
			return constant.MakeBool(true)
		}
	case *ssa.MakeInterface, *ssa.Alloc:
		return constant.MakeBool(false)
	}
	if c, ok := v.(*ssa.Const); ok {
		if c.Value != nil {
			switch c.Value.Kind() {
			case constant.Bool, constant.String, constant.Int:
				return c.Value
			}
		}
		return nil
	}
	if k, ok := f[v]; ok {
		return k
	}
	return nil
}

// evalBool evaluates a branch condition under the facts.
func (f factMap) evalBool(cond ssa.Value) (bool, bool) {
	if k := f.constOf(cond); k != nil && k.Kind() == constant.Bool {
		return constant.BoolVal(k), true
	}
	if b, ok := cond.(*ssa.BinOp); ok {
		if x, emptyWhenTrue, ok := emptinessTest(b); ok {
			if k, has := f[x]; has && k.Kind() == constant.Bool {
				return constant.BoolVal(k) == emptyWhenTrue, true
			}
		}
		if nilnessType(b.X.Type()) {
			// comparisons of interfaces / pointers are decided only against the nil constant
			_, cx := b.X.(*ssa.Const)
			_, cy := b.Y.(*ssa.Const)
			if !cx && !cy {
				return false, false
			}
		}
		x, y := f.constOf(b.X), f.constOf(b.Y)
		if x != nil && y != nil && x.Kind() == y.Kind() {
			switch b.Op {
			case token.EQL, token.NEQ, token.LSS, token.LEQ, token.GTR, token.GEQ:
				if x.Kind() == constant.Bool && b.Op != token.EQL && b.Op != token.NEQ {
					return false, false
				}
				return constant.Compare(x, b.Op, y), true
			}
		}
	}
	return false, false
}

// learn records what taking a branch edge teaches: the condition's own truth
// value and, for `x == const` (true) / `x != const` (false), the value of x.
func (f factMap) learn(cond ssa.Value, val bool) factMap {
	var n factMap
	if worthTracking(cond) {
		n = copyFacts(f)
		n[cond] = constant.MakeBool(val)
	}
	if b, ok := cond.(*ssa.BinOp); ok {
		if x, emptyWhenTrue, ok := emptinessTest(b); ok {
			if n == nil {
				n = copyFacts(f)
			}
			n[x] = constant.MakeBool(emptyWhenTrue == val)
		}
		if nilnessType(b.X.Type()) && ((b.Op == token.EQL && !val) || (b.Op == token.NEQ && val)) {
			// x != nil holds
			var x ssa.Value
			if c, ok := b.Y.(*ssa.Const); ok && c.Value == nil {
				x = b.X
			} else if c, ok := b.X.(*ssa.Const); ok && c.Value == nil {
				x = b.Y
			}
			if x != nil && isFlagLike(x) {
				if n == nil {
					n = copyFacts(f)
				}
				n[x] = constant.MakeBool(false)
			}
		}
		if (b.Op == token.EQL && val) || (b.Op == token.NEQ && !val) {
			var x ssa.Value
			var k constant.Value
			if k = f.constOf(b.Y); k != nil {
				x = b.X
			} else if k = f.constOf(b.X); k != nil {
				x = b.Y
			}
			if x != nil && isFlagLike(x) {
				if n == nil {
					n = copyFacts(f)
				}
				n[x] = k
			}
		}
	}
	if n == nil {
		return f
	}
	return n
}

// emptinessTest recognises `len(x) == 0`, `len(x) != 0`, `len(x) > 0`,
// `len(x) < 1`, `len(x) >= 1`, `len(x) <= 0` on a slice/map/string x and
// reports whether the test being TRUE means x is empty. The fact "x is empty"
// is stored in the fact map under x itself (as a bool), so it flows through
// phis like any other constant and is dropped when x's block is re-entered.
func emptinessTest(b *ssa.BinOp) (x ssa.Value, emptyWhenTrue bool, ok bool) {
	call, isCall := b.X.(*ssa.Call)
	if !isCall {
		return nil, false, false
	}
	bi, isB := call.Call.Value.(*ssa.Builtin)
	if !isB || bi.Name() != "len" || len(call.Call.Args) != 1 {
		return nil, false, false
	}
	k, isC := b.Y.(*ssa.Const)
	if !isC || k.Value == nil || k.Value.Kind() != constant.Int {
		return nil, false, false
	}
	n, exact := constant.Int64Val(k.Value)
	if !exact {
		return nil, false, false
	}
	x = call.Call.Args[0]
	if _, isBool := x.Type().Underlying().(*types.Basic); isBool && x.Type().Underlying().(*types.Basic).Kind() == types.Bool {
		return nil, false, false
	}
	switch {
	case n == 0 && b.Op == token.EQL, n == 0 && b.Op == token.LEQ, n == 1 && b.Op == token.LSS:
		return x, true, true
	case n == 0 && b.Op == token.NEQ, n == 0 && b.Op == token.GTR, n == 1 && b.Op == token.GEQ:
		return x, false, true
	}
	return nil, false, false
}

func nilnessType(t types.Type) bool {
	switch t.Underlying().(type) {
	case *types.Interface, *types.Pointer:
		return true
	}
	return false
}

// isFlagLike: phis and parameters are the values whose constant-ness is worth
// remembering (loop/branch flags); everything else would only blow up the
// state space.
func isFlagLike(v ssa.Value) bool {
	switch v.(type) {
	case *ssa.Phi, *ssa.Parameter:
		return true
	}
	return false
}

// worthTracking: remember a condition's outcome only if it is a flag, or the
// same SSA value feeds more than one branch (tested again later).
func worthTracking(cond ssa.Value) bool {
	if isFlagLike(cond) {
		return true
	}
	refs := cond.Referrers()
	if refs == nil {
		return false
	}
	n := 0
	for _, r := range *refs {
		switch r.(type) {
		case *ssa.If, *ssa.Phi, *ssa.UnOp:
			n++
		}
	}
	return n > 1
}

// isBoolTrackable: conditions whose outcome is remembered (recomputed values
// are invalidated when their defining block is re-entered).
func isBoolTrackable(v ssa.Value) bool {
	switch v.(type) {
	case *ssa.Phi, *ssa.Parameter, *ssa.Extract, *ssa.Call, *ssa.BinOp, *ssa.UnOp, *ssa.Lookup, *ssa.TypeAssert:
		return true
	}
	return false
}

// FindPathFromEntry is FindPath from the function entry.
func FindPathFromEntry(fn *ssa.Function, isTarget func(ssa.Instruction) bool, cut *Cut) *Path {
	if len(fn.Blocks) == 0 {
		return nil
	}
	return FindPath(fn.Blocks[0], 0, isTarget, cut)
}

// After returns the start point just after an instruction.
func After(in ssa.Instruction) (*ssa.BasicBlock, int) {
	b := in.Block()
	for i, x := range b.Instrs {
		if x == in {
			return b, i + 1
		}
	}
	return b, len(b.Instrs)
}

// DescribePath renders a path as source lines for diagnostics.
func (c *Ctx) DescribePath(p *Path) string {
	if p == nil {
		return ""
	}
	var parts []string
	last := ""
	for _, b := range p.Blocks {
		for _, in := range b.Instrs {
			if in.Pos().IsValid() {
				s := c.Rel(in.Pos())
				if s != last {
					parts = append(parts, s[strings.LastIndex(s, ":")+1:])
					last = s
				}
				break
			}
		}
	}
	tgt := "-"
	if p.Target != nil {
		tgt = c.Rel(InstrPos(p.Target))
	}
	if len(parts) > 12 {
		parts = append(parts[:6], append([]string{"…"}, parts[len(parts)-5:]...)...)
	}
	return "lines " + strings.Join(parts, "→") + " ⇒ " + tgt
}

// InstrPos finds a usable position for an instruction (many SSA instructions
// carry none; fall back to neighbours in the block).
func InstrPos(in ssa.Instruction) token.Pos {
	if in == nil {
		return token.NoPos
	}
	if p := in.Pos(); p.IsValid() {
		return p
	}
	if r, ok := in.(*ssa.Return); ok {
		for _, v := range r.Results {
			if vi, ok := v.(ssa.Instruction); ok && vi.Pos().IsValid() {
				return vi.Pos()
			}
		}
	}
	b := in.Block()
	if b == nil {
		return token.NoPos
	}
	idx := -1
	for i, x := range b.Instrs {
		if x == in {
			idx = i
		}
	}
	for i := idx - 1; i >= 0; i-- {
		if p := b.Instrs[i].Pos(); p.IsValid() {
			return p
		}
	}
	for i := idx + 1; i < len(b.Instrs); i++ {
		if p := b.Instrs[i].Pos(); p.IsValid() {
			return p
		}
	}
	return b.Parent().Pos()
}

// ---------------------------------------------------------------- errors

// ErrKind classifies the error operand of a return.
type ErrKind int

const (
	ErrNil ErrKind = iota
	ErrNonNil
	ErrMaybe
)

// Returns lists the Return instructions of fn.
func Returns(fn *ssa.Function) []*ssa.Return {
	var out []*ssa.Return
	for _, b := range fn.Blocks {
		if len(b.Instrs) == 0 || b == fn.Recover {
			continue // the synthetic recover block is not part of normal control flow
		}
		if r, ok := b.Instrs[len(b.Instrs)-1].(*ssa.Return); ok {
			out = append(out, r)
		}
	}
	return out
}

// RetErr returns the error operand of a return, resolving the spill that
// go/ssa introduces for functions with defers (`*t0 = err; rundefers; return *t0`).
func RetErr(r *ssa.Return) ssa.Value {
	if len(r.Results) == 0 {
		return nil
	}
	v := r.Results[len(r.Results)-1]
	if !IsErrorType(v.Type()) {
		return nil
	}
	return resolveSpill(v, r)
}

// RetVal returns result i of a return with the same spill resolution.
func RetVal(r *ssa.Return, i int) ssa.Value {
	if i >= len(r.Results) {
		return nil
	}
	return resolveSpill(r.Results[i], r)
}

func resolveSpill(v ssa.Value, r *ssa.Return) ssa.Value {
	u, ok := v.(*ssa.UnOp)
	if !ok || u.Op != token.MUL {
		return v
	}
	al, ok := u.X.(*ssa.Alloc)
	if !ok {
		return v
	}
	// last store to the cell in the returning block before the load
	b := r.Block()
	var last ssa.Value
	for _, in := range b.Instrs {
		if in == ssa.Instruction(u) {
			break
		}
		if st, ok := in.(*ssa.Store); ok && st.Addr == ssa.Value(al) {
			last = st.Val
		}
	}
	if last != nil {
		return last
	}
	return v
}

// ClassifyErr decides whether an error value at a return is certainly nil,
// certainly non-nil, or unknown.
func ClassifyErr(v ssa.Value, at *ssa.BasicBlock) ErrKind {
	if v == nil {
		return ErrNil
	}
	guards := GuardsAt(at)
	// the value itself is tested `!= nil` on every path to this point
	for _, g := range guards {
		if b, ok := g.Cond.(*ssa.BinOp); ok {
			if (Strip(b.X) == Strip(v) && IsNilConst(b.Y)) || (Strip(b.Y) == Strip(v) && IsNilConst(b.X)) {
				if (b.Op == token.NEQ && g.Pol) || (b.Op == token.EQL && !g.Pol) {
					return ErrNonNil
				}
				if (b.Op == token.EQL && g.Pol) || (b.Op == token.NEQ && !g.Pol) {
					return ErrNil
				}
			}
		}
	}
	roots := Roots(v)
	if len(roots) == 0 {
		return ErrMaybe
	}
	allNil, allNon := true, true
	for _, r := range roots {
		switch {
		case IsNilConst(r):
			allNon = false
		case isCertainlyNonNil(r, guards):
			allNil = false
		default:
			allNil, allNon = false, false
		}
	}
	switch {
	case allNil:
		return ErrNil
	case allNon:
		return ErrNonNil
	}
	return ErrMaybe
}

var errCtorNames = map[string]bool{
	"errors.New": true, "fmt.Errorf": true, "errors.Join": true,
}

func isCertainlyNonNil(r ssa.Value, guards []Guard) bool {
	if g := GlobalLoad(r); g != nil {
		return true // package-level sentinel
	}
	if k, _, ok := RootCall(r); ok {
		if errCtorNames[k.Name()] || k.Method() == "ResetDueToError" {
			return true
		}
	}
	if _, ok := r.(*ssa.Alloc); ok {
		return true
	}
	if u, ok := r.(*ssa.UnOp); ok && u.Op == token.MUL {
		// address-of composite literal boxed as error, e.g. &MyErr{}
		_ = u
	}
	if mi, ok := r.(*ssa.MakeInterface); ok {
		_ = mi
		return true
	}
	for _, g := range guards {
		if b, ok := g.Cond.(*ssa.BinOp); ok {
			sameL := sameValue(b.X, r) && IsNilConst(b.Y)
			sameR := sameValue(b.Y, r) && IsNilConst(b.X)
			if sameL || sameR {
				if (b.Op == token.NEQ && g.Pol) || (b.Op == token.EQL && !g.Pol) {
					return true
				}
			}
		}
	}
	return false
}

func sameValue(a, b ssa.Value) bool {
	if a == b {
		return true
	}
	ra, rb := Roots(a), Roots(b)
	return len(ra) == 1 && len(rb) == 1 && ra[0] == rb[0]
}

// SuccessReturns lists returns whose error operand may be nil (or functions
// without an error result: all returns).
func SuccessReturns(fn *ssa.Function) []*ssa.Return {
	var out []*ssa.Return
	for _, r := range Returns(fn) {
		if ClassifyErr(RetErr(r), r.Block()) != ErrNonNil {
			out = append(out, r)
		}
	}
	return out
}

// NilReturns lists returns whose error operand is certainly nil.
func NilReturns(fn *ssa.Function) []*ssa.Return {
	var out []*ssa.Return
	for _, r := range Returns(fn) {
		if ClassifyErr(RetErr(r), r.Block()) == ErrNil {
			out = append(out, r)
		}
	}
	return out
}

// Sentinels collects the package-level error variables an error value may
// wrap: direct loads, and arguments of fmt.Errorf / errors.Join /
// ResetDueToError, through phis and locals.
func Sentinels(v ssa.Value) map[string]bool {
	out := map[string]bool{}
	seen := map[ssa.Value]bool{}
	var rec func(v ssa.Value)
	rec = func(v ssa.Value) {
		for _, r := range Roots(v) {
			if seen[r] {
				continue
			}
			seen[r] = true
			if g := GlobalLoad(r); g != nil {
				out[g.Name()] = true
				continue
			}
			if k, _, ok := RootCall(r); ok {
				n := k.Name()
				if n == "fmt.Errorf" || n == "errors.Join" || k.Method() == "ResetDueToError" {
					for _, a := range k.Instr.Common().Args {
						if IsErrorType(a.Type()) {
							rec(a)
						}
						if els := VariadicElems(a); els != nil {
							for _, e := range els {
								rec(e)
							}
						}
					}
				}
			}
		}
	}
	if v != nil {
		rec(v)
	}
	return out
}

// ErrUse describes what happens to an error value.
type ErrUse struct {
	NilEdges    []Edge // edges on which the error is known to be nil
	NonNilEdges []Edge
	Returned    []*ssa.Return // returned (propagated) directly
	PassedTo    []Call        // handed to another function (errors.Is, wrap, …)
	Stored      bool          // stored to a variable / field (flows on)
	Dropped     bool          // no use at all
}

// UsesOfErr inspects how an error value is used. It follows the value through
// phis and through stores to locals followed by loads.
func UsesOfErr(v ssa.Value) ErrUse {
	var u ErrUse
	if v == nil {
		u.Dropped = true
		return u
	}
	seen := map[ssa.Value]bool{}
	var rec func(v ssa.Value)
	rec = func(v ssa.Value) {
		if seen[v] {
			return
		}
		seen[v] = true
		refs := v.Referrers()
		if refs == nil {
			return
		}
		for _, r := range *refs {
			switch x := r.(type) {
			case *ssa.BinOp:
				var other ssa.Value
				if x.X == v {
					other = x.Y
				} else {
					other = x.X
				}
				if !IsNilConst(other) || (x.Op != token.EQL && x.Op != token.NEQ) {
					continue
				}
				collectCondEdges(x, x.Op == token.EQL, &u)
			case *ssa.Return:
				u.Returned = append(u.Returned, x)
			case *ssa.Phi:
				rec(x)
			case *ssa.Store:
				if x.Val == v {
					if al := allocOf(x.Addr); al != nil {
						// follow loads of the local
						followLoads(al, rec)
						// a store into a result cell followed by return in the same block
						u.Stored = true
					} else {
						u.Stored = true
					}
				}
			case ssa.CallInstruction:
				u.PassedTo = append(u.PassedTo, Call{Fn: x.Parent(), Instr: x, Callee: CalleeOf(x)})
			case *ssa.MakeInterface, *ssa.ChangeInterface, *ssa.ChangeType:
				rec(x.(ssa.Value))
			case *ssa.TypeAssert:
				u.PassedTo = append(u.PassedTo, Call{})
			case *ssa.MakeClosure:
				u.Stored = true
			case *ssa.DebugRef:
			default:
				u.Stored = true
			}
		}
	}
	rec(v)
	if len(u.NilEdges) == 0 && len(u.NonNilEdges) == 0 && len(u.Returned) == 0 && len(u.PassedTo) == 0 && !u.Stored {
		u.Dropped = true
	}
	return u
}

func followLoads(al *ssa.Alloc, rec func(ssa.Value)) {
	root := al.Parent()
	var walk func(f *ssa.Function)
	walk = func(f *ssa.Function) {
		for _, b := range f.Blocks {
			for _, in := range b.Instrs {
				if ld, ok := in.(*ssa.UnOp); ok && ld.Op == token.MUL && allocOf(ld.X) == al {
					rec(ld)
				}
			}
		}
		for _, an := range f.AnonFuncs {
			walk(an)
		}
	}
	walk(root)
}

// collectCondEdges: cond is a boolean value meaning "err is nil" when
// nilWhenTrue (else "err is non-nil" when true). It follows the boolean into
// If instructions, through negation and through short-circuit phis.
func collectCondEdges(cond ssa.Value, nilWhenTrue bool, u *ErrUse) {
	refs := cond.Referrers()
	if refs == nil {
		return
	}
	for _, r := range *refs {
		switch x := r.(type) {
		case *ssa.If:
			te, fe := Edge{x.Block(), 0}, Edge{x.Block(), 1}
			if nilWhenTrue {
				u.NilEdges = append(u.NilEdges, te)
				u.NonNilEdges = append(u.NonNilEdges, fe)
			} else {
				u.NonNilEdges = append(u.NonNilEdges, te)
				u.NilEdges = append(u.NilEdges, fe)
			}
		case *ssa.UnOp:
			if x.Op == token.NOT {
				collectCondEdges(x, !nilWhenTrue, u)
			}
		}
	}
}

// Checked reports whether the call's error result is examined at all: compared
// with nil, returned, or handed to another function / stored for later.
func (k Call) ErrChecked() bool {
	ev, has := k.ErrResult()
	if !has {
		return true
	}
	if ev == nil {
		return false
	}
	u := UsesOfErr(ev)
	return !u.Dropped
}

// OKPoints returns the cut that represents "call k happened and succeeded":
// the nil-edges of the checks on its error, or — for a callee without an error
// result, or an error that is propagated by returning it — the call itself.
// Used as the `via` set of must-pass-through searches. ok is false when the
// error is dropped.
func (k Call) OKPoints(cut *Cut) (ok bool) {
	ev, has := k.ErrResult()
	if !has {
		cut.AddInstrs(k.Instr)
		return true
	}
	if ev == nil {
		return false
	}
	u := UsesOfErr(ev)
	if u.Dropped {
		return false
	}
	if len(u.NilEdges) > 0 {
		cut.AddEdges(u.NilEdges...)
		return true
	}
	// propagated (returned directly, wrapped, or stored): the call itself counts
	cut.AddInstrs(k.Instr)
	return true
}

// EdgeDominates reports whether every path from the entry to b takes edge e.
func EdgeDominates(e Edge, b *ssa.BasicBlock) bool { return edgeDominates(e, b) }

// StoresToAlloc lists the stores into a local variable (incl. from closures).
func StoresToAlloc(al *ssa.Alloc) []*ssa.Store { return storesTo(al) }

// Assign is one place where a variable-like value (a phi web or a spilled
// local) receives a value: Val flows in at the end of block At.
type Assign struct {
	Val ssa.Value
	At  *ssa.BasicBlock
}

// Assignments lists where the variable that v is a read of gets its values:
// for a phi web, every non-phi incoming value with the predecessor block it
// arrives from; for a load of a local, every store. A value that is neither
// is its own single assignment (in its defining block).
func Assignments(v ssa.Value) []Assign {
	var out []Assign
	seen := map[ssa.Value]bool{}
	var rec func(v ssa.Value, at *ssa.BasicBlock)
	rec = func(v ssa.Value, at *ssa.BasicBlock) {
		s := Strip(v)
		switch x := s.(type) {
		case *ssa.Phi:
			if seen[x] {
				return
			}
			seen[x] = true
			for i, e := range x.Edges {
				rec(e, x.Block().Preds[i])
			}
			return
		case *ssa.UnOp:
			if x.Op == token.MUL {
				if al := allocOf(x.X); al != nil {
					if seen[al] {
						return
					}
					seen[al] = true
					sts := storesTo(al)
					if len(sts) > 0 {
						for _, st := range sts {
							rec(st.Val, st.Block())
						}
						return
					}
				}
			}
		}
		out = append(out, Assign{Val: s, At: at})
	}
	var at *ssa.BasicBlock
	if in, ok := v.(ssa.Instruction); ok {
		at = in.Block()
	}
	rec(v, at)
	return out
}

// WalkOperands visits v and the values it is computed from (operands,
// through phis and local loads), to the given depth.
func WalkOperands(v ssa.Value, depth int, f func(ssa.Value)) {
	seen := map[ssa.Value]bool{}
	var rec func(v ssa.Value, d int)
	rec = func(v ssa.Value, d int) {
		if v == nil || seen[v] || d < 0 {
			return
		}
		seen[v] = true
		f(v)
		for _, r := range Roots(v) {
			if r != v {
				rec(r, d-1)
			}
		}
		if in, ok := v.(ssa.Instruction); ok {
			for _, op := range in.Operands(nil) {
				if *op != nil {
					rec(*op, d-1)
				}
			}
		}
	}
	rec(v, depth)
}

// ---------------------------------------------------------------- loops

// NaturalLoop returns the blocks of the natural loop whose header is head
// (head plus every block that reaches a back edge into head without passing
// through head). nil if head has no back edge.
func NaturalLoop(head *ssa.BasicBlock) map[*ssa.BasicBlock]bool {
	loop := map[*ssa.BasicBlock]bool{}
	var stack []*ssa.BasicBlock
	for _, p := range head.Preds {
		if head.Dominates(p) {
			if !loop[p] && p != head {
				loop[p] = true
				stack = append(stack, p)
			}
			loop[head] = true
		}
	}
	if !loop[head] {
		return nil
	}
	for len(stack) > 0 {
		b := stack[len(stack)-1]
		stack = stack[:len(stack)-1]
		for _, p := range b.Preds {
			if !loop[p] {
				loop[p] = true
				stack = append(stack, p)
			}
		}
	}
	return loop
}

// LoopExits lists the CFG edges that leave the natural loop of head.
func LoopExits(head *ssa.BasicBlock) []Edge {
	loop := NaturalLoop(head)
	var out []Edge
	for b := range loop {
		for i, s := range b.Succs {
			if !loop[s] {
				out = append(out, Edge{b, i})
			}
		}
	}
	sort.Slice(out, func(i, j int) bool {
		if out[i].From.Index != out[j].From.Index {
			return out[i].From.Index < out[j].From.Index
		}
		return out[i].Idx < out[j].Idx
	})
	return out
}

// LoopsOver returns the header blocks of loops that iterate over a value
// matching p: ascending index loops (`i < len(x)`), descending index loops
// (`i >= 0` with i starting at `len(x) - 1`) and map/string ranges.
func LoopsOver(fn *ssa.Function, p func(ssa.Value) bool) []*ssa.BasicBlock {
	var out []*ssa.BasicBlock
	lenOf := func(v ssa.Value) ssa.Value {
		if call, ok := v.(*ssa.Call); ok {
			if bi, ok := call.Call.Value.(*ssa.Builtin); ok && bi.Name() == "len" && len(call.Call.Args) == 1 {
				return call.Call.Args[0]
			}
		}
		return nil
	}
	for _, b := range fn.Blocks {
		if len(b.Instrs) == 0 || NaturalLoop(b) == nil {
			continue
		}
		iff, ok := b.Instrs[len(b.Instrs)-1].(*ssa.If)
		if !ok {
			continue
		}
		match := false
		switch c := iff.Cond.(type) {
		case *ssa.BinOp:
			if c.Op == token.LSS {
				if x := lenOf(c.Y); x != nil && p(x) {
					match = true
				}
			}
			if c.Op == token.GEQ || c.Op == token.GTR {
				if phi, ok := c.X.(*ssa.Phi); ok {
					for _, e := range phi.Edges {
						if bo, ok := e.(*ssa.BinOp); ok && bo.Op == token.SUB {
							if x := lenOf(bo.X); x != nil && p(x) {
								match = true
							}
						}
					}
				}
			}
		case *ssa.Extract:
			if nx, ok := c.Tuple.(*ssa.Next); ok && c.Index == 0 {
				if rg, ok := nx.Iter.(*ssa.Range); ok && p(rg.X) {
					match = true
				}
			}
		}
		if match {
			out = append(out, b)
		}
	}
	return out
}
