// Package eng is the analysis engine shared by all gtcheck rules: it loads
// /repo's current working tree with go/packages, builds go/ssa for the module
// packages (and for the dependency packages rules ask for), and offers the
// primitives described in DESIGN.md §2 (P1..P9) over the resolved program.
package eng

import (
	"fmt"
	"go/ast"
	"go/token"
	"go/types"
	"os"
	"path/filepath"
	"sort"
	"strings"
	"time"

	"golang.org/x/tools/go/packages"
	"golang.org/x/tools/go/ssa"
	"golang.org/x/tools/go/ssa/ssautil"
)

const Module = "github.com/gittuf/gittuf"

// BodyDeps lists dependency packages whose function bodies rules inspect.
var BodyDeps = map[string]bool{
	"github.com/yuin/gopher-lua": true,
}

// Ctx is the loaded program.
type Ctx struct {
	RepoDir string
	Fset    *token.FileSet
	Pkgs    []*packages.Package          // module packages
	All     map[string]*packages.Package // every package reachable, by path
	Prog    *ssa.Program
	SSA     map[string]*ssa.Package
	Tier    string
	GOOS    string
	LoadS   float64

	cg        *CallGraph
	funcCache map[string]*ssa.Function
	NumFuncs  int
}

// Load type-checks the whole module (non-test files) from source, together
// with all dependencies, and builds SSA with bodies for everything.
func Load(repoDir, goos string, overlay map[string][]byte) (*Ctx, error) {
	t0 := time.Now()
	env := os.Environ()
	if goos != "" {
		env = append(env, "GOOS="+goos, "CGO_ENABLED=0")
	}
	// Everything (module packages and all dependencies) is parsed and
	// type-checked from source: no export data, hence no compilation and no
	// dependence on the state of the Go build cache — the cost is the same
	// (~9 s) on a cold sandbox, on a scratch copy and after an edit to a
	// low-level package. GTCHECK_EXPORTDATA=1 selects the export-data path
	// (2 s when the build cache is warm, minutes when it is not).
	mode := packages.LoadAllSyntax | packages.NeedModule
	if os.Getenv("GTCHECK_EXPORTDATA") != "" {
		mode = packages.LoadSyntax | packages.NeedModule
	}
	cfg := &packages.Config{
		Mode:    mode,
		Dir:     repoDir,
		Env:     env,
		Overlay: overlay,
		Tests:   false,
	}
	pkgs, err := packages.Load(cfg, "./...")
	if err != nil {
		return nil, fmt.Errorf("packages.Load: %w", err)
	}
	if len(pkgs) == 0 {
		return nil, fmt.Errorf("no packages loaded from %s", repoDir)
	}
	return finishLoad(repoDir, goos, pkgs, t0)
}

// finishLoad turns type-checked packages into the analysable program.
func finishLoad(repoDir, goos string, pkgs []*packages.Package, t0 time.Time) (*Ctx, error) {
	c := &Ctx{RepoDir: repoDir, All: map[string]*packages.Package{}, SSA: map[string]*ssa.Package{}, funcCache: map[string]*ssa.Function{}, GOOS: goos}
	var errs []string
	packages.Visit(pkgs, nil, func(p *packages.Package) {
		c.All[p.PkgPath] = p
		if strings.HasPrefix(p.PkgPath, Module) {
			for _, e := range p.Errors {
				errs = append(errs, e.Error())
			}
		}
	})
	if len(errs) > 0 {
		sort.Strings(errs)
		if len(errs) > 10 {
			errs = errs[:10]
		}
		return nil, fmt.Errorf("type/load errors in module packages (the tree does not build): %s", strings.Join(errs, "; "))
	}
	for _, p := range pkgs {
		if strings.HasPrefix(p.PkgPath, Module) {
			c.Pkgs = append(c.Pkgs, p)
		}
	}
	sort.Slice(c.Pkgs, func(i, j int) bool { return c.Pkgs[i].PkgPath < c.Pkgs[j].PkgPath })
	if len(c.Pkgs) == 0 {
		return nil, fmt.Errorf("no module packages under %s", Module)
	}
	c.Fset = pkgs[0].Fset
	tLoad := time.Since(t0).Seconds()
	prog, _ := ssautil.AllPackages(pkgs, ssa.InstantiateGenerics)
	c.Prog = prog
	for _, sp := range prog.AllPackages() {
		c.SSA[sp.Pkg.Path()] = sp
	}
	// Bodies are built for the module's own packages and for the few
	// dependency packages whose source some rule inspects; everything else is
	// a typed leaf.
	for _, sp := range prog.AllPackages() {
		pp := sp.Pkg.Path()
		if strings.HasPrefix(pp, Module) || BodyDeps[pp] {
			func() {
				defer func() {
					if r := recover(); r != nil {
						var es []string
						if p := c.All[pp]; p != nil {
							for _, e := range p.Errors {
								es = append(es, e.Error())
							}
							es = append(es, fmt.Sprintf("illTyped=%v goVersion=%v", p.IllTyped, p.Module != nil && p.Module.GoVersion != ""))
						}
						fmt.Fprintf(os.Stderr, "SSA-BUILD-PANIC %s: %v; package errors: %v\n", pp, r, es)
						panic(r)
					}
				}()
				sp.Build()
			}()
		}
	}
	if os.Getenv("GTCHECK_TIMING") != "" {
		fmt.Fprintf(os.Stderr, "timing: packages.Load %.1fs, ssa %.1fs\n", tLoad, time.Since(t0).Seconds()-tLoad)
	}
	for _, p := range c.Pkgs {
		if sp := c.SSA[p.PkgPath]; sp != nil {
			for _, m := range sp.Members {
				if _, ok := m.(*ssa.Function); ok {
					c.NumFuncs++
				}
			}
		}
	}
	c.LoadS = time.Since(t0).Seconds()
	return c, nil
}

// Rel renders a position relative to the repository root.
func (c *Ctx) Rel(pos token.Pos) string {
	if !pos.IsValid() {
		return "-"
	}
	p := c.Fset.Position(pos)
	rel, err := filepath.Rel(c.RepoDir, p.Filename)
	if err != nil || strings.HasPrefix(rel, "..") {
		rel = p.Filename
		if i := strings.Index(rel, "/pkg/mod/"); i >= 0 {
			rel = rel[i+len("/pkg/mod/"):]
		}
	}
	return fmt.Sprintf("%s:%d", rel, p.Line)
}

// Pkg returns the module-relative package, e.g. Pkg("internal/policy").
func (c *Ctx) Pkg(rel string) *packages.Package {
	if rel == "" {
		return c.All[Module]
	}
	if p, ok := c.All[Module+"/"+rel]; ok {
		return p
	}
	return c.All[rel]
}

// Func resolves "internal/policy.(*PolicyVerifier).VerifyRef",
// "pkg/rsl.GetEntry" or "pkg/rsl.ReferenceEntry.GetID" to its SSA function.
// Package paths are module-relative unless they contain a dot in the first
// element (then they are full import paths).
func (c *Ctx) Func(spec string) *ssa.Function {
	if f, ok := c.funcCache[spec]; ok {
		return f
	}
	f := c.lookupFunc(spec)
	c.funcCache[spec] = f
	return f
}

// splitSpec understands the go/types naming style:
//
//	"pkg/rsl.GetEntry", "(*pkg/rsl.ReferenceEntry).Commit",
//	"(pkg/gitstore.Storer).GetReference", and for types/objects "pkg/rsl.Ref".
func splitSpec(spec string) (pkg, recv, name string, ptr bool) {
	if strings.HasPrefix(spec, "(") {
		end := strings.Index(spec, ")")
		inner := spec[1:end]
		name = spec[end+2:]
		if strings.HasPrefix(inner, "*") {
			ptr = true
			inner = inner[1:]
		}
		slash := strings.LastIndex(inner, "/")
		dot := strings.Index(inner[slash+1:], ".")
		pkg = inner[:slash+1+dot]
		recv = inner[slash+1+dot+1:]
		return
	}
	slash := strings.LastIndex(spec, "/")
	dot := strings.Index(spec[slash+1:], ".")
	if dot < 0 {
		return spec, "", "", false
	}
	pkg = spec[:slash+1+dot]
	name = spec[slash+1+dot+1:]
	return
}

func (c *Ctx) pkgPath(p string) string {
	first := p
	if i := strings.Index(p, "/"); i >= 0 {
		first = p[:i]
	}
	if strings.Contains(first, ".") {
		return p
	}
	if p == "" {
		return Module
	}
	return Module + "/" + p
}

func (c *Ctx) lookupFunc(spec string) *ssa.Function {
	pkg, recv, name, ptr := splitSpec(spec)
	sp := c.SSA[c.pkgPath(pkg)]
	if sp == nil {
		return nil
	}
	if recv == "" {
		return sp.Func(name)
	}
	tn, _ := sp.Pkg.Scope().Lookup(recv).(*types.TypeName)
	if tn == nil {
		return nil
	}
	var t types.Type = tn.Type()
	if ptr {
		t = types.NewPointer(t)
	}
	sel := c.Prog.MethodSets.MethodSet(t).Lookup(sp.Pkg, name)
	if sel == nil {
		return nil
	}
	return c.Prog.MethodValue(sel)
}

// Type resolves "pkg/rsl.ReferenceEntry" to its named type.
func (c *Ctx) Type(spec string) *types.Named {
	pkg, _, name, _ := splitSpec(spec)
	p := c.All[c.pkgPath(pkg)]
	if p == nil || p.Types == nil {
		return nil
	}
	tn, _ := p.Types.Scope().Lookup(name).(*types.TypeName)
	if tn == nil {
		return nil
	}
	n, _ := tn.Type().(*types.Named)
	return n
}

// Object resolves a package-level object "pkg/rsl.Ref".
func (c *Ctx) Object(spec string) types.Object {
	pkg, _, name, _ := splitSpec(spec)
	p := c.All[c.pkgPath(pkg)]
	if p == nil || p.Types == nil {
		return nil
	}
	return p.Types.Scope().Lookup(name)
}

// FuncDecl finds the AST declaration of an SSA function together with its package.
func (c *Ctx) FuncDecl(fn *ssa.Function) (*ast.FuncDecl, *packages.Package) {
	if fn == nil || fn.Pkg == nil {
		return nil, nil
	}
	fd, _ := fn.Syntax().(*ast.FuncDecl)
	return fd, c.All[fn.Pkg.Pkg.Path()]
}

// ModuleFuncs calls f for every function (incl. methods and closures) with a
// body defined in a module package (non-test).
func (c *Ctx) ModuleFuncs(f func(fn *ssa.Function)) {
	seen := map[*ssa.Function]bool{}
	var visit func(fn *ssa.Function)
	visit = func(fn *ssa.Function) {
		if fn == nil || seen[fn] || fn.Blocks == nil {
			return
		}
		seen[fn] = true
		f(fn)
		for _, a := range fn.AnonFuncs {
			visit(a)
		}
	}
	for _, p := range c.Pkgs {
		sp := c.SSA[p.PkgPath]
		if sp == nil {
			continue
		}
		names := make([]string, 0, len(sp.Members))
		for n := range sp.Members {
			names = append(names, n)
		}
		sort.Strings(names)
		for _, n := range names {
			switch m := sp.Members[n].(type) {
			case *ssa.Function:
				visit(m)
			case *ssa.Type:
				for _, t := range []types.Type{m.Type(), types.NewPointer(m.Type())} {
					ms := c.Prog.MethodSets.MethodSet(t)
					for i := 0; i < ms.Len(); i++ {
						mf := c.Prog.MethodValue(ms.At(i))
						if mf != nil && mf.Pkg == sp && mf.Synthetic == "" {
							visit(mf)
						}
					}
				}
			}
		}
	}
}

// InModule reports whether fn is defined in a module package.
func InModule(fn *ssa.Function) bool {
	if fn == nil {
		return false
	}
	for fn.Parent() != nil {
		fn = fn.Parent()
	}
	if fn.Pkg == nil {
		if o := fn.Object(); o != nil && o.Pkg() != nil {
			return strings.HasPrefix(o.Pkg().Path(), Module)
		}
		return false
	}
	return strings.HasPrefix(fn.Pkg.Pkg.Path(), Module)
}

// FuncName renders a stable, line-free name: "internal/policy.(*State).Verify".
func FuncName(fn *ssa.Function) string {
	if fn == nil {
		return "<nil>"
	}
	s := fn.String()
	s = strings.ReplaceAll(s, Module+"/", "")
	s = strings.ReplaceAll(s, Module, "")
	return s
}

// ObjName renders a types.Func the same way.
func ObjName(f *types.Func) string {
	if f == nil {
		return "<nil>"
	}
	s := f.FullName()
	s = strings.ReplaceAll(s, Module+"/", "")
	return s
}
