package eng

import (
	"go/types"
	"sort"

	"golang.org/x/tools/go/ssa"
)

// CallGraph is a module-restricted call graph: nodes are module functions with
// bodies; edges are static calls, interface calls resolved by class hierarchy
// over the module's own named types, and closure creation (a closure made in f
// is considered called by f). Calls that leave the module are kept as leaf
// edges so effect rules can name them (os/exec.Command …).
type CallGraph struct {
	Out map[*ssa.Function][]CGEdge
}

type CGEdge struct {
	Site   Call
	Callee *ssa.Function // module function with a body, or nil for external/leaf
	Leaf   string        // Name() of an external callee
}

// implementers of interface methods over module types, cached
type implKey struct {
	iface *types.Interface
	name  string
}

func (c *Ctx) CG() *CallGraph {
	if c.cg != nil {
		return c.cg
	}
	g := &CallGraph{Out: map[*ssa.Function][]CGEdge{}}
	// collect all module named types (pointer and value method sets)
	var named []types.Type
	for _, p := range c.Pkgs {
		sp := c.SSA[p.PkgPath]
		if sp == nil {
			continue
		}
		names := make([]string, 0, len(sp.Members))
		for n := range sp.Members {
			names = append(names, n)
		}
		sort.Strings(names)
		for _, n := range names {
			if t, ok := sp.Members[n].(*ssa.Type); ok {
				if _, isIface := t.Type().Underlying().(*types.Interface); isIface {
					continue
				}
				named = append(named, t.Type(), types.NewPointer(t.Type()))
			}
		}
	}
	cache := map[implKey][]*ssa.Function{}
	resolve := func(iface *types.Interface, m *types.Func) []*ssa.Function {
		k := implKey{iface, m.Name()}
		if r, ok := cache[k]; ok {
			return r
		}
		var out []*ssa.Function
		seen := map[*ssa.Function]bool{}
		for _, t := range named {
			if !types.Implements(t, iface) {
				continue
			}
			sel := c.Prog.MethodSets.MethodSet(t).Lookup(m.Pkg(), m.Name())
			if sel == nil {
				continue
			}
			f := c.Prog.MethodValue(sel)
			// unwrap synthetic wrappers (embedding promotions) to the declared method
			if f != nil && f.Synthetic != "" {
				if obj, ok := sel.Obj().(*types.Func); ok {
					if d := c.Prog.FuncValue(obj); d != nil {
						f = d
					}
				}
			}
			if f != nil && !seen[f] {
				seen[f] = true
				out = append(out, f)
			}
		}
		cache[k] = out
		return out
	}
	c.ModuleFuncs(func(fn *ssa.Function) {
		for _, k := range Calls(fn, false) {
			cc := k.Instr.Common()
			switch {
			case cc.IsInvoke():
				iface, _ := cc.Value.Type().Underlying().(*types.Interface)
				var tgts []*ssa.Function
				if iface != nil {
					tgts = resolve(iface, cc.Method)
				}
				if len(tgts) == 0 {
					g.Out[fn] = append(g.Out[fn], CGEdge{Site: k, Leaf: k.Name()})
				}
				for _, t := range tgts {
					if t.Blocks != nil && InModule(t) {
						g.Out[fn] = append(g.Out[fn], CGEdge{Site: k, Callee: t})
					} else {
						g.Out[fn] = append(g.Out[fn], CGEdge{Site: k, Leaf: k.Name()})
					}
				}
			default:
				if sc := cc.StaticCallee(); sc != nil {
					if sc.Blocks != nil && InModule(sc) {
						g.Out[fn] = append(g.Out[fn], CGEdge{Site: k, Callee: sc})
					} else {
						g.Out[fn] = append(g.Out[fn], CGEdge{Site: k, Leaf: k.Name()})
					}
				} else if _, isB := cc.Value.(*ssa.Builtin); !isB {
					g.Out[fn] = append(g.Out[fn], CGEdge{Site: k, Leaf: "<dynamic>"})
				}
			}
		}
		// closures created here
		for _, b := range fn.Blocks {
			for _, in := range b.Instrs {
				if mc, ok := in.(*ssa.MakeClosure); ok {
					if cf, ok := mc.Fn.(*ssa.Function); ok {
						g.Out[fn] = append(g.Out[fn], CGEdge{Site: Call{Fn: fn}, Callee: cf})
					}
				}
			}
		}
	})
	c.cg = g
	return g
}

// Reach walks the call graph from the entries and calls visit for every edge
// reached, together with the chain of functions from an entry. Traversal does
// not descend into callees for which stop returns true.
func (g *CallGraph) Reach(entries []*ssa.Function, stop func(*ssa.Function) bool, visit func(chain []*ssa.Function, e CGEdge)) {
	type item struct {
		fn    *ssa.Function
		chain []*ssa.Function
	}
	seen := map[*ssa.Function]bool{}
	var queue []item
	for _, e := range entries {
		if e != nil && !seen[e] {
			seen[e] = true
			queue = append(queue, item{e, []*ssa.Function{e}})
		}
	}
	for len(queue) > 0 {
		it := queue[0]
		queue = queue[1:]
		for _, e := range g.Out[it.fn] {
			visit(it.chain, e)
			if e.Callee != nil && !seen[e.Callee] && (stop == nil || !stop(e.Callee)) {
				seen[e.Callee] = true
				ch := append(append([]*ssa.Function(nil), it.chain...), e.Callee)
				queue = append(queue, item{e.Callee, ch})
			}
		}
	}
}

// Reachable returns the set of module functions reachable from the entries.
func (g *CallGraph) Reachable(entries []*ssa.Function, stop func(*ssa.Function) bool) map[*ssa.Function][]*ssa.Function {
	out := map[*ssa.Function][]*ssa.Function{}
	for _, e := range entries {
		if e != nil {
			out[e] = []*ssa.Function{e}
		}
	}
	g.Reach(entries, stop, func(chain []*ssa.Function, e CGEdge) {
		if e.Callee != nil {
			if _, ok := out[e.Callee]; !ok {
				out[e.Callee] = append(append([]*ssa.Function(nil), chain...), e.Callee)
			}
		}
	})
	return out
}

// ChainString renders a call chain.
func ChainString(chain []*ssa.Function) string {
	s := ""
	for i, f := range chain {
		if i > 0 {
			s += " → "
		}
		s += FuncName(f)
	}
	return s
}
