package rules

import (
	"fmt"
	"go/token"
	"sort"
	"strings"

	"golang.org/x/tools/go/ssa"

	"verif/checker/eng"
)

func init() {
	reg(&eng.Rule{ID: "C04.match-table", Prop: "C04", Floor: 3,
		Doc: "The per-entry decision of GetLatestReferenceUpdaterEntry (is this reference-updater entry the answer?) equals, for every truth assignment of its eleven atomic conditions, the definition of the plain scan: accept iff not (Reference set and the entry's reference differs), not (IsReferenceEntry wanted and the entry is not a reference entry), not (the entry is a reference entry, Unskipped wanted and it is SkippedBy the annotations met so far), not (IsPropagationEntryForRepository set and the entry is not a propagation entry for that repository), not (NonGittuf wanted and the reference is under refs/gittuf/). Decided by walking the CFG of the case under each assignment (predicate abstraction; 2048 assignments, the inconsistent ones excluded).",
		Run: c04MatchTable})
}

func typeAssertOK(v ssa.Value, suffix string) bool {
	ex, ok := v.(*ssa.Extract)
	if !ok || ex.Index != 1 {
		return false
	}
	ta, ok := ex.Tuple.(*ssa.TypeAssert)
	return ok && ta.CommaOk && strings.HasSuffix(ta.AssertedType.String(), suffix)
}

// cmpAtomNE classifies `x != y` / `x == y` as atom name (positive for !=).
func cmpAtomNE(v ssa.Value, x, y eng.Pat, name string) (string, bool, bool) {
	if op, ok := eng.CmpAtom(v, x, y); ok {
		switch op {
		case token.NEQ:
			return name, true, true
		case token.EQL:
			return name, false, true
		}
	}
	return "", false, false
}

func c04MatchAtoms(v ssa.Value) (string, bool, bool) {
	fld := func(n string) eng.Pat { return eng.PField(n, nil) }
	if n, p, ok := cmpAtomNE(v, fld("Reference"), eng.PStr(""), "refSet"); ok {
		return n, p, ok
	}
	if n, p, ok := cmpAtomNE(v, eng.PMethod("GetRefName", nil), fld("Reference"), "refDiffers"); ok {
		return n, p, ok
	}
	if n, p, ok := cmpAtomNE(v, fld("IsPropagationEntryForRepository"), eng.PStr(""), "propSet"); ok {
		return n, p, ok
	}
	if n, p, ok := cmpAtomNE(v, fld("UpstreamRepository"), fld("IsPropagationEntryForRepository"), "upstreamDiffers"); ok {
		return n, p, ok
	}
	for name, f := range map[string]string{"wantRefEntry": "IsReferenceEntry", "wantUnskipped": "Unskipped", "wantNonGittuf": "NonGittuf"} {
		if n, _, isF := eng.FieldLoad(v); isF && n == f {
			return name, true, true
		}
	}
	if typeAssertOK(v, "pkg/rsl.ReferenceEntry") {
		return "isRefEntry", true, true
	}
	if typeAssertOK(v, "pkg/rsl.PropagationEntry") {
		return "isProp", true, true
	}
	if k, _, ok := eng.RootCall(v); ok {
		if k.Method() == "SkippedBy" {
			return "skipped", true, true
		}
		if k.Name() == "strings.HasPrefix" && eng.PMethod("GetRefName", nil)(k.Arg(0)) {
			if s, isC := eng.ConstString(k.Arg(1)); isC && s == "refs/gittuf/" {
				return "gittufRef", true, true
			}
		}
	}
	return "", false, false
}

func c04MatchTable(c *Ctx, r *R) {
	fn := r.Fn("pkg/rsl.GetLatestReferenceUpdaterEntry")
	if fn == nil {
		return
	}
	// start: the ReferenceUpdaterEntry case of the main loop's type switch
	var start *ssa.BasicBlock
	for _, b := range fn.Blocks {
		if len(b.Instrs) == 0 {
			continue
		}
		if iff, ok := b.Instrs[len(b.Instrs)-1].(*ssa.If); ok && typeAssertOK(iff.Cond, "pkg/rsl.ReferenceUpdaterEntry") {
			if start != nil {
				r.Undecided("anchor-case", fn.Pos(), "more than one type test for ReferenceUpdaterEntry; re-anchor")
				return
			}
			start = b.Succs[0]
		}
	}
	if start == nil {
		r.Bad("anchor-case", fn.Pos(), "no `case ReferenceUpdaterEntry` in the walk of GetLatestReferenceUpdaterEntry")
		return
	}
	r.Ok("anchor-case", fn.Pos(), "decision block found")
	r.Site(1)
	outcome := func(in ssa.Instruction) string {
		if ci, ok := in.(ssa.CallInstruction); ok {
			k := Call{Instr: ci, Callee: eng.CalleeOf(ci)}
			switch k.Name() {
			case "pkg/rsl.filterAnnotationsForRelevantAnnotations":
				return "accept"
			case "pkg/rsl.GetParentForEntry":
				return "reject"
			}
		}
		return ""
	}
	// the answer slot is empty while the walk is still going (the loop stops as soon as it is set)
	seed := func(v ssa.Value) (int8, bool) {
		if phi, ok := v.(*ssa.Phi); ok && strings.HasSuffix(phi.Type().String(), "pkg/rsl.ReferenceUpdaterEntry") && !start.Dominates(phi.Block()) {
			return 0, true
		}
		return 0, false
	}
	names := []string{"refSet", "refDiffers", "wantRefEntry", "isRefEntry", "wantUnskipped", "skipped", "propSet", "isProp", "upstreamDiffers", "wantNonGittuf", "gittufRef"}
	spec := func(a map[string]bool) bool {
		if a["refSet"] && a["refDiffers"] {
			return false
		}
		if a["wantRefEntry"] && !a["isRefEntry"] {
			return false
		}
		if a["isRefEntry"] && a["wantUnskipped"] && a["skipped"] {
			return false
		}
		if a["propSet"] && (!a["isProp"] || a["upstreamDiffers"]) {
			return false
		}
		if a["wantNonGittuf"] && a["gittufRef"] {
			return false
		}
		return true
	}
	n, bad := 0, 0
	var firstBad []string
	var undec string
	for m := 0; m < 1<<len(names); m++ {
		a := map[string]bool{}
		for i, nm := range names {
			a[nm] = m&(1<<i) != 0
		}
		if a["isRefEntry"] && a["isProp"] {
			continue // an entry has one kind
		}
		n++
		got, err := eng.WalkDecisionSeeded(start, 0, c04MatchAtoms, a, outcome, seed)
		if err != nil {
			undec = err.Error()
			break
		}
		want := "reject"
		if spec(a) {
			want = "accept"
		}
		if got != want {
			bad++
			if len(firstBad) < 3 {
				var on []string
				for _, nm := range names {
					if a[nm] {
						on = append(on, nm)
					}
				}
				sort.Strings(on)
				firstBad = append(firstBad, fmt.Sprintf("{%s}: code %ss, the scan definition %ss", strings.Join(on, ","), got, want))
			}
		}
	}
	if undec != "" {
		r.Undecided("table", fn.Pos(), "the decision block contains a condition the table does not know: %s (a new filter condition? extend the atom table and the specification)", undec)
		return
	}
	if bad > 0 {
		r.Bad("table", fn.Pos(), "the per-entry decision differs from the scan definition on %d of %d assignments, e.g. %s", bad, n, strings.Join(firstBad, "; "))
	} else {
		r.Ok("table", fn.Pos(), "per-entry decision equals the scan definition on all %d consistent assignments of %d atoms", n, len(names))
	}
	// the annotations handed to SkippedBy are the accumulator of the walk (annotations met so far, i.e. recorded after the entry)
	for _, k := range eng.Calls(fn, false) {
		if k.Method() == "SkippedBy" {
			r.Check(strings.HasSuffix(k.Arg(0).Type().String(), "[]*"+eng.Module+"/pkg/rsl.AnnotationEntry") && !eng.IsNilConst(k.Arg(0)), "skip-uses-accumulator", k.Pos(), "SkippedBy is given the annotations accumulated by the walk", "SkippedBy is not given the accumulated annotations")
		}
	}
}

func init() {
	reg(&eng.Rule{ID: "C04.bounds-table", Prop: "C04", Floor: 5,
		Doc: "The option and bound handling of GetLatestReferenceUpdaterEntry equals its definition on every truth assignment of its atomic conditions: (1) contradictory options (both before bounds, both until bounds, before-number below until-number, reference-entry together with propagation-entry filter) and only those → ErrInvalidGetLatestReferenceUpdaterEntryOptions; (2) number bounds on an unnumbered log → ErrCannotUseEntryNumberFilter, latest number below the until bound → ErrInvalidUntilEntryNumberCondition; (3) the pre-walk is entered iff a before bound is set and advances exactly while the entry is neither the before-id nor carries the before-number; (4) inside it, stepping below the until number is an error; (5) in the main walk, stepping below the until number or onto the until id → ErrRSLEntryNotFound, otherwise the walk continues.",
		Run: c04BoundsTable})
}

func c04BoundAtoms(v ssa.Value) (string, bool, bool) {
	fld := func(n string) eng.Pat { return eng.PField(n, nil) }
	ne0 := func(x eng.Pat, name string) (string, bool, bool) {
		if op, ok := eng.CmpAtom(v, x, eng.PInt(0)); ok {
			switch op {
			case token.NEQ, token.GTR:
				return name, true, true
			case token.EQL, token.LEQ:
				return name, false, true
			}
		}
		return "", false, false
	}
	if n, p, ok := ne0(eng.PLen(fld("BeforeEntryID")), "bID"); ok {
		return n, p, ok
	}
	if n, p, ok := ne0(eng.PLen(fld("UntilEntryID")), "uID"); ok {
		return n, p, ok
	}
	if n, p, ok := ne0(fld("BeforeEntryNumber"), "bNum"); ok {
		return n, p, ok
	}
	if n, p, ok := ne0(fld("UntilEntryNumber"), "uNum"); ok {
		return n, p, ok
	}
	if op, ok := eng.CmpAtom(v, fld("BeforeEntryNumber"), fld("UntilEntryNumber")); ok {
		switch op {
		case token.LSS:
			return "bLTu", true, true
		case token.GEQ:
			return "bLTu", false, true
		}
	}
	num := eng.PMethod("GetNumber", nil)
	if op, ok := eng.CmpAtom(v, num, eng.PInt(0)); ok {
		switch op {
		case token.EQL:
			return "num0", true, true
		case token.NEQ, token.GTR:
			return "num0", false, true
		}
	}
	if op, ok := eng.CmpAtom(v, num, fld("UntilEntryNumber")); ok {
		switch op {
		case token.LSS:
			return "numLTu", true, true
		case token.GEQ:
			return "numLTu", false, true
		}
	}
	if n, p, ok := cmpAtomNE(v, num, fld("BeforeEntryNumber"), "numNeBefore"); ok {
		return n, p, ok
	}
	if k, _, ok := eng.RootCall(v); ok && k.Method() == "Equal" {
		if fld("BeforeEntryID")(k.Arg(0)) && eng.PMethod("GetID", nil)(k.Recv()) {
			return "idEqBefore", true, true
		}
		if fld("UntilEntryID")(k.Arg(0)) && eng.PMethod("GetID", nil)(k.Recv()) {
			return "idEqUntil", true, true
		}
	}
	if typeAssertOK(v, "pkg/rsl.AnnotationEntry") {
		return "isAnnotation", true, true
	}
	return c04MatchAtoms(v)
}

func c04BoundsTable(c *Ctx, r *R) {
	fn := r.Fn("pkg/rsl.GetLatestReferenceUpdaterEntry")
	if fn == nil {
		return
	}
	isLenOf := func(field string) func(ssa.Instruction) bool {
		return func(in ssa.Instruction) bool {
			v, ok := in.(ssa.Value)
			return ok && eng.PLen(eng.PField(field, nil))(v)
		}
	}
	var lenB []ssa.Instruction
	for _, b := range fn.Blocks {
		for _, in := range b.Instrs {
			if isLenOf("BeforeEntryID")(in) {
				lenB = append(lenB, in)
			}
		}
	}
	gpe := eng.CallsTo(fn, false, "pkg/rsl.GetParentForEntry")
	sort.Slice(gpe, func(i, j int) bool { return gpe[i].Pos() < gpe[j].Pos() })
	if len(lenB) != 2 || len(gpe) != 3 {
		r.Undecided("anchors", fn.Pos(), "expected two len(options.BeforeEntryID) tests and three GetParentForEntry calls (pre-walk step, step past the anchor, main walk step); found %d and %d — re-anchor the tables", len(lenB), len(gpe))
		return
	}
	r.Site(5)
	invalid := "err:ErrInvalidGetLatestReferenceUpdaterEntryOptions"
	// (1) option sanity
	b1, i1 := lenB[0].Block(), 0
	runTable(c, r, dtable{key: "options", fn: fn, start: b1, idx: i1, what: "contradictory options",
		names: []string{"bID", "bNum", "uID", "uNum", "bLTu", "wantRefEntry", "propSet"}, atoms: c04BoundAtoms,
		outcome: callOutcome(map[string]string{"pkg/rsl.GetLatestEntry": "proceed"}),
		spec: func(a map[string]bool) string {
			if (a["bID"] && a["bNum"]) || (a["uID"] && a["uNum"]) || (a["bNum"] && a["uNum"] && a["bLTu"]) || (a["wantRefEntry"] && a["propSet"]) {
				return invalid
			}
			return "proceed"
		}})
	// (2) number sanity: from the first GetNumber() test to the second len(BeforeEntryID)
	b2, i2 := blockOfFirst(fn, func(in ssa.Instruction) bool {
		v, ok := in.(ssa.Value)
		if !ok {
			return false
		}
		k, _, isC := eng.RootCall(v)
		return isC && k.Method() == "GetNumber"
	})
	stop2 := lenB[1]
	runTable(c, r, dtable{key: "numbering", fn: fn, start: b2, idx: i2, what: "number bounds against the log's numbering",
		names: []string{"num0", "bNum", "uNum", "numLTu"}, atoms: c04BoundAtoms,
		outcome: func(in ssa.Instruction) string {
			if in == stop2 {
				return "proceed"
			}
			return retLabel(in)
		},
		spec: func(a map[string]bool) string {
			if a["num0"] {
				if a["bNum"] || a["uNum"] {
					return "err:ErrCannotUseEntryNumberFilter"
				}
				return "proceed"
			}
			if a["uNum"] && a["numLTu"] {
				return "err:ErrInvalidUntilEntryNumberCondition"
			}
			return "proceed"
		}})
	// (3) pre-walk entry and continuation
	mainCase, _ := blockOfFirst(fn, func(in ssa.Instruction) bool {
		ta, ok := in.(*ssa.TypeAssert)
		return ok && strings.HasSuffix(ta.AssertedType.String(), "pkg/rsl.ReferenceUpdaterEntry")
	})
	var mainTA ssa.Instruction
	if mainCase != nil {
		for _, in := range mainCase.Instrs {
			if ta, ok := in.(*ssa.TypeAssert); ok && strings.HasSuffix(ta.AssertedType.String(), "pkg/rsl.ReferenceUpdaterEntry") {
				mainTA = in
			}
		}
	}
	out3 := func(in ssa.Instruction) string {
		switch in {
		case gpe[0].Instr:
			return "step"
		case gpe[1].Instr:
			return "anchor"
		case mainTA:
			return "main"
		}
		return retLabel(in)
	}
	runTable(c, r, dtable{key: "pre-walk", fn: fn, start: stop2.Block(), idx: indexOf(stop2), what: "pre-walk to the before bound",
		names: []string{"bID", "bNum", "idEqBefore", "num0", "numNeBefore", "isAnnotation"}, atoms: c04BoundAtoms, outcome: out3,
		spec: func(a map[string]bool) string {
			if !a["bID"] && !a["bNum"] {
				return "main"
			}
			if !a["idEqBefore"] && (a["num0"] || a["numNeBefore"]) {
				return "step"
			}
			return "anchor"
		}})
	// (4) inside the pre-walk, after a successful step
	if ev, _ := gpe[0].ErrResult(); ev != nil {
		u := eng.UsesOfErr(ev)
		if len(u.NilEdges) == 1 {
			runTable(c, r, dtable{key: "pre-walk-until", fn: fn, start: u.NilEdges[0].To(), idx: 0, what: "pre-walk: stepping below the until number",
				names: []string{"numLTu", "idEqBefore", "num0", "numNeBefore", "isAnnotation"}, atoms: c04BoundAtoms, outcome: out3,
				spec: func(a map[string]bool) string {
					if a["numLTu"] {
						return invalid
					}
					if !a["idEqBefore"] && (a["num0"] || a["numNeBefore"]) {
						return "step"
					}
					return "anchor"
				}})
		} else {
			r.Undecided("pre-walk-until", gpe[0].Pos(), "cannot locate the success edge of the pre-walk step")
		}
	}
	// (5) main walk, after a successful step
	if ev, _ := gpe[2].ErrResult(); ev != nil {
		u := eng.UsesOfErr(ev)
		if len(u.NilEdges) == 1 {
			runTable(c, r, dtable{key: "main-until", fn: fn, start: u.NilEdges[0].To(), idx: 0, what: "main walk: until bounds",
				names: []string{"uNum", "numLTu", "uID", "idEqUntil"}, atoms: c04BoundAtoms,
				outcome: func(in ssa.Instruction) string {
					if in == mainTA {
						return "continue"
					}
					return retLabel(in)
				},
				spec: func(a map[string]bool) string {
					if (a["uNum"] && a["numLTu"]) || (a["uID"] && a["idEqUntil"]) {
						return "err:ErrRSLEntryNotFound"
					}
					return "continue"
				}})
		} else {
			r.Undecided("main-until", gpe[2].Pos(), "cannot locate the success edge of the main walk step")
		}
	}
}

func indexOf(in ssa.Instruction) int {
	for i, x := range in.Block().Instrs {
		if x == in {
			return i
		}
	}
	return 0
}

func init() {
	reg(&eng.Rule{ID: "C04.range-table", Prop: "C04", Floor: 3,
		Doc: "GetReferenceUpdaterEntriesInRangeForRef includes a reference-updater entry of the range exactly when no reference filter is given, or the entry's reference equals the filter, or the reference is an always-relevant gittuf reference (both sites: inside the range and the entry that is the range's first); an included entry is pushed on the stack and entered in the in-range set; the result is the stack reversed (log order).",
		Run: c04RangeTable})
}

func c04RangeTable(c *Ctx, r *R) {
	fn := r.Fn("pkg/rsl.GetReferenceUpdaterEntriesInRangeForRef")
	if fn == nil {
		return
	}
	atoms := func(v ssa.Value) (string, bool, bool) {
		if op, ok := eng.CmpAtom(v, eng.PLen(eng.PParam("refName")), eng.PInt(0)); ok {
			switch op {
			case token.EQL:
				return "noFilter", true, true
			case token.NEQ, token.GTR:
				return "noFilter", false, true
			}
		}
		if op, ok := eng.CmpAtom(v, eng.PParam("refName"), eng.PStr("")); ok {
			switch op {
			case token.EQL:
				return "noFilter", true, true
			case token.NEQ:
				return "noFilter", false, true
			}
		}
		if op, ok := eng.CmpAtom(v, eng.PMethod("GetRefName", nil), eng.PParam("refName")); ok {
			switch op {
			case token.EQL:
				return "refEq", true, true
			case token.NEQ:
				return "refEq", false, true
			}
		}
		if k, _, ok := eng.RootCall(v); ok && k.Name() == "pkg/rsl.isRelevantGittufRef" && eng.PMethod("GetRefName", nil)(k.Arg(0)) {
			return "gittufRef", true, true
		}
		return "", false, false
	}
	// sites: the true edges of the type tests for ReferenceUpdaterEntry
	n := 0
	for _, b := range fn.Blocks {
		if len(b.Instrs) == 0 {
			continue
		}
		iff, ok := b.Instrs[len(b.Instrs)-1].(*ssa.If)
		if !ok || !typeAssertOK(iff.Cond, "pkg/rsl.ReferenceUpdaterEntry") {
			continue
		}
		n++
		r.Site(1)
		runTable(c, r, dtable{key: "relevance:" + itoa(n), fn: fn, start: b.Succs[0], what: "relevance of a range entry", names: []string{"noFilter", "refEq", "gittufRef"}, atoms: atoms,
			outcome: func(in ssa.Instruction) string {
				if mu, ok := in.(*ssa.MapUpdate); ok && strings.HasSuffix(mu.Map.Type().String(), "map[string]bool") {
					if b, isC := eng.ConstBool(mu.Value); isC && b {
						return "include"
					}
					return "include-false"
				}
				if ci, ok := in.(ssa.CallInstruction); ok {
					k := Call{Instr: ci, Callee: eng.CalleeOf(ci)}
					if k.Name() == "pkg/rsl.GetParentForEntry" {
						return "skip"
					}
				}
				if _, ok := in.(*ssa.MakeMap); ok {
					return "skip"
				}
				return retLabel(in)
			},
			spec: func(a map[string]bool) string {
				if a["noFilter"] || a["refEq"] || a["gittufRef"] {
					return "include"
				}
				return "skip"
			}})
	}
	r.Check(n == 2, "relevance-sites", fn.Pos(), "two relevance decisions (inside the range, first entry of the range)", fmt.Sprintf("expected two relevance decisions, found %d", n))
	// an included entry is pushed on the stack in the same block as it is entered in the set
	okPush := true
	nPush := 0
	for _, b := range fn.Blocks {
		hasSet, hasPush := false, false
		for _, in := range b.Instrs {
			if mu, ok := in.(*ssa.MapUpdate); ok && strings.HasSuffix(mu.Map.Type().String(), "map[string]bool") {
				hasSet = true
			}
			if ci, ok := in.(ssa.CallInstruction); ok {
				k := Call{Instr: ci, Callee: eng.CalleeOf(ci)}
				if k.Name() == "builtin.append" && strings.HasSuffix(k.Instr.Common().Args[0].Type().String(), "[]"+eng.Module+"/pkg/rsl.ReferenceUpdaterEntry") && len(eng.VariadicElems(k.Instr.Common().Args[1])) == 1 {
					if _, isIdx := eng.Strip(eng.VariadicElems(k.Instr.Common().Args[1])[0]).(*ssa.UnOp); !isIdx {
						hasPush = true
					}
				}
			}
		}
		if hasSet {
			nPush++
			okPush = okPush && hasPush
		}
	}
	r.Check(okPush && nPush == 2, "included-is-returned", fn.Pos(), "an entry entered in the in-range set is also pushed on the result stack", "an entry is entered in the in-range set without being pushed on the result stack (or vice versa)")
	// log order: the result is built by a descending index loop over the whole stack
	okRev := false
	for _, h := range eng.LoopsOver(fn, func(v ssa.Value) bool {
		return strings.HasSuffix(v.Type().String(), "[]"+eng.Module+"/pkg/rsl.ReferenceUpdaterEntry")
	}) {
		if descendingFullLoop(h) && scanExhaustive(c, r, "log-order:all", h, nil, "reversal of the result stack") {
			okRev = true
		}
	}
	// the annotations are attached in order of occurrence: the accumulated list (newest first) is read from its last element down to index 0
	okAnn := false
	for _, h := range eng.LoopsOver(fn, func(v ssa.Value) bool {
		return strings.HasSuffix(v.Type().String(), "[]*"+eng.Module+"/pkg/rsl.AnnotationEntry")
	}) {
		if descendingFullLoop(h) {
			okAnn = true
		}
	}
	r.Check(okAnn, "annotations-all-read", fn.Pos(), "every accumulated annotation is read (from len-1 down to 0)", "the loop over the accumulated annotations does not run from len-1 down to index 0: an annotation (e.g. the newest revocation) would be ignored")
	r.Check(okRev, "log-order", fn.Pos(), "the result is the stack read from its last element down to index 0 (log order)", "the result is not built by reading the whole stack from len-1 down to 0: entries would be returned out of log order or some dropped")
}

// descendingFullLoop: `for i := len(x) - 1; i >= 0; i--`.
func descendingFullLoop(h *ssa.BasicBlock) bool {
	iff, ok := h.Instrs[len(h.Instrs)-1].(*ssa.If)
	if !ok {
		return false
	}
	bo, ok := iff.Cond.(*ssa.BinOp)
	if !ok || bo.Op != token.GEQ {
		return false
	}
	if z, isC := eng.ConstInt(bo.Y); !isC || z != 0 {
		return false
	}
	phi, ok := bo.X.(*ssa.Phi)
	if !ok {
		return false
	}
	startOK, stepOK := false, false
	for _, e := range phi.Edges {
		if sb, ok := e.(*ssa.BinOp); ok && sb.Op == token.SUB {
			if one, isC := eng.ConstInt(sb.Y); isC && one == 1 {
				if eng.IsLenOf(eng.Any)(sb.X) {
					startOK = true
				}
				if sb.X == ssa.Value(phi) {
					stepOK = true
				}
			}
		}
	}
	return startOK && stepOK
}
