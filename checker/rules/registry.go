// Package rules holds one file per property; each registers its rules here.
package rules

import (
	"sort"
	"strings"

	"verif/checker/eng"
)

var registry []*eng.Rule

func reg(r *eng.Rule) { registry = append(registry, r) }

// All returns the rules sorted by id.
func All() []*eng.Rule {
	out := append([]*eng.Rule(nil), registry...)
	sort.SliceStable(out, func(i, j int) bool { return out[i].ID < out[j].ID })
	return out
}

// PropMeta is the per-property statement of what is and is not decided.
type PropMeta struct {
	Explanation string
	Decides     []string
	NotDecided  []string
	Assumptions []string
}

var Meta = map[string]PropMeta{}

// Includes lists, per property, rules owned by ANOTHER property that are also
// necessary conditions of this one, because this property's statement relies on
// the mechanism the rule protects (rule-id prefixes). A violation of such a rule
// is reported under every property that includes it. The test for inclusion is
// the same as for any rule: breaking the rule must break THIS property for some
// input. Agreement properties (C19: predictor vs verifier) deliberately do not
// include rules on machinery shared by both sides — a shared flaw keeps them in
// agreement.
var Includes = map[string][]string{
	// the verdict of verification = trusted policy in force (C02) × rules consulted (C06) ×
	// threshold counting (C05) × approvals (C09) × every changed path judged (C10) ×
	// global rules (C11) × recovery gates (C07) × readers that fail closed (C04)
	"C01": {"C02.effective-only", "C04.errors-propagate", "C04.stepper-checks", "C04.stepper-table", "C04.match-table", "C04.bounds-table", "C04.range-table", "C04.annotation-predicates", "C05.", "C06.match-gates", "C06.enter-once", "C06.pre-order", "C06.unprotected", "C06.matches-exact", "C07.", "C09.", "C10.every-path", "C10.gate", "C11."},
	// metadata signatures are counted by SignatureVerifier.Verify
	"C02": {"C05.sanity", "C05.git-once", "C05.dedup", "C05.success-iff", "C05.pae"},
	// single chain: the append is a CAS on the parent the number was derived from
	"C03": {"C17.cas", "C17.single-read"},
	// readers answer through the process-wide cache: only validated links may enter it
	"C04": {"C17.shared-state"},
	// the walk never examines the last rule of a file: sound only if that is the allow rule
	"C06": {"C13.allow-last"},
	// repetition independence: objects handed out by caches are immutable, and only validated links are memoised
	"C08": {"C05.immutable-verifier", "C04.stepper-checks", "C04.stepper-table"},
	// which rules apply to a path / namespace is decided by Matches
	"C10": {"C06.matches-exact"},
	"C11": {"C06.matches-exact"},
	// which entries are skipped / which annotations refer to an entry is decided by these predicates
	"C07": {"C04.annotation-predicates", "C04.match-table"},
	"C15": {"C04.annotation-predicates"},
	// once per principal
	"C09": {"C05.consumer", "C05.dedup"},
	// 'verified descendants that verification accepts': Apply relies on these checks
	"C12": {"C02.new-state", "C02.rollback", "C02.self-verify"},
	// one CAS-guarded commit per entry
	"C16": {"C03.one-append", "C03.entry-shape", "C17.cas"},
	// a writer that loses the race fails inside the multi-write operation: "leaves no trace" is the compensation
	"C17": {"C03.number", "C03.entry-shape", "C03.writers", "C04.stepper-checks", "C04.stepper-table", "C16.compensate", "C16.restore-prior", "C16.prior-read-first"},
	// names move through the same plumbing calls
	"C18": {"C10.nul-protocol"},
	// a stale 'latest' state breaks the prediction only
	// the predictor's file-rule loop must have the verifier's shape (every path, per-commit shortcut) and its global-rule relaxation is decided in the shared function
	"C19": {"C08.latest-reads-tip", "C11.all-rules-checked", "C10.every-path"},
}

// RulesFor returns the rules evaluated for a property: its own plus the included ones.
func RulesFor(prop string) []*eng.Rule {
	var out []*eng.Rule
	seen := map[string]bool{}
	for _, r := range All() {
		if r.Prop == prop {
			out = append(out, r)
			seen[r.ID] = true
		}
	}
	for _, pre := range Includes[prop] {
		for _, r := range All() {
			if !seen[r.ID] && (r.ID == pre || (strings.HasSuffix(pre, ".") && strings.HasPrefix(r.ID, pre))) {
				out = append(out, r)
				seen[r.ID] = true
			}
		}
	}
	return out
}
