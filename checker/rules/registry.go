// Package rules holds one file per property; each registers its rules here.
package rules

import (
	"sort"

	"verif/checker/eng"
)

var registry []*eng.Rule

func reg(r *eng.Rule) { registry = append(registry, r) }

// All returns the rules sorted by id.
func All() []*eng.Rule {
	out := append([]*eng.Rule(nil), registry...)
	sort.SliceStable(out, func(i, j int) bool { return out[i].ID < out[j].ID })
	return out
}

// PropMeta is the per-property statement of what is and is not decided.
type PropMeta struct {
	Explanation string
	Decides     []string
	NotDecided  []string
	Assumptions []string
}

var Meta = map[string]PropMeta{}
