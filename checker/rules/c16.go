package rules

import (
	"fmt"
	"sort"
	"strings"

	"golang.org/x/tools/go/ssa"

	"verif/checker/eng"
)

func init() {
	Meta["C16"] = PropMeta{
		Explanation: "Static necessary conditions of the fault clause of 'a storage failure at any step leaves log valid and managed refs consistent', as a compensation pairing over the storage interface: in every operation that first moves a gittuf-managed reference and then records that move in the log, every path from a failed log append to the function's exit passes through a compensator of the same reference (reset to the prior value, or deletion when there was none) — including the path on which no prior value existed; the prior value is read before the move and a failing read aborts before any write; validation precedes the first write; no error of a storage call is dropped in the policy / attestations / rsl / cache packages (two named, advisory exceptions); each log entry is a single compare-and-set append (C03). The crash clause and convergence of retries are NOT decided (they need execution with fault injection).",
		Decides:     []string{"compensation on every error path after a managed ref moved (violated today at 5 sites: F8)", "prior value read first, failing read aborts", "validation before first write", "error discipline on storage calls", "single CAS append per entry"},
		NotDecided:  []string{"state after a crash at an arbitrary storage call", "that a retry converges to the uninterrupted result"},
	}
	reg(&eng.Rule{ID: "C16.compensate", Prop: "C16", Floor: 5,
		Doc: "In State.Commit, Apply, Attestations.Commit and ReconcileStaging (×2): after Storer.Commit/SetReference moved a managed reference r, every path from a failing rsl.NewReferenceEntry(r, …).Commit to a return passes through ResetDueToError(_, r, prior) / SetReference(r, prior) / DeleteReference(r).",
		Run: c16Compensate})
	reg(&eng.Rule{ID: "C16.prior-read-first", Prop: "C16", Floor: 3,
		Doc: "The prior value handed to the compensator is the result of GetReference(r) made before the move, and an error of that read other than ErrReferenceNotFound aborts before any write.",
		Run: c16PriorReadFirst})
	reg(&eng.Rule{ID: "C16.writes-last", Prop: "C16", Floor: 3,
		Doc: "In ReconcileStaging all state loads precede the first reference write of the diverged branch; object writes (WriteBlob/WriteTree) precede the reference move in State.Commit and Attestations.Commit. (Apply's order is C12.apply-gates.)",
		Run: c16WritesLast})
	reg(&eng.Rule{ID: "C16.error-discipline", Prop: "C16", Floor: 60,
		Doc: "Every Storer call in internal/policy, internal/attestations, pkg/rsl and internal/cache examines its error and a non-nil error reaches only error returns (handled sentinels: ErrReferenceNotFound, ErrRSLEntryNotFound and the package's own not-found sentinels). Named exceptions: cache.Persistent.Commit ignores GetReference(cacheRef)'s error on purpose; the deferred persistentCache.Commit result is dropped (the cache is advisory).",
		Run: c16ErrorDiscipline})
	reg(&eng.Rule{ID: "C16.no-partial-entry", Prop: "C16", Floor: 9,
		Doc: "= C03.one-append: every recording method performs exactly one (CAS-guarded) append and returns all other errors before it.",
		Run: func(c *Ctx, r *R) { c03OneAppend(c, r) }})
}

var managedRefs = map[string]string{refPolicy: "policy", refStaging: "policy-staging", refAttest: "attestations"}

var c16Funcs = []string{
	"(*internal/policy.State).Commit",
	"internal/policy.Apply",
	"(*internal/attestations.Attestations).Commit",
	"internal/policy.ReconcileStaging",
}

// logAppendFor finds rsl.NewReferenceEntry(ref, …).Commit(...) calls in fn for the constant ref.
func logAppendsFor(fn *ssa.Function, ref string) []Call {
	var out []Call
	for _, k := range eng.CallsTo(fn, false, "(*pkg/rsl.ReferenceEntry).Commit") {
		for _, root := range eng.Roots(k.Recv()) {
			if nk, _, ok := eng.RootCall(root); ok && nk.Name() == "pkg/rsl.NewReferenceEntry" {
				if s, isC := eng.ConstString(nk.Arg(0)); isC && s == ref {
					out = append(out, k)
				}
			}
		}
	}
	return out
}

func compensatorsFor(fn *ssa.Function, ref string) []Call {
	var out []Call
	for _, k := range eng.Calls(fn, false) {
		if k.Callee == nil {
			continue
		}
		idx, ok := refMutators[k.Callee.Name()]
		if !ok {
			continue
		}
		switch k.Callee.Name() {
		case "ResetDueToError", "SetReference", "DeleteReference":
			if s, isC := eng.ConstString(k.Arg(idx)); isC && s == ref {
				out = append(out, k)
			}
		}
	}
	return out
}

func c16Compensate(c *Ctx, r *R) {
	for _, spec := range c16Funcs {
		fn := r.Fn(spec)
		if fn == nil {
			continue
		}
		name := fname(fn)
		// effects: moves of managed refs in this function
		type eff struct {
			k   Call
			ref string
		}
		var effs []eff
		for _, w := range refWrites(c) {
			if fname(w.Fn) != name || w.Dynamic {
				continue
			}
			if _, m := managedRefs[w.Ref]; !m {
				continue
			}
			if w.Method == "Commit" || w.Method == "CommitUsingSpecificKey" || w.Method == "SetReference" {
				effs = append(effs, eff{w.Call, w.Ref})
			}
		}
		sort.SliceStable(effs, func(i, j int) bool { return effs[i].k.Block().Index < effs[j].k.Block().Index })
		ord := map[string]int{}
		for _, e := range effs {
			// the log append that records this move: an append for the same ref reachable from the effect
			var appends []Call
			for _, a := range logAppendsFor(fn, e.ref) {
				b, i := eng.After(e.k.Instr)
				if p := eng.FindPath(b, i, isInstr(a.Instr), nil); p != nil {
					appends = append(appends, a)
				}
			}
			if len(appends) == 0 {
				continue // the move is itself a compensation or has no log append in this function
			}
			// a SetReference that is only reachable from a failed append is a compensator, not an effect
			isComp := false
			for _, a := range logAppendsFor(fn, e.ref) {
				ev, _ := a.ErrResult()
				if ev == nil {
					continue
				}
				for _, ne := range eng.UsesOfErr(ev).NonNilEdges {
					if ne.To().Dominates(e.k.Block()) {
						isComp = true
					}
				}
			}
			if isComp {
				continue
			}
			ord[e.ref]++
			key := fmt.Sprintf("pair:%s:%s#%d", name, managedRefs[e.ref], ord[e.ref])
			r.Site(1)
			comps := compensatorsFor(fn, e.ref)
			cut := eng.NewCut()
			for _, cm := range comps {
				if cm.Instr != e.k.Instr {
					cut.AddInstrs(cm.Instr)
				}
			}
			bad := ""
			for _, a := range appends {
				ev, has := a.ErrResult()
				if !has {
					continue
				}
				if ev == nil {
					bad = "the log append's error is discarded"
					break
				}
				u := eng.UsesOfErr(ev)
				if len(u.NonNilEdges) == 0 {
					bad = fmt.Sprintf("the error of the log append at %s is returned as is: when recording the entry fails, %s stays moved with no log entry for it", c.Rel(a.Pos()), e.ref)
					break
				}
				for _, ne := range u.NonNilEdges {
					p := eng.FindPath(ne.To(), 0, func(in ssa.Instruction) bool { _, ok := in.(*ssa.Return); return ok }, cut)
					if p != nil {
						bad = fmt.Sprintf("after %s was moved at %s, a failing log append at %s can return without resetting or deleting the reference (e.g. when it had no prior value): the reference then names a state no log entry records; witness %s", e.ref, c.Rel(e.k.Pos()), c.Rel(a.Pos()), c.DescribePath(p))
					}
				}
			}
			if bad == "" {
				r.Ok(key, e.k.Pos(), "every failing path after moving %s passes a compensator", e.ref)
			} else {
				// discriminate "some error paths are compensated" from "none is": a known finding of the
				// first kind must not mask a later regression to the second
				kind := ":uncompensated"
				if len(cut.Instrs) > 0 {
					kind = ":partly-compensated"
				}
				r.Bad(key+kind, e.k.Pos(), "%s", bad)
			}
		}
	}
}

func c16PriorReadFirst(c *Ctx, r *R) {
	for _, spec := range c16Funcs[:3] {
		fn := r.Fn(spec)
		if fn == nil {
			continue
		}
		name := fname(fn)
		for _, k := range eng.Calls(fn, false) {
			if k.Method() != "ResetDueToError" {
				continue
			}
			r.Site(1)
			ref, _ := eng.ConstString(k.Arg(1))
			key := "prior:" + name + ":" + managedRefs[ref]
			var rd Call
			for _, root := range eng.Roots(k.Arg(2)) {
				if g, i, ok := eng.RootCall(root); ok && i == 0 && g.Method() == "GetReference" {
					rd = g
				}
			}
			if rd.Instr == nil {
				r.Bad(key, k.Pos(), "the value a failed operation resets %s to is not the result of reading that reference", ref)
				continue
			}
			s, _ := eng.ConstString(rd.Arg(0))
			r.Check(s == ref, key, rd.Pos(), "prior value of "+ref+" is read from that reference", "the reset value for "+ref+" is read from a different reference ("+s+")")
			// read happens before the first move of the ref
			for _, w := range refWrites(c) {
				if fname(w.Fn) != name || w.Ref != ref || w.Call.Instr == k.Instr || w.Method == "ResetDueToError" {
					continue
				}
				r.Check(rd.Block().Dominates(w.Call.Block()), "prior-before-move:"+name+":"+managedRefs[ref], w.Call.Pos(), "the prior value is read before the reference is moved", "the prior value of "+ref+" is read after the reference was already moved")
			}
			errPropagates(c, r, "prior-read-error:"+name+":"+managedRefs[ref], rd, "ErrReferenceNotFound")
			// the cause passed is the failing append's error
			okCause := false
			for _, root := range eng.Roots(k.Arg(0)) {
				if a, _, ok := eng.RootCall(root); ok && a.Name() == "(*pkg/rsl.ReferenceEntry).Commit" {
					okCause = true
				}
			}
			r.Check(okCause, "reset-reports-cause:"+name+":"+managedRefs[ref], k.Pos(), "the original failure is reported", "ResetDueToError is not given the failing append's error as cause")
		}
	}
}

func c16WritesLast(c *Ctx, r *R) {
	if fn := r.Fn("internal/policy.ReconcileStaging"); fn != nil {
		loads := eng.CallsTo(fn, false, fnLSFE)
		var sets []Call
		for _, k := range eng.CallsToMethod(fn, false, "SetReference", storageRecvs...) {
			sets = append(sets, k)
		}
		r.Check(len(loads) == 2 && len(sets) == 2, "reconcile-anchors", fn.Pos(), "two state loads and two reference moves found", "ReconcileStaging anchors changed")
		if len(loads) == 2 && len(sets) == 2 {
			last := sets[1]
			for i, l := range loads {
				cut := eng.NewCut()
				l.OKPoints(cut)
				mustPass(c, r, "loads-before-write:"+itoa(i), fn, isInstr(last.Instr), cut, "policy states are loaded (successfully) before staging is moved in the diverged case", "staging can be moved before both policy states were loaded successfully")
			}
		}
		// no write before the consistency checks: first SetReference is dominated by both reference/log agreement switches
		n := 0
		for _, ret := range eng.Returns(fn) {
			if eng.Sentinels(eng.RetErr(ret))["ErrInvalidPolicy"] {
				n++
				for _, s := range sets {
					r.Check(!s.Block().Dominates(ret.Block()), "consistency-before-write:"+itoa(n), pos(ret), "consistency errors are returned before any write", "ErrInvalidPolicy can be returned after staging was already moved")
				}
			}
		}
		r.Check(n == 4, "consistency-exits", fn.Pos(), "four ErrInvalidPolicy exits (policy ×2, staging ×2)", "expected four reference/log consistency exits in ReconcileStaging")
	}
	for _, spec := range []string{"(*internal/policy.State).Commit", "(*internal/attestations.Attestations).Commit"} {
		fn := r.Fn(spec)
		if fn == nil {
			continue
		}
		name := fname(fn)
		var move Call
		for _, w := range refWrites(c) {
			if fname(w.Fn) == name && w.Method == "Commit" {
				move = w.Call
			}
		}
		if move.Instr == nil {
			r.Bad("objects-before-ref:"+name, fn.Pos(), "no reference move found")
			continue
		}
		okAll := true
		for _, k := range eng.Calls(fn, false) {
			if (k.Method() == "WriteTree" || k.Method() == "WriteBlob") && move.Block().Dominates(k.Block()) && k.Block() != move.Block() {
				okAll = false
			}
		}
		r.Check(okAll, "objects-before-ref:"+name, move.Pos(), "all object writes precede the reference move", "an object write follows the reference move (a failure there leaves the reference moved)")
		// the tree committed is the one just written
		r.Check(eng.PCall("WriteTree", 0)(move.Arg(0)), "commits-written-tree:"+name, move.Pos(), "the committed tree is the tree just written", "the tree committed is not the result of WriteTree")
	}
}

func c16ErrorDiscipline(c *Ctx, r *R) {
	pkgs := map[string]bool{"internal/policy": true, "internal/attestations": true, "pkg/rsl": true, "internal/cache": true}
	sentinels := []string{"ErrReferenceNotFound", "ErrRSLEntryNotFound", "ErrAuthorizationNotFound", "ErrPullRequestApprovalAttestationNotFound", "ErrAttestationsNotFound", "ErrPolicyNotFound", "ErrMetadataNotFound", "ErrNoPersistentCache"}
	type site struct {
		fn *ssa.Function
		k  Call
	}
	var sites []site
	c.ModuleFuncs(func(fn *ssa.Function) {
		if !pkgs[pkgOf(fn)] {
			return
		}
		for _, k := range eng.Calls(fn, false) {
			rt := k.RecvTypeName()
			if rt != "Storer" && rt != "Repository" {
				continue
			}
			if _, has := k.ErrResult(); !has {
				continue
			}
			sites = append(sites, site{fn, k})
		}
	})
	sort.SliceStable(sites, func(i, j int) bool {
		a, b := fname(sites[i].fn), fname(sites[j].fn)
		if a != b {
			return a < b
		}
		return sites[i].k.Pos() < sites[j].k.Pos()
	})
	for _, s := range sites {
		r.Site(1)
		key := callKey(s.fn, s.k)
		name := fname(rootFn(s.fn))
		// named exceptions
		if name == "(*internal/cache.Persistent).Commit" && s.k.Method() == "GetReference" {
			r.Ok(key, s.k.Pos(), "named exception: the cache commit ignores a failing read of the cache reference on purpose (advisory cache)")
			continue
		}
		if name == "(*internal/cache.Persistent).Commit" && s.k.Method() == "GetCommitTreeID" {
			// `if err == nil && treeID.Equal(...)`: an error only disables the no-op shortcut
			r.Ok(key, s.k.Pos(), "named exception: a failing read of the current cache tree only disables the no-change shortcut")
			continue
		}
		if _, isDefer := s.k.Instr.(*ssa.Defer); isDefer {
			r.Undecided(key, s.k.Pos(), "deferred storage call whose error cannot be examined")
			continue
		}
		if strings.HasSuffix(name, ".Verify") && s.k.Method() == "KnowsCommit" {
			// fallthrough to the generic rule
		}
		errPropagates(c, r, key, s.k, sentinels...)
	}
	// the deferred cache commit in VerifyRelativeForRef
	if fn := r.Fn(fnVRFR); fn != nil {
		for _, k := range eng.Calls(fn, false) {
			if _, isDefer := k.Instr.(*ssa.Defer); isDefer && k.Name() == "(*internal/cache.Persistent).Commit" {
				r.Ok("deferred-cache-commit", k.Pos(), "named exception: the deferred persistent-cache commit's result is dropped (advisory cache)")
			}
		}
	}
}

func init() {
	reg(&eng.Rule{ID: "C16.restore-prior", Prop: "C16", Floor: 4,
		Doc: "A compensator puts the managed reference back to what it was: DeleteReference(r) is used only on the edge where the value read from r before the operation is the zero id (the reference did not exist), and ResetDueToError / SetReference compensators are given that very value; on the edge where a prior value exists the reference is never deleted.",
		Run: c16RestorePrior})
}

func c16RestorePrior(c *Ctx, r *R) {
	for _, spec := range c16Funcs {
		fn := r.Fn(spec)
		if fn == nil {
			continue
		}
		short := fname(fn)
		for ref, refName := range managedRefs {
			// the prior value: result of GetReference(ref) in this function
			var priors []ssa.Value
			for _, k := range eng.Calls(fn, false) {
				if k.Method() == "GetReference" {
					if s, isC := eng.ConstString(k.Arg(0)); isC && s == ref && k.Result(0) != nil {
						priors = append(priors, k.Result(0))
					}
				}
			}
			isPrior := func(v ssa.Value) bool {
				for _, p := range priors {
					if sameObjVal(v, p) {
						return true
					}
				}
				return false
			}
			zero := eng.BoolEdges(fn, func(v ssa.Value) bool {
				k, _, ok := eng.RootCall(v)
				return ok && k.Method() == "IsZero" && k.Recv() != nil && isPrior(k.Recv())
			}, true)
			for i, k := range compensatorsFor(fn, ref) {
				// only compensators: calls behind a failed log append (non-nil edge) — deletes in Discard etc. are operations
				behindFailure := false
				for _, a := range logAppendsFor(fn, ref) {
					if ev, _ := a.ErrResult(); ev != nil {
						for _, ne := range eng.UsesOfErr(ev).NonNilEdges {
							if ne.To().Dominates(k.Block()) {
								behindFailure = true
							}
						}
					}
				}
				if !behindFailure {
					continue
				}
				r.Site(1)
				key := "restore:" + short + ":" + refName + ":" + itoa(i+1)
				switch k.Callee.Name() {
				case "DeleteReference":
					dom := false
					for _, e := range zero {
						if eng.EdgeDominates(e, k.Block()) {
							dom = true
						}
					}
					r.Check(dom, key, k.Pos(), "the reference is deleted only where it did not exist before", "after a failed log append the managed reference "+ref+" is deleted on a path where it existed before the operation (instead of being reset to its prior value)")
				case "ResetDueToError":
					r.Check(isPrior(k.Arg(2)), key, k.Pos(), "reset to the value read before the operation", "ResetDueToError is not given the value read from "+ref+" before the operation")
					nz := false
					for _, e := range zero {
						if eng.EdgeDominates(e, k.Block()) {
							nz = true
						}
					}
					r.Check(!nz || len(zero) == 0, key+":not-on-zero", k.Pos(), "reset is not attempted with the zero id", "ResetDueToError is called on the edge where the prior value is the zero id (nothing to reset to: the reference stays moved)")
				case "SetReference":
					r.Check(isPrior(k.Arg(1)), key, k.Pos(), "set back to the value read before the operation", "the compensating SetReference is not given the value read from "+ref+" before the operation")
				}
			}
		}
	}
}

func init() {
	reg(&eng.Rule{ID: "C16.reset-primitive", Prop: "C16", Floor: 3,
		Doc: "The compensating primitive does what its callers rely on: every return of (*Repository).ResetDueToError lies behind an unconditional SetReference(refName, commitID) with its own parameters (a force reset — no precondition on the target), and the error it returns is never nil (it is the cause, possibly wrapped).",
		Run: c16ResetPrimitive})
}

func c16ResetPrimitive(c *Ctx, r *R) {
	fn := r.Fn("(*pkg/gitinterface.Repository).ResetDueToError")
	if fn == nil {
		return
	}
	r.Site(1)
	var sets []Call
	for _, k := range eng.Calls(fn, false) {
		if k.Method() == "SetReference" {
			sets = append(sets, k)
		}
	}
	sk, ok := oneCall(r, "reset-call", fn, sets, "SetReference")
	if !ok {
		return
	}
	r.Check(eng.PParam("refName")(sk.Arg(0)) && eng.PParam("commitID")(sk.Arg(1)), "reset-args", sk.Pos(), "SetReference(refName, commitID)", "the reset does not set the given reference to the given commit")
	isRet := func(in ssa.Instruction) bool { _, ok := in.(*ssa.Return); return ok }
	mustPass(c, r, "reset-unconditional", fn, isRet, eng.NewCut().AddInstrs(sk.Instr), "every return lies behind the reset", "ResetDueToError can return without having attempted the reset (a precondition was put in front of it): callers that moved the reference sideways are left with it moved")
	okE := true
	for _, ret := range eng.Returns(fn) {
		if eng.ClassifyErr(eng.RetErr(ret), ret.Block()) == eng.ErrNil {
			okE = false
		}
	}
	r.Check(okE, "never-nil", fn.Pos(), "the cause is always reported", "ResetDueToError can return nil: the failed operation would be reported as successful")
}
