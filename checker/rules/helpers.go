package rules

import (
	"fmt"
	"go/token"
	"go/types"
	"strings"

	"golang.org/x/tools/go/ssa"

	"verif/checker/eng"
)

// shorthand
type (
	Ctx  = eng.Ctx
	R    = eng.R
	Call = eng.Call
	Pat  = eng.Pat
)

func pos(in ssa.Instruction) token.Pos { return eng.InstrPos(in) }

func fname(fn *ssa.Function) string { return eng.FuncName(fn) }

// isReturn / isSuccessReturn / isNilReturn target predicates.
func isSuccessReturn(in ssa.Instruction) bool {
	r, ok := in.(*ssa.Return)
	return ok && eng.ClassifyErr(eng.RetErr(r), r.Block()) != eng.ErrNonNil
}

func isNilErrReturn(in ssa.Instruction) bool {
	r, ok := in.(*ssa.Return)
	return ok && eng.ClassifyErr(eng.RetErr(r), r.Block()) == eng.ErrNil
}

func isInstr(x ssa.Instruction) func(ssa.Instruction) bool {
	return func(in ssa.Instruction) bool { return in == x }
}

func isAnyOf(xs ...ssa.Instruction) func(ssa.Instruction) bool {
	return func(in ssa.Instruction) bool {
		for _, x := range xs {
			if in == x {
				return true
			}
		}
		return false
	}
}

// mustPass discharges "every path from the entry of fn to a target passes
// through the cut"; otherwise reports the witness path.
func mustPass(c *Ctx, r *R, key string, fn *ssa.Function, target func(ssa.Instruction) bool, cut *eng.Cut, okMsg, badMsg string) bool {
	p := eng.FindPathFromEntry(fn, target, cut)
	if p == nil {
		r.Ok(key, fn.Pos(), "%s", okMsg)
		return true
	}
	r.Bad(key, pos(p.Target), "%s; witness path in %s: %s", badMsg, fname(fn), c.DescribePath(p))
	return false
}

// mustPassFrom is mustPass starting just after an instruction.
func mustPassFrom(c *Ctx, r *R, key string, from ssa.Instruction, target func(ssa.Instruction) bool, cut *eng.Cut, okMsg, badMsg string) bool {
	b, i := eng.After(from)
	p := eng.FindPath(b, i, target, cut)
	if p == nil {
		r.Ok(key, pos(from), "%s", okMsg)
		return true
	}
	r.Bad(key, pos(p.Target), "%s; witness path in %s: %s", badMsg, fname(from.Parent()), c.DescribePath(p))
	return false
}

// guardReturnsErr discharges "fn contains a test on which `x op y` holds whose
// taken edge leads only to returns of an error wrapping sentinel", returning
// the complementary (pass) edges for use in cuts.
func guardReturnsErr(c *Ctx, r *R, key string, fn *ssa.Function, op token.Token, x, y Pat, sentinel, what string) []eng.Edge {
	fail := eng.RelEdges(fn, op, x, y)
	if len(fail) == 0 {
		r.Bad(key, fn.Pos(), "%s: no test of the form (%s) found in %s", what, what, fname(fn))
		return nil
	}
	var pass []eng.Edge
	ok := true
	for _, e := range fail {
		if p := eng.LeadsOnlyToErr(e, sentinel); p != nil {
			ok = false
			r.Bad(key, pos(p.Target), "%s: the failing edge of the test does not always return an error wrapping %s; witness: %s", what, sentinel, c.DescribePath(p))
		}
		pass = append(pass, eng.Edge{From: e.From, Idx: 1 - e.Idx})
	}
	if ok {
		r.Ok(key, pos(fail[0].From.Instrs[len(fail[0].From.Instrs)-1]), "%s → %s on every path (%d test site(s))", what, sentinel, len(fail))
	}
	return pass
}

// boolGuardReturnsErr is guardReturnsErr for a boolean expression with the
// given truth value.
func boolGuardReturnsErr(c *Ctx, r *R, key string, fn *ssa.Function, p Pat, truth bool, sentinel, what string) []eng.Edge {
	fail := eng.BoolEdges(fn, p, truth)
	if len(fail) == 0 {
		r.Bad(key, fn.Pos(), "%s: no such test found in %s", what, fname(fn))
		return nil
	}
	var pass []eng.Edge
	ok := true
	for _, e := range fail {
		if pth := eng.LeadsOnlyToErr(e, sentinel); pth != nil {
			ok = false
			r.Bad(key, pos(pth.Target), "%s: the failing edge does not always return an error wrapping %q; witness: %s", what, sentinel, c.DescribePath(pth))
		}
		pass = append(pass, eng.Edge{From: e.From, Idx: 1 - e.Idx})
	}
	if ok {
		r.Ok(key, pos(fail[0].From.Instrs[len(fail[0].From.Instrs)-1]), "%s → %s on every path (%d test site(s))", what, orAny(sentinel), len(fail))
	}
	return pass
}

func orAny(s string) string {
	if s == "" {
		return "error"
	}
	return s
}

// errPropagates checks P3 on one call: the error result is examined and its
// non-nil edge leads only to non-nil error returns, except through an
// `errors.Is(err, S)` test with S in allowed (handled sentinel).
func errPropagates(c *Ctx, r *R, key string, k Call, allowed ...string) bool {
	ev, has := k.ErrResult()
	if !has {
		r.Ok(key, k.Pos(), "%s has no error result", k.Name())
		return true
	}
	if ev == nil {
		r.Bad(key, k.Pos(), "error result of %s is discarded in %s", k.Name(), fname(k.Fn))
		return false
	}
	u := eng.UsesOfErr(ev)
	if u.Dropped {
		r.Bad(key, k.Pos(), "error result of %s is never examined in %s", k.Name(), fname(k.Fn))
		return false
	}
	unconditionalReturn := false
	for _, ret := range u.Returned {
		cond := false
		for _, g := range eng.GuardsAt(ret.Block()) {
			if ck, _, isCall := eng.RootCall(g.Cond); isCall && (ck.Name() == "errors.Is" || ck.Name() == "errors.As") {
				cond = true
			}
		}
		if !cond {
			unconditionalReturn = true
		}
	}
	if len(u.NonNilEdges) == 0 && !unconditionalReturn && !u.Stored {
		// never compared with nil, returned at most under an errors.Is test: how is it consumed?
		onlyClassified := len(u.PassedTo) > 0
		for _, p := range u.PassedTo {
			if p.Instr == nil {
				continue
			}
			n := p.Name()
			if n != "errors.Is" && n != "errors.As" {
				onlyClassified = false
			}
		}
		if onlyClassified {
			r.Bad(key, k.Pos(), "the error of %s is only classified with errors.Is/As in %s and never tested against nil: every error other than the tested sentinel is silently treated as success", k.Name(), fname(k.Fn))
			return false
		}
	}
	// handled-sentinel edges: errors.Is(err, S) true edges
	cut := eng.NewCut()
	handled := []string{}
	for _, p := range u.PassedTo {
		if p.Instr == nil || p.Name() != "errors.Is" {
			continue
		}
		g := eng.GlobalLoad(p.Instr.Common().Args[1])
		if g == nil {
			continue
		}
		okS := false
		for _, a := range allowed {
			if a == g.Name() {
				okS = true
			}
		}
		if !okS {
			continue
		}
		if v := p.Value(); v != nil {
			for _, e := range eng.BoolEdges(k.Fn, eng.PSame(v), true) {
				cut.AddEdges(e)
				handled = append(handled, g.Name())
			}
		}
	}
	for _, e := range u.NonNilEdges {
		bad := func(in ssa.Instruction) bool {
			ret, ok := in.(*ssa.Return)
			if !ok {
				return false
			}
			return eng.ClassifyErr(eng.RetErr(ret), ret.Block()) != eng.ErrNonNil
		}
		// also: reaching the nil-edge continuation without returning = swallowed.
		p := eng.FindPath(e.To(), 0, bad, cut)
		if p != nil {
			r.Bad(key, pos(p.Target), "a non-nil error from %s can reach a success return in %s (error swallowed); witness: %s", k.Name(), fname(k.Fn), c.DescribePath(p))
			return false
		}
	}
	msg := fmt.Sprintf("error of %s is examined and propagates on every non-nil path", k.Name())
	if len(handled) > 0 {
		msg += " (handled sentinel: " + strings.Join(handled, ",") + ")"
	}
	r.Ok(key, k.Pos(), "%s", msg)
	return true
}

// callKey builds a line-free key for a call site: callee plus ordinal among
// same-callee calls in the function.
func callKey(fn *ssa.Function, k Call) string {
	n := 0
	for _, o := range eng.Calls(fn, true) {
		if o.Name() == k.Name() {
			n++
			if o.Instr == k.Instr {
				break
			}
		}
	}
	return fmt.Sprintf("%s:%s#%d", fname(fn), k.Name(), n)
}

// one returns the single element or reports.
func oneCall(r *R, key string, fn *ssa.Function, ks []Call, what string) (Call, bool) {
	if len(ks) == 1 {
		return ks[0], true
	}
	if len(ks) == 0 {
		r.Bad(key, fn.Pos(), "%s: no call to %s in %s", key, what, fname(fn))
	} else {
		r.Undecided(key, fn.Pos(), "%d calls to %s in %s where the rule was written for exactly one; re-anchor the rule", len(ks), what, fname(fn))
	}
	return Call{}, false
}

// optionNames returns, for a call with a trailing variadic option parameter,
// the constructor functions whose results are passed (e.g. ForReference,
// BeforeEntryID, IsUnskipped) together with the constructor calls; ok is false
// when the option slice is not built at the call site.
func optionNames(k Call) (names []string, ctors []Call, ok bool) {
	cc := k.Instr.Common()
	sig := cc.Signature()
	if !sig.Variadic() {
		return nil, nil, false
	}
	last := cc.Args[len(cc.Args)-1]
	els := eng.VariadicElems(last)
	if els == nil {
		return nil, nil, false
	}
	for _, e := range els {
		found := false
		for _, root := range eng.Roots(e) {
			if ck, _, isCall := eng.RootCall(root); isCall && ck.Callee != nil {
				names = append(names, ck.Callee.Name())
				ctors = append(ctors, ck)
				found = true
			}
		}
		if !found {
			return names, ctors, false
		}
	}
	return names, ctors, true
}

func sameStringSet(a []string, b ...string) bool {
	m := map[string]int{}
	for _, x := range a {
		m[x]++
	}
	for _, x := range b {
		m[x]--
	}
	for _, v := range m {
		if v != 0 {
			return false
		}
	}
	return true
}

// optionCtor finds the constructor call with this name among ctors.
func optionCtor(ctors []Call, name string) (Call, bool) {
	for _, c := range ctors {
		if c.Callee != nil && c.Callee.Name() == name {
			return c, true
		}
	}
	return Call{}, false
}

// allocStores returns, for a struct allocated in fn (composite literal), the
// value stored into each named field.
func allocStores(al *ssa.Alloc) map[string]ssa.Value {
	out := map[string]ssa.Value{}
	for _, ref := range *al.Referrers() {
		fa, ok := ref.(*ssa.FieldAddr)
		if !ok {
			continue
		}
		name := fieldNameOf(fa)
		for _, r2 := range *fa.Referrers() {
			if st, ok := r2.(*ssa.Store); ok && st.Addr == ssa.Value(fa) {
				out[name] = st.Val
			}
		}
	}
	return out
}

func fieldNameOf(fa *ssa.FieldAddr) string {
	t := fa.X.Type().Underlying()
	if p, ok := t.(*types.Pointer); ok {
		if s, ok := p.Elem().Underlying().(*types.Struct); ok {
			return s.Field(fa.Field).Name()
		}
	}
	return "?"
}

// allocsOf lists the allocations in fn of the named struct type.
func allocsOf(fn *ssa.Function, typeName string) []*ssa.Alloc {
	var out []*ssa.Alloc
	for _, b := range fn.Blocks {
		for _, in := range b.Instrs {
			if al, ok := in.(*ssa.Alloc); ok {
				if p, ok := al.Type().(*types.Pointer); ok {
					if n, ok := p.Elem().(*types.Named); ok && n.Obj().Name() == typeName {
						out = append(out, al)
					}
				}
			}
		}
	}
	return out
}

// rangeDoneEdges returns, for every `range` over a value matching p (map or
// string ranges use Next; slices use index loops and are matched by their
// `i < len(x)` test), the CFG edges taken when the loop is exhausted.
func rangeDoneEdges(fn *ssa.Function, p Pat) []eng.Edge {
	var out []eng.Edge
	for _, b := range fn.Blocks {
		for _, in := range b.Instrs {
			nx, ok := in.(*ssa.Next)
			if !ok {
				continue
			}
			rg, ok := nx.Iter.(*ssa.Range)
			if !ok || !p(rg.X) {
				continue
			}
			for _, ref := range *nx.Referrers() {
				if ex, ok := ref.(*ssa.Extract); ok && ex.Index == 0 {
					out = append(out, eng.BoolEdges(fn, eng.PSame(ex), false)...)
				}
			}
		}
	}
	// slice ranges: `phi < len(x)` false edge
	out = append(out, eng.RelEdges(fn, token.GEQ, eng.PAny(), eng.PLen(p))...)
	return out
}

func orStr(a, b string) string {
	if a != "" {
		return a
	}
	return b
}

// sameWeb: v and w are reads of the same variable (they share a non-nil
// assigned value, or are the same SSA value).
func sameWeb(v, w ssa.Value) bool {
	if v == nil || w == nil {
		return false
	}
	if eng.Strip(v) == eng.Strip(w) {
		return true
	}
	in := map[ssa.Value]bool{}
	for _, a := range eng.Assignments(w) {
		if !eng.IsNilConst(a.Val) {
			in[a.Val] = true
		}
	}
	for _, a := range eng.Assignments(v) {
		if in[a.Val] {
			return true
		}
	}
	return false
}

// scanExhaustive discharges "the loop with the given header examines every
// element": the only edges that leave the loop are the header's own exit, edges
// that lead only to non-nil-error returns, and the explicitly allowed ones.
func scanExhaustive(c *Ctx, r *R, key string, head *ssa.BasicBlock, allowed []eng.Edge, what string) bool {
	ok := true
	isAllowed := func(e eng.Edge) bool {
		for _, a := range allowed {
			if a == e {
				return true
			}
		}
		return false
	}
	for _, e := range eng.LoopExits(head) {
		if e.From == head || isAllowed(e) {
			continue
		}
		if eng.LeadsOnlyToErr(e, "") == nil {
			continue
		}
		ok = false
		last := e.From.Instrs[len(e.From.Instrs)-1]
		r.Bad(key, pos(last), "%s: the scan can stop before every element was examined (early exit at %s)", what, c.Rel(pos(last)))
	}
	if ok {
		r.Ok(key, pos(head.Instrs[len(head.Instrs)-1]), "%s: every element is examined (no early normal exit)", what)
	}
	return ok
}
