package rules

import (
	"go/token"
	"go/types"
	"strings"

	"golang.org/x/tools/go/ssa"

	"verif/checker/eng"
)

func init() {
	Meta["C17"] = PropMeta{
		Explanation: "Static necessary conditions of 'concurrent writers cannot corrupt the log': (1) the append primitive publishes the new commit by compare-and-set whose old value is the very tip the commit was parented on, read once in that call, and git receives that old value — so a writer whose tip moved fails without a trace; (2) the number written into an entry and the parent it is attached to must come from one read of the log tip (check-then-act otherwise) — decided interprocedurally for every recording method; (3) readers detect duplicate/skipped numbers and second parents (C04.stepper-checks, re-evaluated here); (4) the process-wide entry/parent caches are accessed only under their mutexes. Behaviour under all interleavings is NOT decided.",
		Decides:     []string{"append is CAS on the parent it read", "number and parent derive from a single tip read (violated today: known finding F9)", "readers fail closed on broken numbering", "rsl cache maps accessed under the matching lock"},
		NotDecided:  []string{"outcomes of all interleavings of storage-interface calls", "git's own atomicity of update-ref"},
	}
	reg(&eng.Rule{ID: "C17.cas", Prop: "C17", Floor: 10,
		Doc: "(*Repository).Commit / CommitUsingSpecificKey publish with CheckAndSetReference(targetRef, new, old) where old and the commit's parent are the same value, the result of the single GetReference(targetRef) of that call; CheckAndSetReference passes the old value to `git update-ref`.",
		Run: func(c *Ctx, r *R) { c03EntryShape(c, r) }})
	reg(&eng.Rule{ID: "C17.single-read", Prop: "C17", Floor: 6,
		Doc: "For every Entry implementer's numbered commit method, the tip from which Number is computed (GetLatestEntry in setEntryNumber) and the tip used as parent / CAS old value (read inside Storer.Commit) must be the same read: the append must be told the expected parent. Two independent reads are a check-then-act race.",
		Run: c17SingleRead})
	reg(&eng.Rule{ID: "C17.readers-detect", Prop: "C17", Floor: 6,
		Doc: "= C04.stepper-checks: every reader rejects a second parent, a numbering gap/duplicate and a malformed parent, so a corrupted log cannot be walked silently.",
		Run: func(c *Ctx, r *R) { c04StepperChecks(c, r) }})
	reg(&eng.Rule{ID: "C17.shared-state", Prop: "C17", Floor: 4,
		Doc: "Every access to the rslCache maps happens after acquiring the matching RWMutex in the same method (write access needs Lock, read access RLock or Lock) with a deferred release; the cache is replaced only by newRSLCache.",
		Run: c17SharedState})
}

func c17SingleRead(c *Ctx, r *R) {
	for _, kind := range entryKinds {
		for _, m := range []string{"Commit", "CommitUsingSpecificKey"} {
			fn := r.Fn("(*pkg/rsl." + kind + ")." + m)
			if fn == nil {
				continue
			}
			key := kind + "." + m
			r.Site(1)
			aps := appendCalls(fn)
			sn := eng.CallsTo(fn, false, "(*pkg/rsl."+kind+").setEntryNumber")
			if len(aps) != 1 || len(sn) != 1 {
				r.Undecided("anchor:"+key, fn.Pos(), "expected one setEntryNumber and one append")
				continue
			}
			// Does any argument of the append (or of the storage Commit it wraps) carry the tip that numbering used?
			// Today: commitEntry(storer, message, sign) → Storer.Commit(tree, Ref, message, sign): no expected-parent parameter.
			carries := false
			for i := 0; i < aps[0].NArgs(); i++ {
				a := aps[0].Arg(i)
				for _, root := range eng.Roots(a) {
					if k, _, ok := eng.RootCall(root); ok {
						n := k.Name()
						if n == "pkg/rsl.GetLatestEntry" || strings.HasSuffix(n, ".setEntryNumber") || k.Method() == "GetReference" || k.Method() == "GetID" {
							carries = true
						}
					}
				}
			}
			// and the storage interface would need a parameter for it
			hasParam := false
			if st := c.Type("pkg/gitstore.Storer"); st != nil {
				if it, ok := st.Underlying().(*types.Interface); ok {
					for i := 0; i < it.NumMethods(); i++ {
						mm := it.Method(i)
						if mm.Name() != "Commit" && mm.Name() != "CommitUsingSpecificKey" {
							continue
						}
						sig := mm.Type().(*types.Signature)
						hashes := 0
						for j := 0; j < sig.Params().Len(); j++ {
							if strings.HasSuffix(sig.Params().At(j).Type().String(), "githash.Hash") {
								hashes++
							}
						}
						if hashes >= 2 { // tree + expected parent
							hasParam = true
						}
					}
				}
			}
			if carries && hasParam {
				r.Ok("one-read:"+key, aps[0].Pos(), "the append is told the tip that numbering used")
			} else {
				r.Bad("one-read:"+key, aps[0].Pos(), "%s numbers the entry from one read of the log tip (setEntryNumber → GetLatestEntry → GetReference) but parents/CASes it on a second, independent read inside Storer.Commit; if another writer appends between the two reads the entry is published with a number that does not follow its parent's (duplicate number)", key)
			}
		}
	}
}

func c17SharedState(c *Ctx, r *R) {
	ct := c.Type("pkg/rsl.rslCache")
	if ct == nil {
		r.Undecided("anchor", token.NoPos, "type rslCache not found")
		return
	}
	st := ct.Underlying().(*types.Struct)
	mutexFor := map[string]string{"entryCache": "entryCacheMutex", "parentCache": "parentCacheMutex"}
	sp := c.SSA[eng.Module+"/pkg/rsl"]
	c.ModuleFuncs(func(fn *ssa.Function) {
		if fn.Pkg != sp {
			return
		}
		for _, b := range fn.Blocks {
			for _, in := range b.Instrs {
				var mapVal ssa.Value
				write := false
				switch x := in.(type) {
				case *ssa.Lookup:
					mapVal = x.X
				case *ssa.MapUpdate:
					mapVal, write = x.Map, true
				case *ssa.Range:
					mapVal = x.X
				default:
					continue
				}
				fld, base, ok := eng.FieldLoad(mapVal)
				if !ok {
					continue
				}
				pt, isP := base.Type().Underlying().(*types.Pointer)
				if !isP || !types.Identical(pt.Elem(), ct) {
					continue
				}
				mu, known := mutexFor[fld]
				if !known {
					continue
				}
				r.Site(1)
				key := fname(fn) + ":" + fld
				// a dominating Lock/RLock on the matching mutex field
				locked, deferred := false, false
				for _, k := range eng.Calls(fn, false) {
					if k.Callee == nil || k.RecvTypeName() != "RWMutex" {
						continue
					}
					rf, ok := k.Recv().(*ssa.FieldAddr)
					if !ok || st.Field(rf.Field).Name() != mu {
						continue
					}
					switch k.Callee.Name() {
					case "Lock":
						if k.Block().Dominates(b) {
							locked = true
						}
					case "RLock":
						if k.Block().Dominates(b) && !write {
							locked = true
						}
					case "Unlock", "RUnlock":
						if _, isDefer := k.Instr.(*ssa.Defer); isDefer {
							deferred = true
						}
					}
				}
				if locked && deferred {
					r.Ok("locked:"+key, in.Pos(), "map %s accessed under %s with deferred release", fld, mu)
				} else {
					r.Bad("locked:"+key, in.Pos(), "%s accesses rslCache.%s (write=%v) without holding %s for the whole access (locked=%v deferred-unlock=%v): concurrent recording operations race on the process-wide cache", fname(fn), fld, write, mu, locked, deferred)
				}
			}
		}
	})
	// the global is assigned only in newRSLCache
	for _, m := range sp.Members {
		g, ok := m.(*ssa.Global)
		if !ok || g.Name() != "cache" {
			continue
		}
		for _, ref := range *refsOfGlobal(c, g) {
			if st, ok := ref.(*ssa.Store); ok && st.Addr == ssa.Value(g) {
				name := fname(rootFn(st.Parent()))
				r.Check(name == "pkg/rsl.newRSLCache" || name == "pkg/rsl.init", "cache-replaced-by:"+name, st.Pos(), "cache replaced only by newRSLCache", name+" replaces the process-wide rsl cache")
			}
		}
	}
}

// refsOfGlobal collects instructions referring to a global across the module.
func refsOfGlobal(c *Ctx, g *ssa.Global) *[]ssa.Instruction {
	var out []ssa.Instruction
	c.ModuleFuncs(func(fn *ssa.Function) {
		for _, b := range fn.Blocks {
			for _, in := range b.Instrs {
				for _, op := range in.Operands(nil) {
					if op != nil && *op == ssa.Value(g) {
						out = append(out, in)
					}
				}
			}
		}
	})
	return &out
}
