package rules

import (
	"go/types"
	"sort"
	"strings"

	"golang.org/x/tools/go/ssa"

	"verif/checker/eng"
)

// errDiscPkgs: packages whose functions compute verdicts or mutate gittuf
// state; a dropped error there turns a failure into a success.
var errDiscPkgs = map[string]bool{
	"internal/policy": true, "pkg/rsl": true, "internal/attestations": true,
	"internal/attestations/authorizations/v01": true, "internal/attestations/authorizations/v02": true,
	"internal/attestations/github/v01": true, "internal/propagation": true, "experimental/gittuf": true,
	"pkg/gitinterface": true, "internal/cache": true, "internal/tuf/v01": true, "internal/tuf/v02": true,
	"internal/tuf/migrations": true, "internal/luasandbox": true, "internal/third_party/go-securesystemslib/dsse": true,
	"internal/signerverifier/dsse": true,
}

// absenceSentinels: errors that mean "nothing there", which callers may
// handle through errors.Is and continue.
var absenceSentinels = []string{
	"ErrRSLEntryNotFound", "ErrReferenceNotFound", "ErrAuthorizationNotFound", "ErrPolicyNotFound",
	"ErrPullRequestApprovalAttestationNotFound", "ErrGitHubReviewIDNotFound", "ErrTreeDoesNotHavePath",
	"ErrAttestationsNotFound", "ErrMetadataNotFound", "ErrNoHooksDefined", "ErrNoRemoteSpecified", "ErrEntryNotNumbered", "ErrNotInCache",
	// standard library: end of input / absent file
	"EOF", "ErrNotExist",
}

// returnsError reports whether the call's callee has a trailing error result.
func returnsError(k Call) bool {
	sig, _ := k.Instr.Common().Value.Type().Underlying().(*types.Signature)
	if k.Instr.Common().IsInvoke() {
		sig, _ = k.Instr.Common().Method.Type().(*types.Signature)
	}
	if sig == nil || sig.Results().Len() == 0 {
		return false
	}
	return eng.IsErrorType(sig.Results().At(sig.Results().Len() - 1).Type())
}

// ignorableCallees: calls whose error result is conventionally not actionable
// (best-effort cleanup, diagnostics, hash writers that never fail).
var ignorableCallees = map[string]bool{
	"os.RemoveAll": true, "os.Remove": true, "(*os.File).Close": true, "fmt.Printf": true, "fmt.Println": true,
	"fmt.Fprintf": true, "fmt.Fprintln": true, "fmt.Fprint": true, "(io.Writer).Write": true, "(io.Closer).Close": true,
	"(hash.Hash).Write": true,
}

// takesTestingT: test helpers compiled into non-test files end in t.Fatal.
func takesTestingT(fn *ssa.Function) bool {
	for fn.Parent() != nil {
		fn = fn.Parent()
	}
	for _, p := range fn.Params {
		if strings.HasSuffix(p.Type().String(), "testing.T") {
			return true
		}
	}
	return false
}

// errDiscExceptions: call sites (function, callee — every call of that callee
// in that function) whose error is deliberately not propagated, confirmed by
// reading; one reason each. Anything else that lets a non-nil error reach a
// success return is a violation.
var errDiscExceptions = map[string]string{
	// presence probes: the error IS the answer "absent"
	"experimental/gittuf.Clone|os.Stat":                                                                 "probe: target directory must not exist",
	"experimental/gittuf.doesFileExist|os.Stat":                                                         "probe: existence test",
	"(*pkg/gitinterface.Repository).AbsoluteReference|os.Stat":                                          "probe: is the name a file under .git",
	"pkg/gitinterface.findGitDirPath|os.Stat":                                                           "probe: walks up until .git exists",
	"pkg/gitinterface.isBareGitDir|os.Stat":                                                             "probe: bare repository layout",
	"(*pkg/gitinterface.Repository).HasObject|(*pkg/gitinterface.executor).executeString":               "probe: cat-file -e exit status is the answer",
	"(*pkg/gitinterface.Repository).KnowsCommit|(*pkg/gitinterface.executor).executeString":             "probe: merge-base --is-ancestor exit status is the answer (both ids were checked to be commits first)",
	"(*pkg/gitinterface.Repository).LookupConfig|(*pkg/gitinterface.executor).execute":                  "probe: exit status 1 of git config --get means unset; other failures are returned",
	"(*pkg/gitinterface.Repository).GetObjectSignature|(*pkg/gitinterface.Repository).ensureIsCommit":   "probe: not a commit → try as tag, which returns its own error",
	"(*experimental/gittuf.Repository).InvokeHooksForStage|(*pkg/gitinterface.Repository).FetchRefSpec": "probe: remote lacks the ref → zero hash handed to the pre-push hook, as git does",
	// advisory persistent cache and in-process memoisation: a failure falls back to the log walk
	"(*internal/cache.Persistent).Commit|(pkg/gitstore.Storer).GetReference":                                          "advisory cache: no previous cache commit",
	"(*internal/cache.Persistent).Commit|(pkg/gitstore.Storer).GetCommitTreeID":                                       "advisory cache: previous tree only used to skip an identical write",
	"(*internal/cache.RSLEntryIndex).GetEntryID|pkg/gitinterface.NewHash":                                             "advisory cache: getter without error result; consumers re-load and validate the entry",
	"(*internal/policy.PolicyVerifier).VerifyRelativeForRef|(*internal/cache.Persistent).Commit":                      "advisory cache: deferred write-back",
	"internal/policy.newSearcher|internal/cache.LoadPersistentCache":                                                  "advisory cache: absent/unreadable cache selects the regular searcher",
	"experimental/gittuf.Clone|(*experimental/gittuf.Repository).PopulateCache":                                       "advisory cache: logged and ignored after a verified clone",
	"(*experimental/gittuf.Repository).GetAutomaticCacheEnablementStatus|(*pkg/gitinterface.Repository).LookupConfig": "advisory cache: unreadable config = disabled",
	"pkg/rsl.GetParentForEntry|(*pkg/rsl.rslCache).getParent":                                                         "memoisation miss: falls through to the validated storage read (C04.stepper-checks)",
	"(*internal/policy.cacheSearcher).FindAttestationsEntryFor|internal/policy.loadRSLReferenceUpdaterEntry":          "cache miss → regular searcher",
	"(*internal/policy.cacheSearcher).FindFirstPolicyEntry|internal/policy.loadRSLReferenceUpdaterEntry":              "cache miss → regular searcher",
	"(*internal/policy.cacheSearcher).FindLatestAttestationsEntry|internal/policy.loadRSLReferenceUpdaterEntry":       "cache miss → regular searcher",
	"(*internal/policy.cacheSearcher).FindLatestPolicyEntry|internal/policy.loadRSLReferenceUpdaterEntry":             "cache miss → regular searcher",
	"(*internal/policy.cacheSearcher).FindPolicyEntriesInRange|(*internal/cache.Persistent).FindPolicyEntriesInRange": "cache miss → regular searcher",
	"(*internal/policy.cacheSearcher).FindPolicyEntriesInRange|internal/policy.loadRSLReferenceUpdaterEntry":          "cache miss → regular searcher",
	"(*internal/policy.cacheSearcher).FindPolicyEntryFor|internal/policy.loadRSLReferenceUpdaterEntry":                "cache miss → regular searcher",
	// try-each loops: a failing candidate is skipped, the count decides (C05.* rules own the logic)
	"(*internal/policy.SignatureVerifier).Verify|internal/signerverifier/gitobject.Verify":                                                     "try-each key: failure = this key did not sign (C05.git-once, C05.success-iff)",
	"(*internal/policy.SignatureVerifier).Verify|internal/signerverifier/dsse.VerifyEnvelope":                                                  "try-each principal: failure = not credited (C05.dedup, C05.success-iff)",
	"internal/policy.verifyGitObjectAndAttestations|(*internal/policy.SignatureVerifier).Verify":                                               "try-each verifier for the tag object: ErrVerifierConditionsUnmet moves on, anything else is returned, exhaustion is an error (C01.tag-object)",
	"internal/policy.verifyGitObjectAndAttestationsUsingVerifiers|(*internal/policy.SignatureVerifier).Verify":                                 "try-each verifier: first success wins, exhaustion is an error (C05.consumer)",
	"(*internal/third_party/go-securesystemslib/dsse.EnvelopeVerifier).Verify|(internal/third_party/go-securesystemslib/dsse.Verifier).KeyID":  "try-each verifier (C05.pae)",
	"(*internal/third_party/go-securesystemslib/dsse.EnvelopeVerifier).Verify|internal/third_party/go-securesystemslib/dsse.SHA256KeyID":       "try-each verifier (C05.pae)",
	"(*internal/third_party/go-securesystemslib/dsse.EnvelopeVerifier).Verify|(internal/third_party/go-securesystemslib/dsse.Verifier).Verify": "try-each verifier: failure = signature not accepted (C05.pae)",
	"(*internal/third_party/go-securesystemslib/dsse.EnvelopeSigner).SignPayload|(internal/third_party/go-securesystemslib/dsse.Signer).KeyID": "keyid is an optional hint in DSSE",
	"internal/third_party/go-securesystemslib/dsse.b64Decode|(*encoding/base64.Encoding).DecodeString":                                         "standard then URL-safe alphabet; the second error is returned",
	// recovery: the violation is kept and decided by the C07 rules
	"(*internal/policy.PolicyVerifier).VerifyRelativeForRef|internal/policy.verifyEntry": "recovery mode (C07.only-if-skipped, C07.exits own this edge)",
	// best-effort cleanup in defers
	"(*experimental/gittuf.Repository).ReconcileLocalRSLWithRemote|(*pkg/gitinterface.Repository).RemoveRemote": "deferred cleanup of the temporary remote",
	"(*experimental/gittuf.Repository).sync|(*pkg/gitinterface.Repository).RemoveRemote":                        "deferred cleanup of the temporary remote",
	"(*experimental/gittuf.Repository).sync|(*pkg/gitinterface.Repository).DeleteReference":                     "deferred cleanup of the temporary tracking ref",
	// getters without an error result over ids validated when the metadata was written
	"(*internal/tuf/v01.Hook).GetBlobID|pkg/gitinterface.NewHash": "getter without error result; AddHook stored a hash produced by WriteBlob",
}

// luaAPIClosure: the Go implementations of hook APIs hand errors to the script
// as Lua values (nil + message); the integer they return is the result count.
func luaAPIClosure(fn *ssa.Function) bool {
	return fn.Parent() != nil && strings.HasPrefix(fn.Parent().Name(), "api") && pkgOf(fn) == "internal/luasandbox"
}

var errDiscCache map[*Ctx]map[ssa.Instruction]*eng.Obligation

// errDiscSite evaluates P3 once per call site and program.
func errDiscSite(c *Ctx, fn *ssa.Function, k Call) *eng.Obligation {
	if errDiscCache == nil {
		errDiscCache = map[*Ctx]map[ssa.Instruction]*eng.Obligation{}
	}
	m := errDiscCache[c]
	if m == nil {
		m = map[ssa.Instruction]*eng.Obligation{}
		errDiscCache[c] = m
	}
	if o, ok := m[k.Instr]; ok {
		return o
	}
	tmp := eng.NewScratchR(c, "X")
	errPropagates(c, tmp, "x", k, absenceSentinels...)
	o := tmp.Obls[0]
	m[k.Instr] = &o
	return &o
}

// calleeCannotFail: a module callee all of whose returns carry the nil error.
func calleeCannotFail(c *Ctx, k Call) bool {
	sc := k.Instr.Common().StaticCallee()
	if sc == nil || sc.Blocks == nil || !eng.InModule(sc) {
		return false
	}
	rets := eng.Returns(sc)
	if len(rets) == 0 {
		return false
	}
	for _, ret := range rets {
		if eng.ClassifyErr(eng.RetErr(ret), ret.Block()) != eng.ErrNil {
			return false
		}
	}
	return true
}

// errDiscipline is the shared body of the <prop>.errors-checked rules: in every
// library function reachable from the property's entry points, each call with
// an error result has that error examined and a non-nil error reaches only
// error returns (absence sentinels handled through errors.Is excepted).
func errDiscipline(entries []string) func(c *Ctx, r *R) {
	return func(c *Ctx, r *R) {
		var es []*ssa.Function
		for _, e := range entries {
			if f := r.Fn(e); f != nil {
				es = append(es, f)
			}
		}
		reach := c.CG().Reachable(es, func(f *ssa.Function) bool { return !errDiscPkgs[pkgOf(f)] })
		var fns []*ssa.Function
		seen := map[*ssa.Function]bool{}
		var add func(f *ssa.Function)
		add = func(f *ssa.Function) {
			if f == nil || seen[f] || f.Blocks == nil || !errDiscPkgs[pkgOf(f)] || takesTestingT(f) {
				return
			}
			seen[f] = true
			fns = append(fns, f)
			for _, a := range f.AnonFuncs {
				add(a)
			}
		}
		for f := range reach {
			add(f)
		}
		sort.Slice(fns, func(i, j int) bool { return fname(fns[i]) < fname(fns[j]) })
		for _, fn := range fns {
			for _, k := range eng.Calls(fn, false) {
				if k.Instr == nil || !returnsError(k) || ignorableCallees[k.Name()] {
					continue
				}
				r.Site(1)
				key := callKey(fn, k)
				if why, ok := errDiscExceptions[fname(fn)+"|"+k.Name()]; ok {
					r.Ok(key, k.Pos(), "listed exception: %s", why)
					continue
				}
				if luaAPIClosure(fn) {
					r.Ok(key, k.Pos(), "hook API closure: the error is returned to the script as a Lua value")
					continue
				}
				if calleeCannotFail(c, k) {
					r.Ok(key, k.Pos(), "%s has no failing return", k.Name())
					continue
				}
				o := errDiscSite(c, fn, k)
				switch o.Status {
				case eng.Discharged:
					r.Ok(key, k.Pos(), "%s", o.Msg)
				case eng.Violated:
					r.Bad(key, k.Pos(), "%s", o.Msg)
				default:
					r.Undecided(key, k.Pos(), "%s", o.Msg)
				}
			}
		}
	}
}

func init() {
	type ed struct {
		prop    string
		floor   int
		entries []string
		what    string
	}
	G := "(*experimental/gittuf.Repository)."
	PV := "(*internal/policy.PolicyVerifier)."
	for _, e := range []ed{
		{"C01", 300, []string{PV + "VerifyRef", PV + "VerifyRefFull", PV + "VerifyRefFromEntry", PV + "VerifyRelativeForRef", G + "VerifyRef", G + "VerifyRefFromEntry"}, "full / latest-only / from-entry verification"},
		{"C02", 100, []string{"internal/policy.LoadState", "internal/policy.LoadCurrentState", "internal/policy.LoadFirstState", "(*internal/policy.State).Verify", "(*internal/policy.State).VerifyNewState"}, "loading and chaining policy states"},
		{"C03", 40, []string{G + "RecordRSLEntryForReference", G + "RecordRSLEntryForReferenceAtTarget", G + "RecordRSLAnnotation", G + "SkipAllInvalidReferenceEntriesForRef", "(*pkg/rsl.ReferenceEntry).Commit", "(*pkg/rsl.AnnotationEntry).Commit", "(*pkg/rsl.PropagationEntry).Commit", "(*pkg/rsl.ReferenceEntry).CommitUsingSpecificKey", "(*pkg/rsl.AnnotationEntry).CommitUsingSpecificKey", "(*pkg/rsl.PropagationEntry).CommitUsingSpecificKey"}, "recording operations"},
		{"C05", 10, []string{"(*internal/policy.SignatureVerifier).Verify"}, "signature counting"},
		{"C06", 10, []string{"(*internal/policy.State).FindVerifiersForPath", "(*internal/policy.State).preprocess"}, "the delegation walk"},
		{"C09", 40, []string{"internal/policy.getApproverAttestationAndKeyIDs", "(*internal/attestations.Attestations).GetReferenceAuthorizationFor", "(*internal/attestations.Attestations).GetGitHubPullRequestApprovalAttestationFor", "internal/attestations.LoadAttestationsForEntry", G + "AddReferenceAuthorization", G + "RemoveReferenceAuthorization", G + "AddGitHubPullRequestApprover", G + "DismissGitHubPullRequestApprover"}, "reading, validating and recording approvals"},
		{"C12", 150, []string{"internal/policy.Apply", "internal/policy.Discard", G + "ApplyPolicy", G + "DiscardPolicy", G + "StagePolicy", G + "AddRootKey", G + "RemoveRootKey", G + "UpdateRootThreshold", G + "SignRoot"}, "staging, applying and discarding policy; root mutators"},
		{"C13", 60, []string{"internal/tuf/migrations.MigrateRootMetadataV01ToV02", "internal/tuf/migrations.MigrateTargetsMetadataV01ToV02", G + "AddDelegation", G + "UpdateDelegation", G + "ReorderDelegations", G + "RemoveDelegation", G + "AddPrincipalToTargets", G + "UpdatePrincipalInTargets", G + "RemovePrincipalFromTargets", G + "UpdateTopLevelTargetsThreshold", G + "AddTopLevelTargetsKey", G + "RemoveTopLevelTargetsKey", G + "AddGlobalRuleThreshold", G + "UpdateGlobalRuleThreshold", G + "RemoveGlobalRule", "(*internal/tuf/v02.RootMetadata).UnmarshalJSON", "(*internal/tuf/v02.Delegations).UnmarshalJSON", "(*internal/tuf/v01.RootMetadata).UnmarshalJSON"}, "metadata edits, decoding and migration"},
		{"C14", 8, []string{"pkg/rsl.ParseEntryText", "pkg/rsl.GetEntry"}, "parsing entries"},
		{"C15", 100, []string{G + "ReconcileLocalRSLWithRemote", G + "Sync", G + "PushRSL", G + "PullRSL"}, "reconcile and synchronisation"},
		{"C16", 100, []string{"(*internal/policy.State).Commit", "internal/policy.Apply", "(*internal/attestations.Attestations).Commit", "internal/policy.ReconcileStaging", "internal/policy.Discard"}, "multi-write operations"},
		{"C18", 40, []string{"internal/propagation.PropagateChangesFromUpstreamRepository", G + "PropagateChangesFromUpstreamRepositories"}, "propagation"},
		{"C19", 200, []string{PV + "VerifyMergeable", PV + "VerifyMergeableForCommit", G + "VerifyMergeable"}, "mergeability prediction"},
		{"C20", 20, []string{"internal/luasandbox.NewLuaEnvironment", "(*internal/luasandbox.LuaEnvironment).RunScript", G + "InvokeHooksForStage"}, "hook selection and execution"},
	} {
		e := e
		reg(&eng.Rule{ID: e.prop + ".errors-checked", Prop: e.prop, Floor: e.floor,
			Doc: "In every library function reachable (module call graph, interface calls resolved over module implementers) from the entry points of " + e.what + ", each call that returns an error has the error examined, and a non-nil error reaches only error returns — except absence sentinels handled through errors.Is and the enumerated, individually justified exceptions (probes, advisory cache, try-each loops, deferred cleanup). A dropped or inverted error test turns a failure into a success.",
			Run: errDiscipline(e.entries)})
	}
}
