package rules

import (
	"go/token"
	"go/types"
	"strings"

	"golang.org/x/tools/go/ssa"

	"verif/checker/eng"
)

func init() {
	reg(&eng.Rule{ID: "C06.matches-exact", Prop: "C06", Floor: 12,
		Doc: "Every implementation of Matches (rule patterns of both schemas, both global rule kinds) is an exact existence scan: it returns true only where fnmatch.Match(pattern, target, 0) holds for an element of the rule's own Paths, each pattern is put to that test unconditionally, and false is returned only after all patterns were tested. The four siblings must agree.",
		Run: c06MatchesExact})

	Meta["C06"] = PropMeta{
		Explanation: "Static necessary conditions of 'rules consulted for a path are exactly those of the documented pre-order delegation walk', decided on every CFG path of State.findVerifiersForPathIfProtected (and its sibling gittuf.(*Repository).ListRules): a verifier is produced only on the true edge of delegation.Matches(path) and carries that same delegation's ID, threshold and principal ids; a delegated rule file is expanded only under Matches ∧ !seenRoles[ID] ∧ HasTargetsRole(ID) and is marked seen before the next rule is dequeued (termination: seenRoles grows strictly over a finite set); the delegated group is prepended (depth first); a matching terminating rule leaves only the current group; the inner loop stops before the trailing allow rule; 'unprotected' is reported only when no verifier was found. Equality with the reference walk over all graphs/paths is NOT decided.",
		Decides:     []string{"match gates verifier creation", "verifier fields derive from the matched delegation", "expand-once guards and seen marking", "depth-first prepend", "terminating rule cuts only its own group", "allow rule never consulted", "unprotected iff no verifiers", "sibling agreement with ListRules"},
		NotDecided:  []string{"extensional equality with the documented walk for every delegation graph and path", "glob matching semantics of Matches"},
	}
	reg(&eng.Rule{ID: "C06.match-gates", Prop: "C06", Floor: 5,
		Doc: "In findVerifiersForPathIfProtected a SignatureVerifier is appended to the result only on the true edge of delegation.Matches(path) (path = the parameter), and its name/threshold/principals derive from that same delegation's ID()/GetThreshold()/GetPrincipalIDs().",
		Run: c06MatchGates})
	reg(&eng.Rule{ID: "C06.enter-once", Prop: "C06", Floor: 4,
		Doc: "Expansion of a delegated rule file (GetTargetsMetadata(delegation.ID(), …)) is reached only through Matches true ∧ not in seenRoles ∧ HasTargetsRole(ID) true, and seenRoles[ID] = true is executed on every path from the expansion to the next dequeue.",
		Run: c06EnterOnce})
	reg(&eng.Rule{ID: "C06.pre-order", Prop: "C06", Floor: 3,
		Doc: "The delegated file's rules are pushed in front of the pending groups (append([][]Rule{delegated.GetRules()}, pending...)); a matching rule with IsLastTrustedInRuleFile() leaves only the current group and only after its delegated file was queued; the walk returns only when no group is pending.",
		Run: c06PreOrder})
	reg(&eng.Rule{ID: "C06.allow-rule-skipped", Prop: "C06", Floor: 1,
		Doc: "The per-group loop runs only while len(group) > 1, so the trailing allow rule is never consulted (sound together with C13.allow-last).",
		Run: c06AllowSkipped})
	reg(&eng.Rule{ID: "C06.unprotected", Prop: "C06", Floor: 2,
		Doc: "verifyGitObjectAndAttestations reports 'unprotected' (nil error without verification) only on the edge len(verifiers) == 0; every other nil-error return follows a successful verification or a trusted-verifier name match among the verifiers found.",
		Run: c06Unprotected})
	reg(&eng.Rule{ID: "C06.siblings", Prop: "C06", Floor: 4,
		Doc: "ListRules agrees with the walker: it skips AllowRuleName, guards expansion by seenRoles and HasTargetsRole, marks seen, and prepends the delegated rules (depth first).",
		Run: c06Siblings})
}

func c06MatchGates(c *Ctx, r *R) {
	fn := r.Fn(fnFVFPIP)
	if fn == nil {
		return
	}
	var matches []Call
	for _, k := range eng.Calls(fn, false) {
		if k.IsMethodOf("Matches", "Rule") {
			matches = append(matches, k)
		}
	}
	mk, ok := oneCall(r, "anchor-matches", fn, matches, "Rule.Matches")
	if !ok {
		return
	}
	r.Site(1)
	r.Check(eng.PParam("path")(mk.Arg(0)), "matches-path", mk.Pos(), "delegation.Matches(path) tests the requested path", "Matches is not applied to the path parameter")
	deleg := mk.Recv()
	isDeleg := sameObj(deleg)
	trueEdges := eng.BoolEdges(fn, eng.PSame(mk.Value()), true)
	allocs := allocsOf(fn, "SignatureVerifier")
	if len(allocs) != 1 {
		r.Undecided("anchor-alloc", fn.Pos(), "expected one SignatureVerifier literal in the walker, found %d", len(allocs))
		return
	}
	al := allocs[0]
	// appended only under Matches
	napp := 0
	for _, k := range eng.Calls(fn, false) {
		if k.Name() != "builtin.append" || !strings.HasSuffix(k.Instr.Common().Args[0].Type().String(), "SignatureVerifier") {
			continue
		}
		napp++
		r.Site(1)
		els := eng.VariadicElems(k.Instr.Common().Args[1])
		fromAlloc := len(els) == 1
		for _, e := range els {
			for _, root := range eng.Roots(e) {
				if root != ssa.Value(al) {
					fromAlloc = false
				}
			}
		}
		r.Check(fromAlloc, "appended-is-built-here", k.Pos(), "the appended verifier is the one built for this delegation", "a verifier other than the one built for the matching delegation is appended")
		mustPass(c, r, "only-if-matches", fn, isInstr(k.Instr), eng.NewCut().AddEdges(trueEdges...),
			"a verifier is produced only when delegation.Matches(path) is true",
			"a verifier can be produced for a delegation that does not match the path")
	}
	r.Check(napp == 1, "single-append", fn.Pos(), "one append site for verifiers", "expected exactly one place where verifiers are appended")
	st := allocStores(al)
	r.Check(st["name"] != nil && eng.PMethod("ID", isDeleg)(st["name"]), "name-from-delegation", al.Pos(), "verifier.name = delegation.ID()", "verifier name is not the matched delegation's ID()")
	r.Check(st["threshold"] != nil && eng.PMethod("GetThreshold", isDeleg)(st["threshold"]), "threshold-from-delegation", al.Pos(), "verifier.threshold = delegation.GetThreshold()", "verifier threshold is not the matched delegation's GetThreshold() (another rule's or a constant threshold would be enforced)")
	_, hasEx := st["verifyExhaustively"]
	r.Check(!hasEx, "not-exhaustive", al.Pos(), "delegation verifiers are not exhaustive", "a delegation verifier is built with verifyExhaustively set")
	// principals: appended elements are allPrincipals[id] for id ranging over delegation.GetPrincipalIDs().Contents()
	okP := false
	for _, k := range eng.Calls(fn, false) {
		if k.Name() != "builtin.append" || !strings.HasSuffix(k.Instr.Common().Args[0].Type().String(), "tuf.Principal") {
			continue
		}
		els := eng.VariadicElems(k.Instr.Common().Args[1])
		for _, e := range els {
			for _, root := range eng.Roots(e) {
				lk, ok := root.(*ssa.Lookup)
				if !ok {
					continue
				}
				// index derives from a range over Contents() of GetPrincipalIDs() of the delegation
				for _, ir := range eng.Roots(lk.Index) {
					if u, ok := ir.(*ssa.UnOp); ok {
						if ia, ok := u.X.(*ssa.IndexAddr); ok {
							if eng.PMethod("Contents", eng.PMethod("GetPrincipalIDs", isDeleg))(ia.X) {
								okP = true
							}
						}
					}
				}
			}
		}
	}
	r.Check(okP, "principals-from-delegation", al.Pos(), "verifier principals are looked up from delegation.GetPrincipalIDs()", "verifier principals do not derive from the matched delegation's GetPrincipalIDs()")
}

func c06EnterOnce(c *Ctx, r *R) {
	fn := r.Fn(fnFVFPIP)
	if fn == nil {
		return
	}
	var matches []Call
	for _, k := range eng.Calls(fn, false) {
		if k.IsMethodOf("Matches", "Rule") {
			matches = append(matches, k)
		}
	}
	if len(matches) != 1 {
		r.Undecided("anchor-matches", fn.Pos(), "expected one Matches call")
		return
	}
	mk := matches[0]
	isDeleg := sameObj(mk.Recv())
	idOfDeleg := eng.PMethod("ID", isDeleg)
	// the expansion call: GetTargetsMetadata(delegation.ID(), …)
	var exp []Call
	for _, k := range eng.CallsTo(fn, false, "(*internal/policy.State).GetTargetsMetadata") {
		if idOfDeleg(k.Arg(0)) {
			exp = append(exp, k)
		}
	}
	ek, ok := oneCall(r, "anchor-expand", fn, exp, "GetTargetsMetadata(delegation.ID(), …)")
	if !ok {
		return
	}
	r.Site(1)
	errPropagates(c, r, "expand-error", ek)
	trueEdges := eng.BoolEdges(fn, eng.PSame(mk.Value()), true)
	mustPass(c, r, "expand-only-if-matches", fn, isInstr(ek.Instr), eng.NewCut().AddEdges(trueEdges...),
		"a delegated rule file is entered only through a rule that matches the path",
		"a delegated rule file can be entered through a rule that does not match the path")
	// !seen: comma-ok lookup on map[string]bool with key delegation.ID(), false edge
	seenLookup := func(v ssa.Value) bool {
		ex, ok := v.(*ssa.Extract)
		if !ok || ex.Index != 1 {
			return false
		}
		lk, ok := ex.Tuple.(*ssa.Lookup)
		if !ok {
			return false
		}
		mt, ok := lk.X.Type().Underlying().(*types.Map)
		if !ok {
			return false
		}
		if bt, ok := mt.Elem().(*types.Basic); !ok || bt.Kind() != types.Bool {
			return false
		}
		return idOfDeleg(lk.Index)
	}
	seenVal := func(v ssa.Value) bool { // non comma-ok form: seenRoles[id] as bool
		lk, ok := v.(*ssa.Lookup)
		return ok && !lk.CommaOk && idOfDeleg(lk.Index)
	}
	notSeen := append(eng.BoolEdges(fn, seenLookup, false), eng.BoolEdges(fn, seenVal, false)...)
	if len(notSeen) == 0 {
		r.Bad("expand-only-if-unseen", ek.Pos(), "no seenRoles[delegation.ID()] test before expanding a delegated rule file: cyclic delegations would not terminate and diamonds would be entered twice")
	} else {
		mustPass(c, r, "expand-only-if-unseen", fn, isInstr(ek.Instr), eng.NewCut().AddEdges(notSeen...),
			"a delegated rule file is entered only if not already seen",
			"a delegated rule file can be entered although already seen (non-termination on cycles / double entry)")
	}
	has := eng.BoolEdges(fn, eng.PCall("(*internal/policy.State).HasTargetsRole", 0, idOfDeleg), true)
	if len(has) == 0 {
		r.Bad("expand-only-if-exists", ek.Pos(), "no HasTargetsRole(delegation.ID()) test before loading the delegated rule file")
	} else {
		mustPass(c, r, "expand-only-if-exists", fn, isInstr(ek.Instr), eng.NewCut().AddEdges(has...),
			"a delegated rule file is loaded only if it exists", "delegated rule file loaded without the HasTargetsRole test")
	}
	// seen marking: MapUpdate on map[string]bool with key delegation.ID() and value true, on every path from the
	// successful expansion to the next Matches (next dequeue) or return
	var marks []ssa.Instruction
	for _, b := range fn.Blocks {
		for _, in := range b.Instrs {
			if mu, ok := in.(*ssa.MapUpdate); ok {
				if mt, ok := mu.Map.Type().Underlying().(*types.Map); ok {
					if bt, ok := mt.Elem().(*types.Basic); ok && bt.Kind() == types.Bool && idOfDeleg(mu.Key) {
						if v, isC := eng.ConstBool(mu.Value); isC && v {
							marks = append(marks, in)
						}
					}
				}
			}
		}
	}
	if len(marks) == 0 {
		r.Bad("marked-seen", ek.Pos(), "expanded rule files are never marked in seenRoles: the walk does not terminate on cyclic delegations")
		return
	}
	cut := eng.NewCut().AddInstrs(marks...)
	okCut := eng.NewCut()
	ek.OKPoints(okCut)
	bad := false
	for e := range okCut.Edges {
		p := eng.FindPath(e.To(), 0, func(in ssa.Instruction) bool {
			if in == ssa.Instruction(mk.Value()) {
				return true
			}
			_, isRet := in.(*ssa.Return)
			return isRet
		}, cut)
		if p != nil {
			bad = true
			r.Bad("marked-seen", pos(p.Target), "after expanding a delegated rule file the walk can dequeue the next rule (or return) without marking the file seen; witness %s", c.DescribePath(p))
		}
	}
	if !bad {
		r.Ok("marked-seen", pos(marks[0]), "seenRoles[delegation.ID()] = true on every path from the expansion to the next dequeue")
	}
}

func c06PreOrder(c *Ctx, r *R) {
	fn := r.Fn(fnFVFPIP)
	if fn == nil {
		return
	}
	deleg := eng.PCall("(*internal/policy.State).GetTargetsMetadata", 0)
	getRules := eng.PMethod("GetRules", deleg)
	// the prepend
	found := false
	for _, k := range eng.Calls(fn, false) {
		if k.Name() != "builtin.append" || !strings.HasSuffix(k.Instr.Common().Args[0].Type().String(), "[][]"+eng.Module+"/internal/tuf.Rule") {
			continue
		}
		r.Site(1)
		first := eng.VariadicElems(k.Instr.Common().Args[0])
		if len(first) == 1 && getRules(first[0]) {
			// second arg: the pending groups (a phi / slice of the [][]Rule variable), not a fresh literal
			found = true
			r.Ok("prepend", k.Pos(), "delegated rules are pushed in front of the pending groups (depth first)")
		} else {
			r.Bad("prepend", k.Pos(), "the delegated rule file's rules are not prepended as `append([][]Rule{delegated.GetRules()}, pending...)`: the walk is no longer pre-order (e.g. breadth first)")
		}
	}
	if !found {
		r.Check(false, "prepend-present", fn.Pos(), "", "no `append([][]Rule{delegated.GetRules()}, pending...)` found in the walker")
	}
	// terminating rule
	var last []Call
	for _, k := range eng.Calls(fn, false) {
		if k.IsMethodOf("IsLastTrustedInRuleFile", "Rule") {
			last = append(last, k)
		}
	}
	if lk, ok := oneCall(r, "anchor-last", fn, last, "IsLastTrustedInRuleFile"); ok {
		te := eng.BoolEdges(fn, eng.PSame(lk.Value()), true)
		// from the true edge no Return is reachable without passing the `len(pending) == 0` test
		pend := eng.RelEdges(fn, token.EQL, eng.PLen(func(v ssa.Value) bool {
			return strings.HasSuffix(v.Type().String(), "[][]"+eng.Module+"/internal/tuf.Rule")
		}), eng.PInt(0))
		r.Check(len(pend) > 0, "returns-when-empty", fn.Pos(), "the walk returns when no group is pending", "no `len(pendingGroups) == 0` exit test")
		okAll := len(te) > 0
		for _, e := range te {
			if p := eng.FindPath(e.To(), 0, isSuccessReturn, eng.NewCut().AddEdges(pend...)); p != nil {
				okAll = false
				r.Bad("terminating-cuts-only-group", pos(p.Target), "a matching terminating rule ends the whole walk instead of only its own rule file; witness %s", c.DescribePath(p))
			}
			// and must not continue with the next rule of the same group: the Matches call is not reachable without passing a dequeue of the outer list
			// (approximated: from the true edge, the inner-loop test len(group) > 1 is not reachable before the outer dequeue `pending[1:]`)
		}
		if okAll {
			r.Ok("terminating-cuts-only-group", lk.Pos(), "a matching terminating rule leaves the current group and continues with pending groups")
		}
		// only after its delegated file was queued: the test is dominated by the prepend
		for _, k := range eng.Calls(fn, false) {
			if k.Name() == "builtin.append" && strings.HasSuffix(k.Instr.Common().Args[0].Type().String(), "[][]"+eng.Module+"/internal/tuf.Rule") {
				r.Check(k.Block().Dominates(lk.Block()), "terminate-after-queue", lk.Pos(), "termination is tested after the delegated file was queued", "IsLastTrustedInRuleFile is tested before the delegated rule file is queued")
			}
		}
		// terminating must skip remaining rules of this group: from the true edge, Matches is reachable only after passing an outer dequeue (Slice of [][]Rule)
		var mk ssa.Instruction
		for _, k := range eng.Calls(fn, false) {
			if k.IsMethodOf("Matches", "Rule") {
				mk = k.Instr
			}
		}
		var outerDeq []ssa.Instruction
		for _, b := range fn.Blocks {
			for _, in := range b.Instrs {
				if sl, ok := in.(*ssa.Slice); ok && strings.HasSuffix(sl.Type().String(), "[][]"+eng.Module+"/internal/tuf.Rule") && sl.Low != nil {
					outerDeq = append(outerDeq, in)
				}
			}
		}
		if mk != nil && len(outerDeq) > 0 {
			bad := false
			for _, e := range te {
				if p := eng.FindPath(e.To(), 0, isInstr(mk), eng.NewCut().AddInstrs(outerDeq...)); p != nil {
					bad = true
					r.Bad("terminating-skips-rest", pos(p.Target), "after a matching terminating rule later rules of the same rule file are still consulted; witness %s", c.DescribePath(p))
				}
			}
			if !bad {
				r.Ok("terminating-skips-rest", lk.Pos(), "later rules of the same rule file are not consulted after a matching terminating rule")
			}
		}
	}
}

func c06AllowSkipped(c *Ctx, r *R) {
	fn := r.Fn(fnFVFPIP)
	if fn == nil {
		return
	}
	group := func(v ssa.Value) bool {
		return strings.HasSuffix(v.Type().String(), "[]"+eng.Module+"/internal/tuf.Rule") && !strings.HasPrefix(v.Type().String(), "[][]")
	}
	gt1 := eng.RelEdges(fn, token.GTR, eng.PLen(group), eng.PInt(1))
	var mk ssa.Instruction
	for _, k := range eng.Calls(fn, false) {
		if k.IsMethodOf("Matches", "Rule") {
			mk = k.Instr
		}
	}
	if mk == nil {
		r.Undecided("anchor", fn.Pos(), "no Matches call")
		return
	}
	if len(gt1) == 0 {
		r.Bad("bound", fn.Pos(), "the per-rule-file loop does not run under `len(group) > 1`: the trailing allow rule would be consulted (every path would appear protected by / delegated through it)")
		return
	}
	mustPass(c, r, "bound", fn, isInstr(mk), eng.NewCut().AddEdges(gt1...), "a rule is consulted only while more than one rule (the allow rule) remains in its group", "a rule can be consulted when it is the last of its group (the allow rule)")
}

func c06Unprotected(c *Ctx, r *R) {
	fn := r.Fn(fnVGOA)
	if fn == nil {
		return
	}
	uv := eng.CallsTo(fn, false, fnVGOAUV)
	if len(uv) != 1 {
		r.Undecided("anchor", fn.Pos(), "expected one call of verifyGitObjectAndAttestationsUsingVerifiers")
		return
	}
	verifiers := eng.PCall(fnFVFP, 0)
	unprot := eng.RelEdges(fn, token.EQL, eng.PLen(verifiers), eng.PInt(0))
	r.Check(len(unprot) > 0, "unprotected-test", fn.Pos(), "len(verifiers) == 0 is the 'unprotected' test", "no len(verifiers)==0 test: unprotected namespaces are no longer distinguished")
	okCut := eng.NewCut().AddEdges(unprot...)
	uv[0].OKPoints(okCut)
	// trusted verifier shortcut: verifier.Name() == options.trustedVerifier true edge
	tv := eng.RelEdges(fn, token.EQL, eng.PMethod("Name", nil), eng.PField("trustedVerifier", nil))
	okCut.AddEdges(tv...)
	for _, ret := range eng.Returns(fn) {
		if eng.ClassifyErr(eng.RetErr(ret), ret.Block()) == eng.ErrNonNil {
			continue
		}
		r.Site(1)
		if p := eng.FindPathFromEntry(fn, isInstr(ret), okCut); p != nil {
			r.Bad("success-needs-verification", pos(ret), "a nil-error return is reachable for a path that has verifiers without any verification (neither verification succeeded, nor is a previously successful verifier among them); witness %s", c.DescribePath(p))
		} else {
			r.Ok("success-needs-verification", pos(ret), "nil-error return only if unprotected, verified, or verified earlier by a verifier that is among those found")
		}
	}
	// the trusted-verifier name is compared against verifiers found for THIS path
	for _, e := range tv {
		iff := e.From.Instrs[len(e.From.Instrs)-1].(*ssa.If)
		bo := iff.Cond.(*ssa.BinOp)
		okv := false
		for _, side := range []ssa.Value{bo.X, bo.Y} {
			for _, root := range eng.Roots(side) {
				if k, _, ok := eng.RootCall(root); ok && k.Method() == "Name" {
					// receiver is an element of verifiers
					for _, rr := range eng.Roots(k.Recv()) {
						if u, ok := rr.(*ssa.UnOp); ok {
							if ia, ok := u.X.(*ssa.IndexAddr); ok && verifiers(ia.X) {
								okv = true
							}
						}
					}
				}
			}
		}
		r.Check(okv, "trusted-among-found", pos(iff), "the trusted verifier name is matched against the verifiers found for this path", "the trusted-verifier shortcut does not compare against the verifiers found for this path")
	}
}

func c06Siblings(c *Ctx, r *R) {
	fn := r.Fn("(*experimental/gittuf.Repository).ListRules")
	if fn == nil {
		return
	}
	// skips AllowRuleName: at least two comparisons ID() == AllowRuleName guarding the appends
	allow := eng.RelEdges(fn, token.EQL, eng.PMethod("ID", nil), eng.PStr("gittuf-allow-rule"))
	r.Check(len(allow) >= 2, "skips-allow", fn.Pos(), "ListRules skips the allow rule at top level and in delegated files", "ListRules no longer skips the allow rule in both places (sibling disagreement with the walker)")
	exp := []Call{}
	for _, k := range eng.CallsTo(fn, false, "(*internal/policy.State).GetTargetsMetadata") {
		if eng.PMethod("ID", nil)(k.Arg(0)) {
			exp = append(exp, k)
		}
	}
	ek, ok := oneCall(r, "anchor-expand", fn, exp, "GetTargetsMetadata(rule.ID(), …)")
	if !ok {
		return
	}
	seenLookup := func(v ssa.Value) bool {
		ex, ok := v.(*ssa.Extract)
		if !ok || ex.Index != 1 {
			return false
		}
		lk, ok := ex.Tuple.(*ssa.Lookup)
		return ok && eng.PMethod("ID", nil)(lk.Index)
	}
	notSeen := eng.BoolEdges(fn, seenLookup, false)
	if len(notSeen) == 0 {
		r.Bad("seen-guard", ek.Pos(), "ListRules expands delegated files without a seenRoles test (non-termination on cycles; disagrees with the walker)")
	} else {
		mustPass(c, r, "seen-guard", fn, isInstr(ek.Instr), eng.NewCut().AddEdges(notSeen...), "expansion guarded by !seenRoles[ID]", "ListRules can expand a rule file already seen")
	}
	has := eng.BoolEdges(fn, eng.PCall("(*internal/policy.State).HasTargetsRole", 0, eng.PMethod("ID", nil)), true)
	if len(has) == 0 {
		r.Bad("exists-guard", ek.Pos(), "ListRules loads a delegated file without HasTargetsRole")
	} else {
		mustPass(c, r, "exists-guard", fn, isInstr(ek.Instr), eng.NewCut().AddEdges(has...), "expansion guarded by HasTargetsRole", "ListRules loads a delegated file without the HasTargetsRole test")
	}
	marked := false
	for _, b := range fn.Blocks {
		for _, in := range b.Instrs {
			if mu, ok := in.(*ssa.MapUpdate); ok && eng.PMethod("ID", nil)(mu.Key) {
				if v, isC := eng.ConstBool(mu.Value); isC && v {
					marked = true
				}
			}
		}
	}
	r.Check(marked, "marks-seen", ek.Pos(), "ListRules marks expanded files seen", "ListRules never marks expanded files in seenRoles")
	// prepend: append(localDelegations, delegationsToSearch...) where first arg is the freshly built local slice
	pre := false
	for _, k := range eng.Calls(fn, false) {
		if k.Name() != "builtin.append" || !strings.HasSuffix(k.Instr.Common().Args[0].Type().String(), "DelegationWithDepth") {
			continue
		}
		// variadic spread form: second arg is a slice value (not built at the call site)
		if eng.VariadicElems(k.Instr.Common().Args[1]) == nil {
			pre = true
		}
	}
	r.Check(pre, "prepends", fn.Pos(), "delegated rules are placed in front of the pending rules (depth first)", "ListRules no longer prepends delegated rules (pre-order lost)")
}

func c06MatchesExact(c *Ctx, r *R) {
	for _, spec := range []string{"(*internal/tuf/v01.Delegation).Matches", "(*internal/tuf/v02.Delegation).Matches", "(*internal/tuf/v01.GlobalRuleThreshold).Matches", "(*internal/tuf/v01.GlobalRuleBlockForcePushes).Matches"} {
		fn := r.Fn(spec)
		if fn == nil {
			continue
		}
		r.Site(1)
		short := strings.TrimSuffix(strings.TrimPrefix(spec, "(*internal/tuf/"), ").Matches")
		var tests []ssa.Instruction
		okArgs := true
		for _, k := range eng.Calls(fn, false) {
			if !strings.HasSuffix(k.Name(), "fnmatch.Match") {
				continue
			}
			tests = append(tests, k.Instr)
			// Match(pattern element of receiver.Paths, the parameter, 0)
			pat := false
			for _, root := range eng.Roots(k.Arg(0)) {
				if u, ok := root.(*ssa.UnOp); ok {
					if ia, ok := u.X.(*ssa.IndexAddr); ok && eng.PField("Paths", nil)(ia.X) {
						pat = true
					}
				}
			}
			flags, isC := eng.ConstInt(k.Arg(2))
			if !pat || len(fn.Params) < 2 || eng.Strip(k.Arg(1)) != ssa.Value(fn.Params[1]) || !isC || flags != 0 {
				okArgs = false
			}
		}
		r.Check(len(tests) == 1 && okArgs, "matcher:"+short, fn.Pos(), "fnmatch.Match(pattern of Paths, target, 0)", "Matches does not test fnmatch.Match(<element of the rule's Paths>, <the target>, 0)")
		isMatch := func(v ssa.Value) bool {
			k, _, ok := eng.RootCall(v)
			return ok && strings.HasSuffix(k.Name(), "fnmatch.Match")
		}
		existsScanT(c, r, "scan:"+short, fn, eng.PField("Paths", nil), []eng.Pat{isMatch}, short+".Matches", tests)
	}
}
