package rules

import (
	"fmt"
	"sort"
	"strings"

	"golang.org/x/tools/go/ssa"

	"verif/checker/eng"
)

// dtable is one decision block checked against its specification table
// (eng.WalkDecision under every consistent truth assignment of the atoms).
type dtable struct {
	key        string
	fn         *ssa.Function
	start      *ssa.BasicBlock
	idx        int
	names      []string
	atoms      eng.AtomFn
	consistent func(a map[string]bool) bool
	outcome    eng.OutcomeFn
	spec       func(a map[string]bool) string
	seed       func(ssa.Value) (int8, bool)
	what       string
}

// retLabel names a return: "ok" for a nil error, "err:<Sentinel>" (or "err")
// otherwise; functions without error result: "ret:true"/"ret:false" for
// constant booleans, "ret" otherwise.
func retLabel(in ssa.Instruction) string {
	ret, ok := in.(*ssa.Return)
	if !ok {
		return ""
	}
	ev := eng.RetErr(ret)
	if ev == nil {
		if len(ret.Results) == 1 {
			if b, isC := eng.ConstBool(ret.Results[0]); isC {
				return fmt.Sprintf("ret:%v", b)
			}
		}
		return "ret"
	}
	if eng.ClassifyErr(ev, ret.Block()) == eng.ErrNil {
		return "ok"
	}
	var ss []string
	for s := range eng.Sentinels(ev) {
		ss = append(ss, s)
	}
	sort.Strings(ss)
	if len(ss) == 0 {
		return "err"
	}
	return "err:" + strings.Join(ss, "+")
}

func runTable(c *Ctx, r *R, t dtable) bool {
	if t.start == nil {
		r.Bad(t.key, t.fn.Pos(), "%s: decision block not found (anchor changed)", t.what)
		return false
	}
	n, bad := 0, 0
	var firstBad []string
	for m := 0; m < 1<<len(t.names); m++ {
		a := map[string]bool{}
		for i, nm := range t.names {
			a[nm] = m&(1<<i) != 0
		}
		if t.consistent != nil && !t.consistent(a) {
			continue
		}
		n++
		got, err := eng.WalkDecisionSeeded(t.start, t.idx, t.atoms, a, t.outcome, t.seed)
		if err != nil {
			r.Undecided(t.key, t.fn.Pos(), "%s: the decision block contains a condition the table does not know: %v (a new condition? extend the atom table and the specification)", t.what, err)
			return false
		}
		want := t.spec(a)
		if got != want {
			bad++
			if len(firstBad) < 3 {
				var on []string
				for _, nm := range t.names {
					if a[nm] {
						on = append(on, nm)
					}
				}
				firstBad = append(firstBad, fmt.Sprintf("{%s}: code gives %s, required %s", strings.Join(on, ","), got, want))
			}
		}
	}
	if bad > 0 {
		r.Bad(t.key, t.fn.Pos(), "%s: the decision differs from its specification on %d of %d assignments, e.g. %s", t.what, bad, n, strings.Join(firstBad, "; "))
		return false
	}
	r.Ok(t.key, t.fn.Pos(), "%s: decision equals its specification on all %d consistent assignments of %d atoms", t.what, n, len(t.names))
	return true
}

// blockOfFirst returns the block of the first instruction (in block order)
// whose value satisfies p.
func blockOfFirst(fn *ssa.Function, p func(ssa.Instruction) bool) (*ssa.BasicBlock, int) {
	for _, b := range fn.Blocks {
		for i, in := range b.Instrs {
			if p(in) {
				return b, i
			}
		}
	}
	return nil, 0
}

func callOutcome(m map[string]string) eng.OutcomeFn {
	return func(in ssa.Instruction) string {
		if l := retLabel(in); l != "" {
			return l
		}
		if ci, ok := in.(ssa.CallInstruction); ok {
			k := Call{Instr: ci, Callee: eng.CalleeOf(ci)}
			if l, ok := m[k.Name()]; ok {
				return l
			}
			if l, ok := m["."+k.Method()]; ok && k.Method() != "" {
				return l
			}
		}
		return ""
	}
}
