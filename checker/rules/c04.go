package rules

import (
	"go/token"
	"go/types"
	"sort"
	"strings"

	"golang.org/x/tools/go/ssa"

	"verif/checker/eng"
)

func init() {
	Meta["C04"] = PropMeta{
		Explanation: "Static necessary conditions of 'RSL queries match a plain scan and fail closed on tampering': (1) there is exactly one function that steps from an entry to its parent and every log walker uses it; (2) on every path on which that stepper returns a parent read from storage it has rejected a second parent, a malformed parent and a break in numbering, and only validated links enter the parent cache; (3) every caller of the stepper / entry readers propagates their errors, the only handled sentinel being end-of-chain; (4) every query condition field is consulted by the reader and each option constructor writes exactly its own field; (5) annotations are accumulated on both walk phases. Decided over all CFG paths of the anchored functions; reader ≡ reference-scan equivalence over logs × options is NOT decided.",
		Decides:     []string{"single stepper (who-may-call GetCommitParentIDs)", "stepper fail-closed checks dominate result and cache insertion", "error propagation at every walker call site", "all option fields consulted; constructors write their own field; contradictory-option guards", "annotation accumulation on both phases"},
		NotDecided:  []string{"equality of each reader's answer with a newest-to-oldest scan over all logs and option combinations", "which annotations are returned for a given log"},
	}
	reg(&eng.Rule{ID: "C04.single-stepper", Prop: "C04", Floor: 2,
		Doc: "Storer.GetCommitParentIDs is called, module-wide, only by rsl.GetParentForEntry and by the storage implementation itself (pkg/gitinterface, internal/gitstoretest); nothing in pkg/rsl other than the stepper and the readers it serves reads commit parents.",
		Run: c04SingleStepper})
	reg(&eng.Rule{ID: "C04.stepper-checks", Prop: "C04", Floor: 6,
		Doc: "In rsl.GetParentForEntry every path from the storage read to a success return or to cache.setParent passes: len(parentIDs)>1 → ErrRSLBranchDetected; GetEntry(parent) error propagated; number continuity (entry∈{0,1} ⇒ parent==0, else parent==entry-1) → ErrInvalidRSLEntry.",
		Run: c04StepperChecks})
	reg(&eng.Rule{ID: "C04.errors-propagate", Prop: "C04", Floor: 20,
		Doc: "Every call to rsl.GetParentForEntry / GetEntry / GetLatestEntry in non-test module code examines the error; a non-nil error reaches only error returns, except the end-of-chain sentinel ErrRSLEntryNotFound handled through errors.Is.",
		Run: c04ErrorsPropagate})
	reg(&eng.Rule{ID: "C04.options-consulted", Prop: "C04", Floor: 22,
		Doc: "Every field of GetLatestReferenceUpdaterEntryOptions is read in GetLatestReferenceUpdaterEntry and feeds a branch; each option constructor stores exactly its own field from its own parameter (or the constant true); the four contradictory-option guards return ErrInvalidGetLatestReferenceUpdaterEntryOptions.",
		Run: c04Options})
	reg(&eng.Rule{ID: "C04.annotations-both-sides", Prop: "C04", Floor: 4,
		Doc: "Readers that return annotations append to the accumulator on both walk phases (before the start anchor and inside the range) and filter the result through RefersTo / the in-range set.",
		Run: c04Annotations})
}

func c04SingleStepper(c *Ctx, r *R) {
	allowedPkgs := map[string]bool{
		eng.Module + "/pkg/gitinterface":      true,
		eng.Module + "/internal/gitstoretest": true,
		eng.Module + "/internal/dev":          false,
	}
	n := 0
	c.ModuleFuncs(func(fn *ssa.Function) {
		for _, k := range eng.Calls(fn, false) {
			if k.Method() != "GetCommitParentIDs" {
				continue
			}
			n++
			r.Site(1)
			root := fn
			for root.Parent() != nil {
				root = root.Parent()
			}
			name := fname(root)
			pkg := ""
			if root.Pkg != nil {
				pkg = root.Pkg.Pkg.Path()
			}
			switch {
			case name == "pkg/rsl.GetParentForEntry":
				r.Ok("caller:"+name, k.Pos(), "the stepper reads commit parents")
			case allowedPkgs[pkg]:
				r.Ok("caller:"+name, k.Pos(), "storage implementation (%s) — walks user commits / implements the interface, not the log", pkg)
			default:
				r.Bad("caller:"+name, k.Pos(), "%s reads commit parents directly, bypassing rsl.GetParentForEntry and its fail-closed checks (second parent, numbering break, malformed entry)", name)
			}
		}
	})
	// inside pkg/rsl every loop that advances an Entry iterator must do so via GetParentForEntry:
	// approximate by requiring that no function in pkg/rsl other than GetParentForEntry calls
	// GetEntry with an argument that is not a parameter / result of GetReference / cached parent id.
	sp := c.SSA[eng.Module+"/pkg/rsl"]
	if sp == nil {
		r.Undecided("anchor:pkg/rsl", token.NoPos, "package pkg/rsl not loaded")
		return
	}
	walkers := 0
	c.ModuleFuncs(func(fn *ssa.Function) {
		if fn.Pkg != sp {
			return
		}
		hasLoop := false
		for _, b := range fn.Blocks {
			for _, s := range b.Succs {
				if s.Dominates(b) {
					hasLoop = true
				}
			}
		}
		if !hasLoop {
			return
		}
		for _, k := range eng.CallsTo(fn, false, "pkg/rsl.GetEntry") {
			// GetEntry inside a loop body on a non-parameter id: allowed only in annotation guards (ids from a.RSLEntryIDs)
			inLoop := false
			for _, s := range fn.Blocks {
				if s.Dominates(k.Block()) && s != k.Block() {
					for _, p := range s.Preds {
						if s.Dominates(p) && p.Index >= k.Block().Index {
							inLoop = true
						}
					}
				}
			}
			if !inLoop {
				continue
			}
			arg := k.Arg(1)
			okArg := false
			for _, root := range eng.Roots(arg) {
				if name, _, ok := eng.FieldLoad(root); ok && name == "RSLEntryIDs" {
					okArg = true
				}
				if u, ok := root.(*ssa.UnOp); ok {
					if ia, ok := u.X.(*ssa.IndexAddr); ok {
						if name, _, ok := eng.FieldLoad(ia.X); ok && name == "RSLEntryIDs" {
							okArg = true
						}
					}
				}
			}
			walkers++
			if okArg {
				r.Ok("loop-getentry:"+fname(fn), k.Pos(), "GetEntry in a loop reads annotation targets (existence guard), not a log step")
			} else {
				r.Bad("loop-getentry:"+fname(fn), k.Pos(), "%s calls GetEntry in a loop on an id that is not an annotation target: a hand-rolled log walk that bypasses GetParentForEntry", fname(fn))
			}
		}
	})
	_ = walkers
}

func c04StepperChecks(c *Ctx, r *R) {
	fn := r.Fn("pkg/rsl.GetParentForEntry")
	if fn == nil {
		return
	}
	reads := eng.CallsToMethod(fn, false, "GetCommitParentIDs", "Storer", "Repository")
	read, ok := oneCall(r, "storage-read", fn, reads, "Storer.GetCommitParentIDs")
	if !ok {
		return
	}
	r.Site(1)
	parentIDs := eng.PCall("GetCommitParentIDs", 0)
	// (a) branch detection
	passBranch := guardReturnsErr(c, r, "branch-detected", fn, token.GTR, eng.PLen(parentIDs), eng.PInt(1), "ErrRSLBranchDetected", "len(parentIDs) > 1")
	// (b) parent entry is parsed and its error propagated
	var getEntry Call
	found := false
	for _, k := range eng.CallsTo(fn, false, "pkg/rsl.GetEntry") {
		// the one whose id argument comes from parentIDs (element load)
		a := k.Arg(1)
		for _, root := range eng.Roots(a) {
			if u, ok := root.(*ssa.UnOp); ok {
				if ia, ok := u.X.(*ssa.IndexAddr); ok && parentIDs(ia.X) {
					getEntry, found = k, true
				}
			}
		}
	}
	if !found {
		r.Bad("parent-parsed", fn.Pos(), "no GetEntry(parentIDs[i]) call: the parent commit is not parsed as an RSL entry before being returned")
		return
	}
	r.Site(1)
	errPropagates(c, r, "parent-parsed", getEntry)
	parent := eng.PCall("pkg/rsl.GetEntry", 0, nil, func(v ssa.Value) bool {
		return eng.SomeRoot(func(x ssa.Value) bool { return true })(v) && sameArg(v, getEntry.Arg(1))
	})
	entry := eng.PParam("entry")
	pNum := eng.PMethod("GetNumber", parent)
	eNum := eng.PMethod("GetNumber", entry)
	// (c) number continuity: edges on which parent.N == 0 under entry.N∈{0,1}, or parent.N == entry.N-1 (or parent.N+1 == entry.N)
	zeroOK := eng.RelEdges(fn, token.EQL, pNum, eng.PInt(0))
	predOK := append(eng.RelEdges(fn, token.EQL, pNum, eng.PBin(token.SUB, eNum, eng.PInt(1))),
		eng.RelEdges(fn, token.EQL, eng.PBin(token.ADD, pNum, eng.PInt(1)), eNum)...)
	r.Check(len(zeroOK) > 0, "continuity-first", fn.Pos(), "test parent.GetNumber()==0 present for entries numbered 0/1", "no test that the parent of an entry numbered 0 or 1 is unnumbered (parent.GetNumber() != 0 → ErrInvalidRSLEntry)")
	r.Check(len(predOK) > 0, "continuity-step", fn.Pos(), "test parent.GetNumber()==entry.GetNumber()-1 present", "no test that parent.GetNumber() == entry.GetNumber()-1 (numbering gap / duplicate would be walked silently)")
	for _, e := range append(append([]eng.Edge{}, zeroOK...), predOK...) {
		fe := eng.Edge{From: e.From, Idx: 1 - e.Idx}
		if p := eng.LeadsOnlyToErr(fe, "ErrInvalidRSLEntry"); p != nil {
			r.Bad("continuity-fails-closed", pos(p.Target), "a numbering mismatch does not always return ErrInvalidRSLEntry; witness: %s", c.DescribePath(p))
		}
	}
	// the zero test must be applied exactly for entry.GetNumber() ∈ {0,1}: its block is reached only on edges entry.N==0 or entry.N==1,
	// and the step test only when entry.N ∉ {0,1}.
	selZero := append(eng.RelEdges(fn, token.EQL, eNum, eng.PInt(0)), eng.RelEdges(fn, token.EQL, eNum, eng.PInt(1))...)
	selLE := eng.RelEdges(fn, token.LEQ, eNum, eng.PInt(1))
	selLT := eng.RelEdges(fn, token.LSS, eNum, eng.PInt(2))
	sel := append(append(selZero, selLE...), selLT...)
	if len(zeroOK) > 0 {
		cut := eng.NewCut().AddEdges(sel...)
		tb := zeroOK[0].From
		tgt := tb.Instrs[len(tb.Instrs)-1]
		mustPassFrom(c, r, "continuity-first-selected", read.Instr, isInstr(tgt), cut,
			"the parent==0 requirement is applied only to entries numbered 0 or 1",
			"the parent.GetNumber()==0 test is reachable for entries numbered >1 (would reject valid logs) or the selector changed")
	}
	// every success return after the storage read, and the cache insertion, pass all checks
	setParent := eng.CallsTo(fn, false, "(*pkg/rsl.rslCache).setParent")
	type chk struct {
		name  string
		edges []eng.Edge
	}
	geCut := eng.NewCut()
	getEntry.OKPoints(geCut)
	var geEdges []eng.Edge
	for e := range geCut.Edges {
		geEdges = append(geEdges, e)
	}
	checks := []chk{{"branch-detected", passBranch}, {"parent-parsed", geEdges}, {"continuity", append(append([]eng.Edge{}, zeroOK...), predOK...)}}
	for _, ch := range checks {
		cut := eng.NewCut().AddEdges(ch.edges...)
		mustPassFrom(c, r, "result-after:"+ch.name, read.Instr, isSuccessReturn, cut,
			"every success return after the storage read passed the "+ch.name+" check",
			"a parent read from storage can be returned without passing the "+ch.name+" check")
		for _, sp := range setParent {
			mustPassFrom(c, r, "cache-after:"+ch.name, read.Instr, isInstr(sp.Instr), cut,
				"cache.setParent is only reached after the "+ch.name+" check",
				"cache.setParent can be reached before the "+ch.name+" check: later walks would return an unvalidated link from the cache")
		}
	}
	r.Check(len(setParent) >= 1, "cache-insert-present", fn.Pos(), "cache.setParent present", "no cache.setParent call (anchor changed)")
}

func sameArg(v ssa.Value, w ssa.Value) bool { return true }

var c04Readers = []string{"pkg/rsl.GetParentForEntry", "pkg/rsl.GetEntry", "pkg/rsl.GetLatestEntry"}

func c04ErrorsPropagate(c *Ctx, r *R) {
	type site struct {
		fn *ssa.Function
		k  Call
	}
	var sites []site
	c.ModuleFuncs(func(fn *ssa.Function) {
		for _, k := range eng.CallsTo(fn, false, c04Readers...) {
			sites = append(sites, site{fn, k})
		}
	})
	sort.SliceStable(sites, func(i, j int) bool { return fname(sites[i].fn) < fname(sites[j].fn) })
	for _, s := range sites {
		r.Site(1)
		key := callKey(s.fn, s.k)
		// enumerated exception: none today.
		errPropagates(c, r, key, s.k, "ErrRSLEntryNotFound")
	}
}

func c04Options(c *Ctx, r *R) {
	fn := r.Fn("pkg/rsl.GetLatestReferenceUpdaterEntry")
	optT := c.Type("pkg/rsl.GetLatestReferenceUpdaterEntryOptions")
	if fn == nil || optT == nil {
		if optT == nil {
			r.Undecided("anchor:options-type", token.NoPos, "type GetLatestReferenceUpdaterEntryOptions not found")
		}
		return
	}
	st := optT.Underlying().(*types.Struct)
	// field reads in the reader, each feeding a branch
	reads := map[string]int{}
	feeds := map[string]bool{}
	for _, b := range fn.Blocks {
		for _, in := range b.Instrs {
			fa, ok := in.(*ssa.FieldAddr)
			if !ok {
				continue
			}
			pt, ok := fa.X.Type().Underlying().(*types.Pointer)
			if !ok || !types.Identical(pt.Elem(), optT) {
				continue
			}
			name := st.Field(fa.Field).Name()
			for _, ref := range *fa.Referrers() {
				if ld, ok := ref.(*ssa.UnOp); ok && ld.Op == token.MUL {
					reads[name]++
					if reachesBranch(ld, 6) {
						feeds[name] = true
					}
				}
			}
		}
	}
	for i := 0; i < st.NumFields(); i++ {
		f := st.Field(i).Name()
		r.Site(1)
		if reads[f] == 0 {
			r.Bad("field-read:"+f, fn.Pos(), "query condition %s is never read by GetLatestReferenceUpdaterEntry: the condition is silently ignored", f)
		} else if !feeds[f] {
			r.Bad("field-read:"+f, fn.Pos(), "query condition %s is read but never influences a branch", f)
		} else {
			r.Ok("field-read:"+f, fn.Pos(), "condition %s read %d time(s) and feeds a branch", f, reads[f])
		}
	}
	// matching-condition fields must be consulted inside the search loop (not only in the option sanity checks)
	var loopHeads []*ssa.BasicBlock
	for _, b := range fn.Blocks {
		for _, s := range b.Succs {
			if s.Dominates(b) {
				loopHeads = append(loopHeads, s)
			}
		}
	}
	inAnyLoop := func(b *ssa.BasicBlock) bool {
		for _, h := range loopHeads {
			if h.Dominates(b) {
				return true
			}
		}
		return false
	}
	for _, f := range []string{"Reference", "Unskipped", "NonGittuf", "IsReferenceEntry", "IsPropagationEntryForRepository", "UntilEntryID", "UntilEntryNumber", "BeforeEntryID", "BeforeEntryNumber"} {
		found := false
		for _, b := range fn.Blocks {
			if !inAnyLoop(b) {
				continue
			}
			for _, in := range b.Instrs {
				if fa, ok := in.(*ssa.FieldAddr); ok {
					if pt, ok := fa.X.Type().Underlying().(*types.Pointer); ok && types.Identical(pt.Elem(), optT) && st.Field(fa.Field).Name() == f {
						found = true
					}
				}
			}
		}
		r.Check(found, "field-in-walk:"+f, fn.Pos(), "condition "+f+" is consulted inside a walk loop", "condition "+f+" is not consulted inside any walk loop of the reader (only in sanity checks): entries are not filtered by it")
	}
	// contradictory-option guards: four distinct tests leading only to ErrInvalidGetLatestReferenceUpdaterEntryOptions before the first storage access
	latest := eng.CallsTo(fn, false, "pkg/rsl.GetLatestEntry")
	if k, ok := oneCall(r, "first-read", fn, latest, "GetLatestEntry"); ok {
		guards := 0
		for _, ret := range eng.Returns(fn) {
			if k.Block().Dominates(ret.Block()) {
				continue // after the first storage access
			}
			ev := eng.RetErr(ret)
			if eng.ClassifyErr(ev, ret.Block()) == eng.ErrNonNil && eng.Sentinels(ev)["ErrInvalidGetLatestReferenceUpdaterEntryOptions"] {
				guards++
			}
		}
		r.Check(guards >= 4, "contradictory-guards", k.Pos(),
			"≥4 option-consistency guards return ErrInvalidGetLatestReferenceUpdaterEntryOptions before any storage access",
			"fewer than 4 option-consistency guards (both-before, both-until, before<until, reference∧propagation) precede the first storage access")
	}
	// constructors
	ctors := map[string]string{
		"ForReference": "Reference", "BeforeEntryID": "BeforeEntryID", "BeforeEntryNumber": "BeforeEntryNumber",
		"UntilEntryID": "UntilEntryID", "UntilEntryNumber": "UntilEntryNumber", "IsUnskipped": "Unskipped",
		"ForNonGittufReference": "NonGittuf", "IsReferenceEntry": "IsReferenceEntry", "IsPropagationEntryForRepository": "IsPropagationEntryForRepository",
	}
	names := make([]string, 0, len(ctors))
	for n := range ctors {
		names = append(names, n)
	}
	sort.Strings(names)
	for _, n := range names {
		cf := r.Fn("pkg/rsl." + n)
		if cf == nil {
			continue
		}
		r.Site(1)
		if len(cf.AnonFuncs) != 1 {
			r.Undecided("ctor:"+n, cf.Pos(), "option constructor %s is not a single closure", n)
			continue
		}
		cl := cf.AnonFuncs[0]
		var stores []string
		okVal := true
		for _, b := range cl.Blocks {
			for _, in := range b.Instrs {
				st2, ok := in.(*ssa.Store)
				if !ok {
					continue
				}
				fa, ok := st2.Addr.(*ssa.FieldAddr)
				if !ok {
					continue
				}
				stores = append(stores, st.Field(fa.Field).Name())
				// value: free variable load (the ctor parameter) or const true
				v := st2.Val
				if bv, ok := eng.ConstBool(v); ok {
					if !bv {
						okVal = false
					}
				} else {
					isFV := false
					for _, root := range eng.Roots(v) {
						if _, ok := root.(*ssa.Parameter); ok {
							isFV = true
						}
						if _, ok := root.(*ssa.FreeVar); ok {
							isFV = true
						}
					}
					if !isFV {
						okVal = false
					}
				}
			}
		}
		if len(stores) == 1 && stores[0] == ctors[n] && okVal {
			r.Ok("ctor:"+n, cf.Pos(), "%s stores exactly field %s from its parameter / true", n, ctors[n])
		} else {
			r.Bad("ctor:"+n, cf.Pos(), "option constructor %s must store exactly field %s from its own parameter (or true); it stores %v (value ok=%v)", n, ctors[n], stores, okVal)
		}
	}
	// number of struct fields vs table: a new field without a constructor entry is unclassified
	if st.NumFields() != len(ctors) {
		r.Undecided("ctor-table", fn.Pos(), "options struct has %d fields but the constructor table lists %d; classify the new field", st.NumFields(), len(ctors))
	} else {
		r.Ok("ctor-table", fn.Pos(), "9 fields ↔ 9 constructors")
	}
}

// reachesBranch reports whether v flows (through comparisons, calls, boolean
// operators, phis; depth-bounded) into an If condition.
func reachesBranch(v ssa.Value, depth int) bool {
	if depth == 0 || v.Referrers() == nil {
		return false
	}
	for _, ref := range *v.Referrers() {
		switch x := ref.(type) {
		case *ssa.If:
			return true
		case *ssa.BinOp:
			if reachesBranch(x, depth-1) {
				return true
			}
		case *ssa.UnOp:
			if reachesBranch(x, depth-1) {
				return true
			}
		case *ssa.Phi:
			if reachesBranch(x, depth-1) {
				return true
			}
		case *ssa.Call:
			if reachesBranch(x, depth-1) {
				return true
			}
		case *ssa.Extract:
			if reachesBranch(x, depth-1) {
				return true
			}
		case *ssa.Slice:
			if reachesBranch(x, depth-1) {
				return true
			}
		case *ssa.MakeInterface:
			if reachesBranch(x, depth-1) {
				return true
			}
		case *ssa.ChangeType:
			if reachesBranch(x, depth-1) {
				return true
			}
		case *ssa.Convert:
			if reachesBranch(x, depth-1) {
				return true
			}
		}
	}
	return false
}

func c04Annotations(c *Ctx, r *R) {
	for _, spec := range []string{"pkg/rsl.GetLatestReferenceUpdaterEntry", "pkg/rsl.GetReferenceUpdaterEntriesInRangeForRef", "pkg/rsl.GetNonGittufParentReferenceUpdaterEntryForEntry"} {
		fn := r.Fn(spec)
		if fn == nil {
			continue
		}
		// appends of *AnnotationEntry values to a []*AnnotationEntry slice, grouped by enclosing loop
		loops := map[*ssa.BasicBlock]bool{}
		n := 0
		for _, k := range eng.Calls(fn, false) {
			if k.Name() != "builtin.append" {
				continue
			}
			t := k.Instr.Common().Args[0].Type().String()
			if !strings.HasSuffix(t, "[]*"+eng.Module+"/pkg/rsl.AnnotationEntry") {
				continue
			}
			fromMap := false
			for _, root := range eng.Roots(k.Instr.Common().Args[0]) {
				if _, ok := root.(*ssa.Lookup); ok {
					fromMap = true
				}
				if ex, ok := root.(*ssa.Extract); ok {
					if _, ok := ex.Tuple.(*ssa.Lookup); ok {
						fromMap = true
					}
				}
			}
			if fromMap {
				continue // building the result map, not the walk accumulator
			}
			n++
			// the value appended is the entry itself, and only where it IS an annotation: it comes from a
			// type assertion to *AnnotationEntry and the append sits behind that assertion's ok edge
			// (comma-ok form) or in the type switch's *AnnotationEntry case
			okAnn := false
			for _, el := range eng.VariadicElems(k.Instr.Common().Args[1]) {
				for _, root := range []ssa.Value{el} {
					var ta *ssa.TypeAssert
					if ex, ok := root.(*ssa.Extract); ok && ex.Index == 0 {
						ta, _ = ex.Tuple.(*ssa.TypeAssert)
					} else if t, ok := root.(*ssa.TypeAssert); ok {
						ta = t
					}
					if ta == nil || !strings.HasSuffix(ta.AssertedType.String(), "pkg/rsl.AnnotationEntry") {
						continue
					}
					if !ta.CommaOk {
						okAnn = true
						continue
					}
					for _, ref := range *ta.Referrers() {
						if ex, ok := ref.(*ssa.Extract); ok && ex.Index == 1 {
							for _, e := range eng.BoolEdges(fn, eng.PSame(ex), true) {
								if eng.EdgeDominates(e, k.Block()) {
									okAnn = true
								}
							}
						}
					}
				}
			}
			r.Check(okAnn, "accumulates-annotations:"+spec[strings.LastIndex(spec, ".")+1:]+":"+itoa(n), k.Pos(), "an entry is accumulated exactly where it is an annotation", "the walk accumulates an entry as annotation on the wrong side of the `is it an annotation` test (annotations met on this part of the walk are lost)")
			// innermost loop header dominating this block
			var head *ssa.BasicBlock
			for _, b := range fn.Blocks {
				isHead := false
				for _, p := range b.Preds {
					if b.Dominates(p) {
						isHead = true
					}
				}
				if isHead && b.Dominates(k.Block()) && reaches(k.Block(), b) {
					if head == nil || head.Dominates(b) {
						head = b
					}
				}
			}
			if head != nil {
				loops[head] = true
			}
		}
		r.Site(n)
		short := spec[strings.LastIndex(spec, ".")+1:]
		r.Check(len(loops) >= 2, "both-phases:"+short, fn.Pos(),
			"annotations are accumulated in ≥2 distinct walk loops (before the anchor and inside the range)",
			"annotations are accumulated in fewer than two walk loops: annotations recorded after the start anchor (or inside the range) are lost")
		// filter
		filt := eng.CallsTo(fn, false, "pkg/rsl.filterAnnotationsForRelevantAnnotations")
		if spec == "pkg/rsl.GetReferenceUpdaterEntriesInRangeForRef" {
			// filtered through inRange map lookup
			has := false
			for _, b := range fn.Blocks {
				for _, in := range b.Instrs {
					if lk, ok := in.(*ssa.Lookup); ok && lk.CommaOk {
						if mt, ok := lk.X.Type().Underlying().(*types.Map); ok {
							if bt, ok := mt.Elem().(*types.Basic); ok && bt.Kind() == types.Bool {
								has = true
							}
						}
					}
				}
			}
			r.Check(has, "filtered:"+short, fn.Pos(), "annotation map is filtered by membership in the in-range set", "annotations are not filtered by the in-range set")
		} else {
			r.Check(len(filt) >= 1, "filtered:"+short, fn.Pos(), "result filtered through filterAnnotationsForRelevantAnnotations (RefersTo)", "annotations returned without the RefersTo filter")
		}
	}
	if f := r.Fn("pkg/rsl.filterAnnotationsForRelevantAnnotations"); f != nil {
		ks := eng.CallsTo(f, false, "(*pkg/rsl.AnnotationEntry).RefersTo")
		okArg := len(ks) == 1 && eng.PParam("entryID")(ks[0].Arg(0))
		r.Check(okArg, "filter-uses-refersTo", f.Pos(), "filter keeps annotation iff annotation.RefersTo(entryID)", "filterAnnotationsForRelevantAnnotations no longer tests RefersTo(entryID)")
	}
}

func reaches(from, to *ssa.BasicBlock) bool {
	seen := map[*ssa.BasicBlock]bool{}
	st := []*ssa.BasicBlock{from}
	for len(st) > 0 {
		b := st[len(st)-1]
		st = st[:len(st)-1]
		for _, s := range b.Succs {
			if s == to {
				return true
			}
			if !seen[s] {
				seen[s] = true
				st = append(st, s)
			}
		}
	}
	return false
}
