package rules

import (
	"fmt"
	"go/token"
	"sort"
	"strings"

	"golang.org/x/tools/go/ssa"

	"verif/checker/eng"
)

func init() {
	Meta["C10"] = PropMeta{
		Explanation: "Static necessary conditions of 'file rules see every changed path verbatim; odd path names are not exempt': (1) the only lossless way to move path names out of / into git plumbing is the NUL protocol — for every git command in pkg/gitinterface that emits or consumes path names the constant argument vector must contain -z, the output must be taken raw (not whitespace-trimmed) and split on NUL, never on newline/space/TAB-beyond-the-first or trimmed; (2) in verifyEntry and verifyMergeable every path returned for every new commit reaches verifyGitObjectAndAttestations unfiltered, under the namespace file:<path>, for the commit that changed it, and a failure is fatal; (3) the file-rule loops are skipped only when the policy has no file rule, a flag computed from the patterns of the primary and every delegated rule file; (4) every git command runs with LC_ALL=C and GIT_NO_REPLACE_OBJECTS=1. What git actually prints for a given tree, and glob semantics on odd names, are NOT decided.",
		Decides:     []string{"NUL protocol at every path-emitting/consuming git command (violated today: F5)", "every changed path checked, unfiltered, per commit", "hasFileRule gate and its computation", "executor environment"},
		NotDecided:  []string{"git's actual output bytes for a given repository", "fnmatch semantics for unusual names"},
	}
	reg(&eng.Rule{ID: "C10.nul-protocol", Prop: "C10", Floor: 8,
		Doc: "Every (*Repository).executor call with a path-emitting (ls-tree, diff-tree, diff, ls-files, status) or path-consuming (mktree, update-index) subcommand passes -z, reads the raw output (execute, not executeString) and splits it on \"\\x00\"; no strings.Split on \"\\n\"/\" \"/\"\\t\", strings.Fields or TrimSpace is applied to data that can contain a path name.",
		Run: c10NulProtocol})
	reg(&eng.Rule{ID: "C10.every-path", Prop: "C10", Floor: 8,
		Doc: "In verifyEntry and verifyMergeable: for each commit of GetCommitsBetweenRange(new target, previous target) and each path of GetFilePathsChangedByCommit(commit) the call verifyGitObjectAndAttestations(ctx, policy, \"file:\"+path, commit, …) is made in the same basic block that loads the path (no filter), and its error returns ErrVerificationFailed.",
		Run: c10EveryPath})
	reg(&eng.Rule{ID: "C10.gate", Prop: "C10", Floor: 4,
		Doc: "The file-rule loops are skipped only on !policy.hasFileRule; preprocess sets hasFileRule under HasPrefix(pattern, \"file\") while scanning the primary rule file and every member of DelegationEnvelopes.",
		Run: c10Gate})
	reg(&eng.Rule{ID: "C10.executor-env", Prop: "C10", Floor: 2,
		Doc: "executor.execute appends LC_ALL=C and GIT_NO_REPLACE_OBJECTS=1 to the environment of the single exec.Command site.",
		Run: c10ExecutorEnv})
}

var pathEmitting = map[string]bool{"ls-tree": true, "diff-tree": true, "diff": true, "ls-files": true, "status": true, "diff-index": true, "diff-files": true}
var pathConsuming = map[string]bool{"mktree": true, "update-index": true}

// terminalOf follows an *executor value through with…() calls to the
// execute / executeString call that runs it.
func terminalOf(v ssa.Value, depth int) (Call, bool) {
	if depth > 6 || v.Referrers() == nil {
		return Call{}, false
	}
	for _, ref := range *v.Referrers() {
		ci, ok := ref.(ssa.CallInstruction)
		if !ok {
			continue
		}
		k := Call{Fn: ci.Parent(), Instr: ci, Callee: eng.CalleeOf(ci)}
		if k.Recv() != v {
			continue
		}
		switch k.Method() {
		case "execute", "executeString":
			return k, true
		default:
			if cv := k.Value(); cv != nil {
				if t, ok := terminalOf(cv, depth+1); ok {
					return t, true
				}
			}
		}
	}
	return Call{}, false
}

// taint computes the values in fn derived from seed through string / slice
// operations. Result #0 of strings.Cut(x, "\t") is *not* tainted: it is the
// metadata part of a `<meta> TAB <path>` record and cannot contain the path.
func taint(fn *ssa.Function, seed ssa.Value) map[ssa.Value]bool {
	t := map[ssa.Value]bool{seed: true}
	changed := true
	for changed {
		changed = false
		add := func(v ssa.Value) {
			if v != nil && !t[v] {
				t[v] = true
				changed = true
			}
		}
		for _, b := range fn.Blocks {
			for _, in := range b.Instrs {
				v, ok := in.(ssa.Value)
				if !ok || t[v] {
					continue
				}
				switch x := in.(type) {
				case *ssa.Call:
					any := false
					for _, a := range x.Call.Args {
						if t[a] {
							any = true
						}
					}
					if any {
						add(x)
					}
				case *ssa.Extract:
					if t[x.Tuple] {
						if c, ok := x.Tuple.(*ssa.Call); ok {
							k := Call{Instr: c, Callee: eng.CalleeOf(c)}
							if k.Name() == "strings.Cut" && x.Index == 0 {
								if s, isC := eng.ConstString(k.Arg(1)); isC && s == "\t" {
									continue
								}
							}
							if x.Index == c.Call.Signature().Results().Len()-1 && eng.IsErrorType(x.Type()) {
								continue
							}
						}
						add(x)
					}
				case *ssa.Phi:
					for _, e := range x.Edges {
						if t[e] {
							add(x)
						}
					}
				case *ssa.UnOp:
					if t[x.X] {
						add(x)
					}
				case *ssa.IndexAddr:
					if t[x.X] {
						add(x)
					}
				case *ssa.Index:
					if t[x.X] {
						add(x)
					}
				case *ssa.Slice:
					if t[x.X] {
						add(x)
					}
				case *ssa.Convert:
					if t[x.X] {
						add(x)
					}
				case *ssa.ChangeType:
					if t[x.X] {
						add(x)
					}
				case *ssa.MakeInterface:
					if t[x.X] {
						add(x)
					}
				case *ssa.Next:
					if t[x.Iter] {
						add(x)
					}
				case *ssa.Range:
					if t[x.X] {
						add(x)
					}
				case *ssa.Lookup:
					if t[x.X] {
						add(x)
					}
				case *ssa.BinOp:
					if x.Op == token.ADD && (t[x.X] || t[x.Y]) {
						add(x)
					}
				}
			}
		}
	}
	return t
}

func c10NulProtocol(c *Ctx, r *R) {
	type site struct {
		ec  execCall
		ord int
	}
	counts := map[string]int{}
	var sites []site
	ecs := executorCalls(c)
	sort.SliceStable(ecs, func(i, j int) bool { return c.Rel(ecs[i].Call.Pos()) < c.Rel(ecs[j].Call.Pos()) })
	for _, ec := range ecs {
		if !ec.OK || !(pathEmitting[ec.Sub] || pathConsuming[ec.Sub]) {
			continue
		}
		k := fname(ec.Fn) + ":" + ec.Sub
		counts[k]++
		sites = append(sites, site{ec, counts[k]})
	}
	for _, s := range sites {
		ec := s.ec
		r.Site(1)
		key := fmt.Sprintf("site:%s:%s#%d", fname(ec.Fn), ec.Sub, s.ord)
		// one obligation per way in which a name can be altered at this site, so that a listed
		// finding (e.g. "no -z") does not hide a different defect added later at the same site
		type problem struct{ kind, msg string }
		var problems []problem
		hasZ := false
		for _, a := range ec.Args {
			if v, ok := eng.ConstString(a); ok && (v == "-z" || v == "--null") {
				hasZ = true
			}
		}
		if !hasZ {
			problems = append(problems, problem{"no-z", "no -z in the argument vector (git C-quotes names containing quotes, backslashes, control or non-ASCII bytes)"})
		}
		term, ok := terminalOf(ec.Call.Value(), 0)
		if !ok {
			r.Undecided(key, ec.Call.Pos(), "cannot find where the `git %s` command is executed", ec.Sub)
			continue
		}
		if pathEmitting[ec.Sub] {
			if term.Method() == "executeString" {
				problems = append(problems, problem{"trimmed-read", "output read through executeString, which trims whitespace off the first/last path"})
			}
			out := term.Result(0)
			if out != nil {
				tn := taint(term.Fn, out)
				splitNUL := false
				kinds := map[string]int{}
				for _, k := range eng.Calls(term.Fn, false) {
					n := k.Name()
					if !strings.HasPrefix(n, "strings.") && !strings.HasPrefix(n, "bytes.") {
						continue
					}
					if k.NArgs() == 0 || !tn[k.Arg(0)] {
						continue
					}
					add := func(kind, msg string) {
						kinds[kind]++
						if kinds[kind] > 1 {
							kind = fmt.Sprintf("%s#%d", kind, kinds[kind])
						}
						problems = append(problems, problem{kind, msg})
					}
					switch k.Method() {
					case "Split", "SplitN", "SplitAfter":
						sep, isC := eng.ConstString(k.Arg(1))
						switch {
						case isC && sep == "\x00":
							splitNUL = true
						case isC && k.Method() == "SplitN" && sep == "\t":
							// first TAB only is fine when n == 2
							if n, ok := eng.ConstInt(k.Arg(2)); !ok || n != 2 {
								add("split-tab", fmt.Sprintf("%s(…, %q) beyond the first separator at %s", k.Method(), sep, c.Rel(k.Pos())))
							}
						default:
							kind := "split-other"
							switch sep {
							case "\n":
								kind = "split-newline"
							case " ":
								kind = "split-space"
							case "\t":
								kind = "split-tab"
							}
							add(kind, fmt.Sprintf("strings.%s(…, %q) on data containing path names at %s (a name containing that separator is truncated / split)", k.Method(), sep, c.Rel(k.Pos())))
						}
					case "Fields", "FieldsFunc":
						add("split-whitespace", fmt.Sprintf("strings.%s on data containing path names at %s (a name containing white space is split into several names)", k.Method(), c.Rel(k.Pos())))
					case "TrimSpace", "Trim", "TrimRight", "TrimLeft", "TrimSuffix", "TrimPrefix", "TrimFunc", "Replace", "ReplaceAll", "ToLower", "ToUpper", "Unquote":
						add("altered-"+k.Method(), fmt.Sprintf("strings.%s on data containing path names at %s", k.Method(), c.Rel(k.Pos())))
					}
				}
				if !splitNUL {
					problems = append(problems, problem{"not-nul-split", "output is not split on \"\\x00\""})
				}
			}
		} else {
			// consuming: records must be NUL terminated when -z is given; without -z names cannot contain newline and are C-unquoted by git
			_ = term
		}
		if len(problems) == 0 {
			r.Ok(key, ec.Call.Pos(), "`git %s` uses the NUL protocol end to end", ec.Sub)
		} else {
			for _, p := range problems {
				r.Bad(key+":"+p.kind, ec.Call.Pos(), "`git %s` in %s does not move path names verbatim: %s", ec.Sub, fname(ec.Fn), p.msg)
			}
		}
	}
	// a path-emitting command hidden behind a dynamic argv
	for _, ec := range ecs {
		if ec.OK {
			continue
		}
		name := fname(ec.Fn)
		switch name {
		case "(*pkg/gitinterface.Repository).Commit", "(*pkg/gitinterface.Repository).commitWithParents", "(*pkg/gitinterface.Repository).GetCommitsBetweenRange",
			"(*pkg/gitinterface.Repository).PushRefSpec", "(*pkg/gitinterface.Repository).FetchRefSpec", "(*pkg/gitinterface.Repository).FetchObject",
			"pkg/gitinterface.CloneAndFetchRepository", "(*pkg/gitinterface.Repository).executor":
			// enumerated: commit-tree / rev-list / push / fetch / clone — no path names in their output
		default:
			r.Undecided("dynamic-argv:"+name, ec.Call.Pos(), "%s runs git with an argument vector that cannot be evaluated; classify whether it emits path names", name)
		}
	}
}

func c10EveryPath(c *Ctx, r *R) {
	for _, spec := range []string{"internal/policy.verifyEntry", fnVM} {
		fn := r.Fn(spec)
		if fn == nil {
			continue
		}
		short := spec[strings.LastIndex(spec, ".")+1:]
		var fileCalls []Call
		for _, k := range eng.CallsTo(fn, false, fnVGOA) {
			if sp, _, ok := eng.RootCall(eng.Roots(k.Arg(2))[0]); ok && sp.Name() == "fmt.Sprintf" {
				els := eng.VariadicElems(sp.Arg(1))
				if len(els) == 2 {
					if s, isC := eng.ConstString(els[0]); isC && s == "file" {
						fileCalls = append(fileCalls, k)
					}
				}
			}
		}
		fk, ok := oneCall(r, "file-rule-call:"+short, fn, fileCalls, "verifyGitObjectAndAttestations(file:…)")
		if !ok {
			continue
		}
		r.Site(1)
		sp, _, _ := eng.RootCall(eng.Roots(fk.Arg(2))[0])
		f, _ := eng.ConstString(sp.Arg(0))
		els := eng.VariadicElems(sp.Arg(1))
		paths := eng.PCall("GetFilePathsChangedByCommit", 0)
		// path = paths[i]
		var pathLoad *ssa.UnOp
		for _, root := range eng.Roots(els[1]) {
			if u, ok := root.(*ssa.UnOp); ok {
				if ia, ok := u.X.(*ssa.IndexAddr); ok && paths(ia.X) {
					pathLoad = u
				}
			}
		}
		r.Check(f == "%s:%s" && pathLoad != nil && len(eng.Roots(els[1])) == 1, "namespace-is-file-path:"+short, fk.Pos(), "namespace = file:<path> with the untouched loop variable", "the file namespace is not built from the unmodified element of GetFilePathsChangedByCommit's result")
		if pathLoad != nil {
			r.Check(pathLoad.Block() == fk.Block(), "no-filter:"+short, fk.Pos(), "no branch between loading the path and verifying it", "a branch sits between loading a changed path and verifying it: some paths can be skipped")
		}
		// commit id: element of the commits slice, and the same commit whose paths are listed
		var pc Call
		for _, k := range eng.Calls(fn, false) {
			if k.Method() == "GetFilePathsChangedByCommit" {
				pc = k
			}
		}
		if pc.Instr == nil {
			r.Bad("paths-per-commit:"+short, fn.Pos(), "GetFilePathsChangedByCommit is not called")
			continue
		}
		r.Check(sameObjVal(fk.Arg(3), pc.Arg(0)), "object-is-changing-commit:"+short, fk.Pos(), "the object verified for a path is the commit that changed it", "the object verified for a path is not the commit whose changes are being listed")
		errPropagates(c, r, "paths-error:"+short, pc)
		commitsSrc := "internal/policy.getCommits"
		isCommits := eng.PCall(commitsSrc, 0)
		if short == "verifyMergeable" {
			isCommits = eng.PCall("GetCommitsBetweenRange", 0, eng.PParam("featureID"), eng.PParam("fromID"))
		}
		okC := false
		for _, root := range eng.Roots(pc.Arg(0)) {
			if u, ok := root.(*ssa.UnOp); ok {
				if ia, ok := u.X.(*ssa.IndexAddr); ok && isCommits(ia.X) {
					okC = true
				}
			}
		}
		r.Check(okC, "commits-source:"+short, pc.Pos(), "commits come from the new-commit range of the entry", "the commits whose paths are checked do not come from the entry's new-commit range")
		// error → ErrVerificationFailed
		ev, _ := fk.ErrResult()
		if ev == nil {
			r.Bad("file-rule-error:"+short, fk.Pos(), "file-rule verification result discarded")
		} else {
			u := eng.UsesOfErr(ev)
			okE := len(u.NonNilEdges) > 0
			for _, e := range u.NonNilEdges {
				if p := eng.LeadsOnlyToErr(e, "ErrVerificationFailed"); p != nil {
					okE = false
				}
			}
			r.Check(okE, "file-rule-error:"+short, fk.Pos(), "a failed file rule → ErrVerificationFailed", "a failed file-rule verification is not fatal")
		}
		// the trusted-verifier shortcut is per commit: the name handed to withTrustedVerifier is
		// either "" or the verifier that accepted an earlier path OF THE SAME COMMIT. The variable must
		// therefore be (re)initialised inside the commit loop: its phi web has no phi in the head of
		// the loop that advances the commit (otherwise a verifier that accepted commit A is trusted,
		// without any signature check, for commit B).
		_, ctors, _ := optionNames(fk)
		if tv, has := optionCtor(ctors, "withTrustedVerifier"); has {
			commitHead := map[*ssa.BasicBlock]bool{}
			for in := range loopHeads(fn) {
				iff := in.(*ssa.If)
				if bo, ok := iff.Cond.(*ssa.BinOp); ok && bo.Op == token.LSS {
					if eng.PLen(func(v ssa.Value) bool {
						for _, root := range eng.Roots(pc.Arg(0)) {
							if u, ok := root.(*ssa.UnOp); ok {
								if ia, ok := u.X.(*ssa.IndexAddr); ok && sameObjVal(ia.X, v) {
									return true
								}
							}
						}
						return false
					})(bo.Y) {
						commitHead[iff.Block()] = true
					}
				}
			}
			carried := false
			okSrc := true
			seen := map[ssa.Value]bool{}
			var walk func(v ssa.Value)
			walk = func(v ssa.Value) {
				v = eng.Strip(v)
				if seen[v] {
					return
				}
				seen[v] = true
				switch x := v.(type) {
				case *ssa.Phi:
					if commitHead[x.Block()] {
						carried = true
					}
					for _, e := range x.Edges {
						walk(e)
					}
				case *ssa.Const:
					if s, isC := eng.ConstString(x); !isC || s != "" {
						okSrc = false
					}
				default:
					if k, idx, ok := eng.RootCall(v); !ok || idx != 0 || k.Instr != fk.Instr {
						okSrc = false
					}
				}
			}
			walk(tv.Arg(0))
			r.Check(len(commitHead) > 0 && !carried && okSrc, "trusted-verifier-per-commit:"+short, tv.Pos(),
				"the trusted-verifier name is \"\" or the verifier that accepted an earlier path of the same commit, and is reset for every commit",
				"the name given to withTrustedVerifier survives from one commit to the next (or has another source): a verifier that accepted one commit would be trusted for the next commit's paths without that commit's signature being checked")
		}
		// options: no withVerifyMergeable on the file-rule call (C19)
		names, _, _ := optionNames(fk)
		okN := true
		for _, n := range names {
			if n == "withVerifyMergeable" {
				okN = false
			}
		}
		r.Check(okN, "no-mergeable-relaxation-on-files:"+short, fk.Pos(), "file rules are not relaxed for mergeability", "the file-rule call carries withVerifyMergeable(): file thresholds would be reduced by the RSL signature that does not count for them")
	}
	// getCommits
	if fn := r.Fn("internal/policy.getCommits"); fn != nil {
		n := 0
		for _, k := range eng.Calls(fn, false) {
			if k.Method() != "GetCommitsBetweenRange" {
				continue
			}
			n++
			nb, _, f := eng.FieldLoad(k.Arg(0))
			r.Check(f && nb == "TargetID", "range-new:"+itoa(n), k.Pos(), "range starts at entry.TargetID", "commit range does not start at the entry's target")
			okOld := eng.IsNilConst(k.Arg(1)) || eng.PMethod("GetTargetID", eng.PCall("pkg/rsl.GetLatestReferenceUpdaterEntry", 0))(k.Arg(1))
			r.Check(okOld, "range-old:"+itoa(n), k.Pos(), "range ends at the previous entry's target (or nil for the first)", "commit range's lower bound is not the previous entry's target / nil")
		}
		r.Check(n == 2, "range-sites", fn.Pos(), "two range queries (first entry, later entries)", "expected two GetCommitsBetweenRange sites in getCommits")
		for _, k := range eng.CallsTo(fn, false, "pkg/rsl.GetLatestReferenceUpdaterEntry") {
			names, _, _ := optionNames(k)
			r.Check(sameStringSet(names, "ForReference", "BeforeEntryID"), "prior-options", k.Pos(), "previous entry = latest for the same reference before this entry", "previous-entry lookup options changed: "+strings.Join(names, ","))
			errPropagates(c, r, "prior-error", k, "ErrRSLEntryNotFound")
		}
	}
}

func c10Gate(c *Ctx, r *R) {
	for _, spec := range []string{"internal/policy.verifyEntry", fnVM} {
		fn := r.Fn(spec)
		if fn == nil {
			continue
		}
		short := spec[strings.LastIndex(spec, ".")+1:]
		var pc Call
		for _, k := range eng.Calls(fn, false) {
			if k.Method() == "GetFilePathsChangedByCommit" {
				pc = k
			}
		}
		gate := eng.BoolEdges(fn, eng.PField("hasFileRule", nil), false)
		r.Check(len(gate) > 0, "gate-present:"+short, fn.Pos(), "file loops skipped on !hasFileRule", "no hasFileRule gate (anchor changed)")
		if pc.Instr == nil {
			continue
		}
		// every success return not preceded by the loops must pass the !hasFileRule edge (or be an earlier special case: gittuf refs / tags in verifyEntry)
		var loopsDone []eng.Edge
		loopsDone = append(loopsDone, rangeDoneEdges(fn, func(v ssa.Value) bool {
			return eng.PCall("internal/policy.getCommits", 0)(v) || eng.PCall("GetCommitsBetweenRange", 0)(v)
		})...)
		cut := eng.NewCut().AddEdges(gate...).AddEdges(loopsDone...)
		for _, k := range eng.CallsTo(fn, false, "internal/policy.verifyTagEntry") {
			cut.AddInstrs(k.Instr)
		}
		refName := func(v ssa.Value) bool { n, _, ok := eng.FieldLoad(v); return ok && n == "RefName" }
		cut.AddEdges(eng.RelEdges(fn, token.EQL, refName, func(v ssa.Value) bool {
			s, ok := eng.ConstString(v)
			return ok && (s == refPolicy || s == refAttest)
		})...)
		mustPass(c, r, "success-needs-file-check:"+short, fn, isSuccessReturn, cut,
			"success is reached only after the file-rule loops completed, or the policy has no file rule",
			"success can be returned without checking changed paths although the policy has file rules")
	}
	if fn := r.Fn("(*internal/policy.State).preprocess"); fn != nil {
		n := 0
		for _, b := range fn.Blocks {
			for _, in := range b.Instrs {
				st, ok := in.(*ssa.Store)
				if !ok {
					continue
				}
				fa, ok := st.Addr.(*ssa.FieldAddr)
				if !ok || fieldNameOf(fa) != "hasFileRule" {
					continue
				}
				n++
				r.Site(1)
				v, isC := eng.ConstBool(st.Val)
				okG := false
				for _, g := range eng.GuardsAt(b) {
					if k, _, isCall := eng.RootCall(g.Cond); isCall && k.Name() == "strings.HasPrefix" && g.Pol {
						if s, ok := eng.ConstString(k.Arg(1)); ok && s == "file" {
							okG = true
						}
					}
				}
				r.Check(isC && v && okG, "flag-set-under-file-prefix:"+itoa(n), st.Pos(), "hasFileRule = true under HasPrefix(pattern, \"file\")", "hasFileRule is not set exactly when a pattern has the file scheme")
			}
		}
		r.Check(n == 2, "flag-both-scans", fn.Pos(), "hasFileRule computed from the primary and from every delegated rule file", "hasFileRule is not computed in both scans (primary rule file, delegated rule files): file rules in one of them would never be enforced")
		done := rangeDoneEdges(fn, eng.PField("DelegationEnvelopes", nil))
		r.Check(len(done) > 0, "flag-all-delegated", fn.Pos(), "the delegated scan covers every member of DelegationEnvelopes", "no range over DelegationEnvelopes in preprocess")
	}
}

func c10ExecutorEnv(c *Ctx, r *R) {
	fn := r.Fn("(*pkg/gitinterface.executor).execute")
	if fn == nil {
		return
	}
	cmds := eng.CallsTo(fn, false, "os/exec.Command")
	r.Check(len(cmds) == 1, "single-exec-site", fn.Pos(), "one exec.Command site", "expected exactly one exec.Command in executor.execute")
	want := map[string]bool{"LC_ALL=C": false, "GIT_NO_REPLACE_OBJECTS=1": false}
	for _, b := range fn.Blocks {
		for _, in := range b.Instrs {
			if st, ok := in.(*ssa.Store); ok {
				if s, isC := eng.ConstString(st.Val); isC {
					if _, w := want[s]; w {
						want[s] = true
					}
				}
			}
		}
	}
	for k, v := range want {
		r.Site(1)
		r.Check(v, "env:"+k, fn.Pos(), k+" is set for every git command", k+" is no longer appended to the git environment (localised or replace-ref-dependent output)")
	}
	// no other exec.Command in pkg/gitinterface
	c.ModuleFuncs(func(f *ssa.Function) {
		if pkgOf(f) != "pkg/gitinterface" || f == fn {
			return
		}
		for _, prm := range f.Params {
			if strings.HasSuffix(prm.Type().String(), "testing.T") {
				return // test helper compiled into a non-test file
			}
		}
		if fname(f) == "pkg/gitinterface.newTestRepository" {
			return // named exception: runs `git init` to create a repository for tests; reads no repository content
		}
		for _, k := range eng.CallsTo(f, false, "os/exec.Command", "os/exec.CommandContext") {
			r.Bad("other-exec:"+fname(f), k.Pos(), "%s runs a process outside executor.execute (environment guarantees do not apply)", fname(f))
		}
	})
}
