package rules

import (
	"sort"
	"strings"

	"golang.org/x/tools/go/ssa"

	"verif/checker/eng"
)

// RefWrite is a call site that can move / create / delete a Git reference.
type RefWrite struct {
	Fn      *ssa.Function // enclosing function (closures resolved to their parent)
	Call    Call
	Method  string
	Ref     string // constant reference name, "" if not constant
	Dynamic bool
}

// ref argument position of each mutator of gitstore.Storer / *gitinterface.Repository
var refMutators = map[string]int{
	"SetReference":           0,
	"DeleteReference":        0,
	"CheckAndSetReference":   0,
	"ResetDueToError":        1,
	"Commit":                 1,
	"CommitUsingSpecificKey": 1,
	"SetSymbolicReference":   0,
}

// transfer operations whose refs are lists / refspecs (always "dynamic" here)
var refTransfers = map[string]bool{"Fetch": true, "FetchRefSpec": true, "Push": true, "PushRefSpec": true, "FetchObject": false}

var storageRecvs = []string{"Storer", "Repository", "FakeStorer"}

func rootFn(fn *ssa.Function) *ssa.Function {
	for fn.Parent() != nil {
		fn = fn.Parent()
	}
	return fn
}

func pkgOf(fn *ssa.Function) string {
	fn = rootFn(fn)
	if fn.Pkg != nil {
		return strings.TrimPrefix(fn.Pkg.Pkg.Path(), eng.Module+"/")
	}
	return ""
}

var refWriteCache map[*Ctx][]RefWrite

// refWrites enumerates every reference-mutating call site in non-test module code.
func refWrites(c *Ctx) []RefWrite {
	if refWriteCache == nil {
		refWriteCache = map[*Ctx][]RefWrite{}
	}
	if w, ok := refWriteCache[c]; ok {
		return w
	}
	var out []RefWrite
	c.ModuleFuncs(func(fn *ssa.Function) {
		for _, k := range eng.Calls(fn, false) {
			if k.Callee == nil {
				continue
			}
			m := k.Callee.Name()
			isStorage := false
			rt := k.RecvTypeName()
			for _, s := range storageRecvs {
				if rt == s {
					isStorage = true
				}
			}
			if !isStorage {
				continue
			}
			if idx, ok := refMutators[m]; ok {
				w := RefWrite{Fn: rootFn(fn), Call: k, Method: m}
				if a := k.Arg(idx); a != nil {
					if s, isC := eng.ConstString(a); isC {
						w.Ref = s
					} else {
						w.Dynamic = true
					}
				} else {
					w.Dynamic = true
				}
				out = append(out, w)
			} else if refTransfers[m] {
				out = append(out, RefWrite{Fn: rootFn(fn), Call: k, Method: m, Dynamic: true})
			}
		}
	})
	sort.SliceStable(out, func(i, j int) bool { return fname(out[i].Fn) < fname(out[j].Fn) })
	refWriteCache[c] = out
	return out
}

const (
	refRSL      = "refs/gittuf/reference-state-log"
	refPolicy   = "refs/gittuf/policy"
	refStaging  = "refs/gittuf/policy-staging"
	refAttest   = "refs/gittuf/attestations"
	refCacheRef = "refs/local/gittuf/persistent-cache"
)

// dynamicWriters is the frozen table of functions that may write a reference
// whose name is not a compile-time constant, each with the reason it is
// allowed. A new function of this kind is *unclassified* and fails the rules
// that use the table (C03.writers, C12.policy-ref-writers).
var dynamicWriters = map[string]string{
	// storage layer: the reference is the caller's parameter
	"(*pkg/gitinterface.Repository).Commit":                              "storage primitive: CAS append on the caller's reference (C17.cas)",
	"(*pkg/gitinterface.Repository).CommitUsingSpecificKey":              "storage primitive: CAS append on the caller's reference (C17.cas)",
	"(*pkg/gitinterface.Repository).ResetDueToError":                     "storage primitive: compensator",
	"(*pkg/gitinterface.Repository).CreateSubtreeFromUpstreamRepository": "propagation: commits to the downstream reference named by the directive (C18)",
	"(*pkg/gitinterface.Repository).TagUsingSpecificKey":                 "creates refs/tags/<name> (TagReferenceName prefix)",
	"(*pkg/gitinterface.Repository).Fetch":                               "transfer primitive",
	"(*pkg/gitinterface.Repository).Push":                                "transfer primitive",
	"pkg/gitinterface.CloneAndFetchRepository":                           "operates on a freshly created clone in a new directory, not on the calling repository",
	"(*internal/gitstoretest.FakeStorer).Commit":                         "test double that forwards to the embedded Storer",
	// sync / reconcile / transfer wrappers (C15 governs them)
	"(*experimental/gittuf.Repository).sync":                        "sync: moves local refs to tips recorded by remote RSL entries; deletes its temporary tracker (C15.sync-gates)",
	"(*experimental/gittuf.Repository).ReconcileLocalRSLWithRemote": "reconcile: fetches remote RSL into the tracker / fast-forward (C15)",
	"(*experimental/gittuf.Repository).PushRSL":                     "pushes rsl.Ref (fast-forward only refspec, C15.ff-refspecs)",
	"(*experimental/gittuf.Repository).PullRSL":                     "fetches rsl.Ref (fast-forward only, C15.ff-refspecs)",
	"(*experimental/gittuf.Repository).PushPolicy":                  "pushes policy refs (fast-forward only, C15.ff-refspecs)",
	"(*experimental/gittuf.Repository).PullPolicy":                  "fetches policy refs (fast-forward only, C15.ff-refspecs)",
	"(*experimental/gittuf.Repository).InvokeHooksForStage":         "pre-push hook: fetches the remote RSL into a tracker ref",
	// helpers compiled into non-test files
	"internal/common.AddNTestCommitsToSpecifiedRef": "test helper (commits to a caller-chosen user branch)",
	"internal/git-remote-gittuf.run":                "git remote helper: sets refs to fetched tips (transport)",
}

// rawRefCommands are git subcommands that move references; inside
// pkg/gitinterface they may be issued only by the listed primitives.
var rawRefCommands = map[string][]string{
	"update-ref":   {"(*pkg/gitinterface.Repository).SetReference", "(*pkg/gitinterface.Repository).DeleteReference", "(*pkg/gitinterface.Repository).CheckAndSetReference"},
	"symbolic-ref": {"(*pkg/gitinterface.Repository).SetSymbolicReference", "(*pkg/gitinterface.Repository).GetSymbolicReferenceTarget"},
	"fetch":        {"(*pkg/gitinterface.Repository).FetchRefSpec", "(*pkg/gitinterface.Repository).FetchObject"},
	"push":         {"(*pkg/gitinterface.Repository).PushRefSpec"},
	"clone":        {"pkg/gitinterface.CloneAndFetchRepository"},
	"branch":       {}, "checkout": {}, "reset": {}, "tag": {}, "switch": {}, "pull": {}, "rebase": {}, "merge": {}, "commit": {}, "update-index": {}, "gc": {}, "prune": {},
}

// firstConstOfSlice evaluates the first element of a []string built in the
// function (literal, possibly extended by append).
func firstConstOfSlice(v ssa.Value, depth int) (string, bool) {
	if depth > 8 {
		return "", false
	}
	res, set := "", false
	for _, root := range eng.Roots(v) {
		var s string
		ok := false
		switch x := root.(type) {
		case *ssa.Slice:
			if al, isAl := x.X.(*ssa.Alloc); isAl {
				for _, ref := range *al.Referrers() {
					if ia, isIA := ref.(*ssa.IndexAddr); isIA {
						if i, isC := eng.ConstInt(ia.Index); isC && i == 0 {
							for _, r2 := range *ia.Referrers() {
								if st, isSt := r2.(*ssa.Store); isSt {
									s, ok = eng.ConstString(st.Val)
								}
							}
						}
					}
				}
			} else {
				s, ok = firstConstOfSlice(x.X, depth+1)
			}
		case *ssa.Call:
			if b, isB := x.Call.Value.(*ssa.Builtin); isB && b.Name() == "append" {
				s, ok = firstConstOfSlice(x.Call.Args[0], depth+1)
			}
		}
		if !ok {
			return "", false
		}
		if set && s != res {
			return "", false
		}
		res, set = s, true
	}
	return res, set
}

// executorCalls lists (function, subcommand) for every r.executor(...) call in pkg/gitinterface.
type execCall struct {
	Fn   *ssa.Function
	Call Call
	Sub  string
	Args []ssa.Value // constant-or-not argument values when built at the call site
	OK   bool
}

func executorCalls(c *Ctx) []execCall {
	var out []execCall
	c.ModuleFuncs(func(fn *ssa.Function) {
		for _, k := range eng.CallsTo(fn, false, "(*pkg/gitinterface.Repository).executor") {
			ec := execCall{Fn: rootFn(fn), Call: k}
			a := k.Arg(0)
			if els := eng.VariadicElems(a); len(els) > 0 {
				ec.Args = els
				ec.Sub, ec.OK = eng.ConstString(els[0])
			} else {
				ec.Sub, ec.OK = firstConstOfSlice(a, 0)
			}
			out = append(out, ec)
		}
	})
	return out
}

// ResetCaches drops per-program memoisation (used by tools that analyse many
// variants in one process).
func ResetCaches() { refWriteCache = nil; errDiscCache = nil }
