package rules

import (
	"go/token"
	"sort"
	"strings"

	"golang.org/x/tools/go/ssa"

	"verif/checker/eng"
)

func init() {
	Meta["C12"] = PropMeta{
		Explanation: "Static necessary conditions of 'the policy ref advances only to verified descendants that verification accepts': every successful path of policy.Apply passes, in this order, reconciliation, the reference/log consistency checks, the ancestry test against the current policy, loading and self-verifying the staged state, moving the policy reference and recording the same value in the log; what verification later demands of a policy entry (the previous policy's VerifyNewState) is demanded by Apply before publishing; only the enumerated functions write the policy, staging and attestation references; Discard restores staging from the policy reference; every root-of-trust mutator hands updateRootMetadata a root obtained through the signer-authorisation guard for the same state and signer, and only the enumerated functions replace the root envelope. Sequences of API operations and the refs after each step are NOT decided.",
		Decides:     []string{"Apply gate order", "Apply demands what the verifier demands (violated today: F12)", "who-may-write policy/staging/attestation refs", "Discard shape", "signer guard at every updateRootMetadata call site"},
		NotDecided:  []string{"state of the references after arbitrary operation sequences", "that published policies verify for concrete key material"},
	}
	reg(&eng.Rule{ID: "C12.apply-gates", Prop: "C12", Floor: 10,
		Doc: "Every nil-error return of policy.Apply is reached only after, in order: ReconcileStaging ok; reference/log agreement (entry target equals tip, exactly-one-present → ErrInvalidPolicy); KnowsCommit(stagingTip, policyTip) true when a policy tip exists; LoadCurrentState(PolicyStagingRef) and state.Verify ok; SetReference(PolicyRef, stagingTip); NewReferenceEntry(PolicyRef, stagingTip).Commit with the same stagingTip read from PolicyStagingRef.",
		Run: c12ApplyGates})
	reg(&eng.Rule{ID: "C12.writer-agrees-with-verifier", Prop: "C12", Floor: 1,
		Doc: "When a policy is already applied, Apply's success path passes through currentPolicy.VerifyNewState(ctx, stagedState) — the check LoadState / VerifyRelativeForRef will later make on the published entry.",
		Run: c12WriterAgrees})
	reg(&eng.Rule{ID: "C12.policy-ref-writers", Prop: "C12", Floor: 9,
		Doc: "Constant-ref writers: PolicyRef — only Apply; PolicyStagingRef — State.Commit, Discard, ReconcileStaging; attestations.Ref — Attestations.Commit. (Dynamic-ref writers are the frozen table checked by C03.writers.)",
		Run: c12RefWriters})
	reg(&eng.Rule{ID: "C12.discard", Prop: "C12", Floor: 3,
		Doc: "Discard sets PolicyStagingRef to the value read from PolicyRef, or deletes it when no policy reference exists.",
		Run: c12Discard})
	reg(&eng.Rule{ID: "C12.signer-guard", Prop: "C12", Floor: 27,
		Doc: "Every call of (*Repository).updateRootMetadata(ctx, state, signer, rootMetadata, …) has rootMetadata = r.loadRootMetadata(state, k) for the same state with k = signer.KeyID() of the same signer; loadRootMetadata returns ErrUnauthorizedKey unless isKeyAuthorized(rootMetadata.GetRootPrincipals(), keyID); RootEnvelope is replaced only by updateRootMetadata, SignRoot (re-signs the unchanged payload) and the loader.",
		Run: c12SignerGuard})
}

const fnApply = "internal/policy.Apply"

func c12ApplyGates(c *Ctx, r *R) {
	fn := r.Fn(fnApply)
	if fn == nil {
		return
	}
	type gate struct {
		name string
		k    Call
		ok   bool
	}
	find := func(name string, ks []Call) gate {
		if len(ks) != 1 {
			r.Bad("gate:"+name, fn.Pos(), "Apply: expected exactly one %s, found %d", name, len(ks))
			return gate{name: name}
		}
		return gate{name, ks[0], true}
	}
	var stagingRead, policyRead Call
	for _, k := range eng.CallsToMethod(fn, false, "GetReference", storageRecvs...) {
		if s, ok := eng.ConstString(k.Arg(0)); ok && s == refStaging {
			stagingRead = k
		} else if ok && s == refPolicy {
			policyRead = k
		}
	}
	var setRefs, knows []Call
	for _, k := range eng.CallsToMethod(fn, false, "SetReference", storageRecvs...) {
		setRefs = append(setRefs, k)
	}
	for _, k := range eng.CallsToMethod(fn, false, "KnowsCommit", storageRecvs...) {
		knows = append(knows, k)
	}
	var commits []Call
	for _, k := range eng.Calls(fn, false) {
		if k.Name() == "(*pkg/rsl.ReferenceEntry).Commit" {
			commits = append(commits, k)
		}
	}
	// the gate is the load of the *staged* state; Apply may load other states too
	// (the applied policy, to chain the staged root to it — C12.writer-agrees-with-verifier)
	var stagedLoads []Call
	for _, k := range eng.CallsTo(fn, false, "internal/policy.LoadCurrentState") {
		if s, ok := eng.ConstString(k.Arg(2)); ok && s != refStaging {
			continue
		}
		stagedLoads = append(stagedLoads, k)
	}
	gates := []gate{
		find("ReconcileStaging", eng.CallsTo(fn, false, "internal/policy.ReconcileStaging")),
		find("KnowsCommit", knows),
		find("LoadCurrentState", stagedLoads),
		find("State.Verify", eng.CallsTo(fn, false, fnSV)),
		find("SetReference", setRefs),
		find("ReferenceEntry.Commit", commits),
	}
	if stagingRead.Instr == nil || policyRead.Instr == nil {
		r.Bad("tip-reads", fn.Pos(), "Apply does not read both the policy and the staging reference by constant name")
		return
	}
	// each gate's success edge is required for every success return
	for _, g := range gates {
		if !g.ok {
			continue
		}
		r.Site(1)
		cut := eng.NewCut()
		if g.name == "KnowsCommit" {
			// required only when a policy tip exists: the edge policyTip.IsZero() true bypasses it legitimately
			te := eng.BoolEdges(fn, eng.PSame(g.k.Result(0)), true)
			cut.AddEdges(te...)
			cut.AddEdges(eng.BoolEdges(fn, eng.PMethod("IsZero", sameObj(policyRead.Result(0))), true)...)
			errPropagates(c, r, "gate-error:"+g.name, g.k)
			for _, e := range eng.BoolEdges(fn, eng.PSame(g.k.Result(0)), false) {
				if p := eng.LeadsOnlyToErr(e, "ErrNotAncestor"); p != nil {
					r.Bad("not-ancestor-error", pos(p.Target), "a staged state that does not descend from the applied policy is not rejected with ErrNotAncestor")
				} else {
					r.Ok("not-ancestor-error", g.k.Pos(), "!KnowsCommit → ErrNotAncestor")
				}
			}
		} else if !g.k.OKPoints(cut) {
			r.Bad("gate:"+g.name, g.k.Pos(), "Apply drops the error of %s", g.name)
			continue
		}
		mustPass(c, r, "gate:"+g.name, fn, isSuccessReturn, cut, "Apply succeeds only after "+g.name+" succeeded", "Apply can report success without "+g.name+" having succeeded")
	}
	// order
	for i := 0; i+1 < len(gates); i++ {
		a, b := gates[i], gates[i+1]
		if !a.ok || !b.ok {
			continue
		}
		cut := eng.NewCut()
		if a.name == "KnowsCommit" {
			cut.AddEdges(eng.BoolEdges(fn, eng.PSame(a.k.Result(0)), true)...)
			cut.AddEdges(eng.BoolEdges(fn, eng.PMethod("IsZero", sameObj(policyRead.Result(0))), true)...)
		} else {
			a.k.OKPoints(cut)
		}
		mustPass(c, r, "order:"+a.name+"<"+b.name, fn, isInstr(b.k.Instr), cut, b.name+" happens only after "+a.name+" succeeded", b.name+" can happen before "+a.name+" succeeded (validation after the write / out of order)")
	}
	// arguments
	if g := gates[1]; g.ok {
		r.Check(sameObjVal(g.k.Arg(0), stagingRead.Result(0)) && sameObjVal(g.k.Arg(1), policyRead.Result(0)), "ancestry-operands", g.k.Pos(), "KnowsCommit(stagingTip, policyTip)", "ancestry is not tested as KnowsCommit(staging tip, policy tip)")
	}
	if g := gates[2]; g.ok {
		s, ok := eng.ConstString(g.k.Arg(2))
		names, _, _ := optionNames(g.k)
		r.Check(ok && s == refStaging && len(names) == 0, "loads-staging-via-log", g.k.Pos(), "LoadCurrentState(PolicyStagingRef) without bypass options", "Apply does not load the staged state through the log (LoadCurrentState(PolicyStagingRef) with no options)")
	}
	if g := gates[3]; g.ok && gates[2].ok {
		r.Check(sameObjVal(g.k.Recv(), gates[2].k.Result(0)), "verifies-staged-state", g.k.Pos(), "the state verified is the staged state", "State.Verify is not applied to the staged state")
	}
	if g := gates[4]; g.ok {
		s, ok := eng.ConstString(g.k.Arg(0))
		r.Check(ok && s == refPolicy && sameObjVal(g.k.Arg(1), stagingRead.Result(0)), "publishes-staging-tip", g.k.Pos(), "SetReference(PolicyRef, stagingTip)", "Apply does not set PolicyRef to the tip read from PolicyStagingRef")
	}
	if g := gates[5]; g.ok {
		okE := false
		for _, root := range eng.Roots(g.k.Recv()) {
			if nk, _, isCall := eng.RootCall(root); isCall && nk.Name() == "pkg/rsl.NewReferenceEntry" {
				s, ok := eng.ConstString(nk.Arg(0))
				okE = ok && s == refPolicy && sameObjVal(nk.Arg(1), stagingRead.Result(0))
			}
		}
		r.Check(okE, "records-what-it-published", g.k.Pos(), "the log entry records (PolicyRef, stagingTip)", "the log entry recorded by Apply does not name (PolicyRef, the tip it just published)")
	}
	errPropagates(c, r, "staging-read-error", stagingRead)
	// consistency: entry target equals tip; exactly one present → ErrInvalidPolicy
	eq := eng.BoolEdges(fn, func(v ssa.Value) bool {
		k, _, ok := eng.RootCall(v)
		return ok && k.Method() == "Equal" && eng.PMethod("GetTargetID", eng.PCall("pkg/rsl.GetLatestReferenceUpdaterEntry", 0))(k.Recv()) && sameObjVal(k.Arg(0), policyRead.Result(0))
	}, false)
	okC := len(eq) > 0
	for _, e := range eq {
		if p := eng.LeadsOnlyToErr(e, "ErrInvalidPolicy"); p != nil {
			okC = false
		}
	}
	r.Check(okC, "ref-matches-log", fn.Pos(), "policy reference ≠ latest policy entry's target → ErrInvalidPolicy", "Apply no longer refuses when the policy reference disagrees with its latest log entry")
	n := 0
	for _, ret := range eng.Returns(fn) {
		if eng.Sentinels(eng.RetErr(ret))["ErrInvalidPolicy"] {
			n++
		}
	}
	r.Check(n >= 2, "exactly-one-present-refused", fn.Pos(), "both ErrInvalidPolicy exits present (mismatch, only one of ref/entry present)", "the exit for 'only one of policy reference / log entry exists' disappeared")
	if gates[4].ok {
		for _, e := range eq {
			_ = e
		}
		// consistency check precedes the write
		for _, ret := range eng.Returns(fn) {
			if eng.Sentinels(eng.RetErr(ret))["ErrInvalidPolicy"] {
				r.Check(!gates[4].k.Block().Dominates(ret.Block()), "consistency-before-write", pos(ret), "consistency is checked before the policy reference is moved", "a consistency error is returned after the policy reference was already moved")
			}
		}
	}
}

func c12WriterAgrees(c *Ctx, r *R) {
	fn := r.Fn(fnApply)
	if fn == nil {
		return
	}
	r.Site(1)
	vns := eng.CallsTo(fn, false, fnVNS)
	if len(vns) == 0 {
		r.Bad("apply-chains-root", fn.Pos(), "policy.Apply publishes the staged state after self-verification only: it never checks currentPolicy.VerifyNewState(ctx, staged) (root signed by a threshold of the current root's principals, no rollback), which LoadState and VerifyRelativeForRef demand of every applied policy entry — Apply can publish a state that all later verification rejects")
		return
	}
	staged := eng.PCall("internal/policy.LoadCurrentState", 0, nil, nil, eng.PStr(refStaging))
	for _, v := range vns {
		okA := staged(v.Arg(1))
		cur := false
		for _, root := range eng.Roots(v.Recv()) {
			if k, _, isCall := eng.RootCall(root); isCall && (k.Name() == "internal/policy.LoadCurrentState" || k.Name() == fnLoadState) {
				cur = true
			}
		}
		r.Check(okA && cur, "apply-chains-root-args", v.Pos(), "current.VerifyNewState(ctx, staged)", "VerifyNewState in Apply is not applied from the current policy state to the staged state")
		cut := eng.NewCut()
		v.OKPoints(cut)
		// bypass allowed only when no policy is applied yet
		for _, k := range eng.CallsToMethod(fn, false, "GetReference", storageRecvs...) {
			if s, ok := eng.ConstString(k.Arg(0)); ok && s == refPolicy {
				cut.AddEdges(eng.BoolEdges(fn, eng.PMethod("IsZero", sameObj(k.Result(0))), true)...)
			}
		}
		mustPass(c, r, "apply-chains-root", fn, isSuccessReturn, cut, "Apply succeeds only if the current policy accepts the staged root (or none is applied yet)", "Apply can succeed without the current policy's VerifyNewState accepting the staged state")
	}
}

func c12RefWriters(c *Ctx, r *R) {
	allowed := map[string]map[string]bool{
		refPolicy:   {"internal/policy.Apply": true},
		refStaging:  {"(*internal/policy.State).Commit": true, "internal/policy.Discard": true, "internal/policy.ReconcileStaging": true},
		refAttest:   {"(*internal/attestations.Attestations).Commit": true},
		refCacheRef: {"(*internal/cache.Persistent).Commit": true, "internal/cache.DeletePersistentCache": true},
	}
	names := map[string]string{refPolicy: "policy", refStaging: "policy-staging", refAttest: "attestations", refCacheRef: "cache"}
	for _, w := range refWrites(c) {
		if w.Dynamic {
			continue
		}
		al, tracked := allowed[w.Ref]
		if !tracked {
			continue
		}
		r.Site(1)
		n := fname(w.Fn)
		key := "writer:" + names[w.Ref] + ":" + n + ":" + w.Method
		if al[n] {
			r.Ok(key, w.Call.Pos(), "%s(%s) by its owner", w.Method, w.Ref)
		} else {
			owners := []string{}
			for o := range al {
				owners = append(owners, o)
			}
			sort.Strings(owners)
			r.Bad(key, w.Call.Pos(), "%s writes %s (%s) but only %s may: the reference can move without the gates those functions enforce", n, w.Ref, w.Method, strings.Join(owners, ", "))
		}
	}
	// other constant gittuf refs written anywhere (new managed ref) → classify
	for _, w := range refWrites(c) {
		if w.Dynamic || !strings.HasPrefix(w.Ref, "refs/gittuf/") {
			continue
		}
		if _, ok := allowed[w.Ref]; ok || w.Ref == refRSL {
			continue
		}
		r.Undecided("unclassified-ref:"+w.Ref, w.Call.Pos(), "%s writes gittuf reference %s which no rule classifies", fname(w.Fn), w.Ref)
	}
}

func c12Discard(c *Ctx, r *R) {
	fn := r.Fn("internal/policy.Discard")
	if fn == nil {
		return
	}
	var rd Call
	for _, k := range eng.CallsToMethod(fn, false, "GetReference", storageRecvs...) {
		rd = k
	}
	if rd.Instr == nil {
		r.Bad("reads-policy", fn.Pos(), "Discard does not read the policy reference")
		return
	}
	s, ok := eng.ConstString(rd.Arg(0))
	r.Check(ok && s == refPolicy, "reads-policy", rd.Pos(), "reads PolicyRef", "Discard reads a reference other than PolicyRef")
	errPropagates(c, r, "read-error", rd, "ErrReferenceNotFound")
	sets := eng.CallsToMethod(fn, false, "SetReference", storageRecvs...)
	if k, ok := oneCall(r, "restores", fn, sets, "SetReference"); ok {
		s, okc := eng.ConstString(k.Arg(0))
		r.Check(okc && s == refStaging && sameObjVal(k.Arg(1), rd.Result(0)), "restores-from-policy", k.Pos(), "SetReference(PolicyStagingRef, policy tip)", "Discard does not reset staging to the value read from PolicyRef")
		errPropagates(c, r, "restore-error", k)
		cut := eng.NewCut()
		rd.OKPoints(cut)
		mustPass(c, r, "restore-after-read", fn, isInstr(k.Instr), cut, "reset happens only after the policy tip was read", "staging can be reset without a successful read of the policy reference")
	}
	dels := eng.CallsToMethod(fn, false, "DeleteReference", storageRecvs...)
	if k, ok := oneCall(r, "deletes", fn, dels, "DeleteReference"); ok {
		s, okc := eng.ConstString(k.Arg(0))
		r.Check(okc && s == refStaging, "deletes-staging", k.Pos(), "DeleteReference(PolicyStagingRef)", "Discard deletes a reference other than PolicyStagingRef")
		ev, _ := rd.ErrResult()
		nf := eng.BoolEdges(fn, eng.PCall("errors.Is", 0, eng.PSame(ev), eng.PGlobal("ErrReferenceNotFound")), true)
		mustPass(c, r, "delete-only-if-no-policy", fn, isInstr(k.Instr), eng.NewCut().AddEdges(nf...), "staging is deleted only when no policy reference exists", "Discard can delete staging although a policy reference exists")
	}
}

func c12SignerGuard(c *Ctx, r *R) {
	const upd = "(*experimental/gittuf.Repository).updateRootMetadata"
	const load = "(*experimental/gittuf.Repository).loadRootMetadata"
	n := 0
	c.ModuleFuncs(func(fn *ssa.Function) {
		for _, k := range eng.CallsTo(fn, false, upd) {
			n++
			r.Site(1)
			key := "site:" + fname(rootFn(fn))
			state, signer, root := k.Arg(1), k.Arg(2), k.Arg(3)
			okAll := true
			why := ""
			roots := eng.Roots(root)
			if len(roots) == 0 {
				okAll, why = false, "no origin"
			}
			for _, rt := range roots {
				lk, idx, isCall := eng.RootCall(rt)
				if !isCall || idx != 0 || lk.Name() != load {
					okAll, why = false, "root metadata does not come from loadRootMetadata (the signer-authorisation guard is bypassed)"
					continue
				}
				if !sameObjVal(lk.Arg(0), state) {
					okAll, why = false, "loadRootMetadata was given a different state than the one updated"
				}
				kidOK := false
				for _, kr := range eng.Roots(lk.Arg(1)) {
					if kk, ki, isCall := eng.RootCall(kr); isCall && ki == 0 && kk.Method() == "KeyID" && sameObjVal(kk.Recv(), signer) {
						kidOK = true
					}
				}
				if !kidOK {
					okAll, why = false, "the key id checked is not signer.KeyID() of the signer that signs the new root"
				}
				if !lk.ErrChecked() {
					okAll, why = false, "loadRootMetadata's error is dropped"
				}
			}
			if okAll {
				r.Ok(key, k.Pos(), "root = loadRootMetadata(state, signer.KeyID()) for the same state and signer")
			} else {
				r.Bad(key, k.Pos(), "%s calls updateRootMetadata with a root that did not pass the signer guard: %s — a signer who is not a root principal of the state being edited could change the root of trust", fname(rootFn(fn)), why)
			}
		}
	})
	// loadRootMetadata body
	if fn := r.Fn(load); fn != nil {
		auth := eng.CallsTo(fn, false, "experimental/gittuf.isKeyAuthorized")
		if k, ok := oneCall(r, "guard", fn, auth, "isKeyAuthorized"); ok {
			r.Check(eng.PMethod("GetRootPrincipals", nil)(k.Arg(0)) && eng.PParam("keyID")(k.Arg(1)), "guard-args", k.Pos(), "isKeyAuthorized(rootMetadata.GetRootPrincipals(), keyID)", "the guard does not test the caller's key id against the ROOT principals")
			fe := eng.BoolEdges(fn, eng.PSame(k.Value()), false)
			okG := len(fe) > 0
			for _, e := range fe {
				if p := eng.LeadsOnlyToErr(e, "ErrUnauthorizedKey"); p != nil {
					okG = false
				}
			}
			r.Check(okG, "guard-rejects", k.Pos(), "unauthorised key → ErrUnauthorizedKey", "an unauthorised key is not rejected with ErrUnauthorizedKey")
			te := eng.BoolEdges(fn, eng.PSame(k.Value()), true)
			mustPass(c, r, "guard-dominates", fn, isSuccessReturn, eng.NewCut().AddEdges(te...), "root metadata is returned only for authorised keys", "loadRootMetadata can return the root metadata without the authorisation test passing")
		}
		for _, k := range eng.Calls(fn, false) {
			if k.Method() == "GetRootMetadata" {
				r.Check(eng.PParam("state")(k.Recv()), "guard-state", k.Pos(), "principals come from the state being edited", "root principals are not read from the state handed in")
			}
		}
	}
	if fn := r.Fn("experimental/gittuf.isKeyAuthorized"); fn != nil {
		eq := eng.RelEdges(fn, token.EQL, eng.PMethod("ID", nil), eng.PParam("keyID"))
		r.Check(len(eq) > 0, "guard-compares-id", fn.Pos(), "principal.ID() == keyID", "isKeyAuthorized no longer compares principal ids with the key id")
		for _, ret := range eng.Returns(fn) {
			if b, ok := eng.ConstBool(ret.Results[0]); ok && b {
				p := eng.FindPathFromEntry(fn, isInstr(ret), eng.NewCut().AddEdges(eq...))
				r.Check(p == nil, "guard-true-only-on-match", pos(ret), "true only when an id matched", "isKeyAuthorized can return true without a matching id")
			}
		}
	}
	// RootEnvelope writers
	okW := map[string]bool{upd: true, "(*experimental/gittuf.Repository).SignRoot": true, "internal/policy.LoadStateFromCommit": true}
	c.ModuleFuncs(func(fn *ssa.Function) {
		for _, b := range fn.Blocks {
			for _, in := range b.Instrs {
				st, ok := in.(*ssa.Store)
				if !ok {
					continue
				}
				fa, ok := st.Addr.(*ssa.FieldAddr)
				if !ok || fieldNameOf(fa) != "RootEnvelope" || !strings.HasSuffix(fa.X.Type().String(), "policy.StateMetadata") {
					continue
				}
				name := fname(rootFn(fn))
				// construction of a fresh StateMetadata literal is fine
				local := false
				for _, root := range eng.Roots(fa.X) {
					if al, ok := root.(*ssa.Alloc); ok && al.Parent() == fn {
						local = true
					}
				}
				r.Site(1)
				if okW[name] || local {
					r.Ok("root-envelope-writer:"+name, st.Pos(), "RootEnvelope replaced by an enumerated function")
				} else {
					r.Bad("root-envelope-writer:"+name, st.Pos(), "%s replaces State.Metadata.RootEnvelope outside updateRootMetadata / SignRoot: a root-of-trust change that bypasses the signer guard", name)
				}
			}
		}
	})
	// SignRoot re-signs the unchanged envelope
	if fn := r.Fn("(*experimental/gittuf.Repository).SignRoot"); fn != nil {
		for _, k := range eng.CallsTo(fn, false, "internal/signerverifier/dsse.SignEnvelope") {
			n, _, isF := eng.FieldLoad(k.Arg(1))
			r.Check(isF && n == "RootEnvelope", "signroot-unchanged-payload", k.Pos(), "SignRoot signs the existing root envelope", "SignRoot signs something other than the existing root envelope")
		}
	}
	_ = n
}
