package rules

import (
	"go/token"
	"go/types"
	"strings"

	"golang.org/x/tools/go/ssa"

	"verif/checker/eng"
)

func init() {
	Meta["C01"] = PropMeta{
		Explanation: "Static necessary conditions of 'verification accepts only histories authorized by the policy in force' — the wiring any correct verifier must have, decided on every CFG path of the anchored functions: every kind of entry that can move a user reference is judged (type-switch exhaustiveness; un-judged cases only for gittuf's own references); a violation is never dropped; the policy and attestation states used to judge an entry are the ones in force at the start of the range or loaded from in-range entries for the policy/attestation references, and a missing policy is an error; the three entry points hand VerifyRelativeForRef the documented (first, latest) pair for the requested reference; the object whose signature is checked is the RSL entry itself, under a namespace built from that entry's reference; the tip reported is the latest entry's target and the API compares it with the reference. The accept/reject verdict over histories and keys is NOT decided.",
		Decides:     []string{"every entry kind judged or explicitly a gittuf-internal reference", "violation not dropped (see C07 for the tolerated case)", "policy/attestation provenance at the judging call", "range arguments of the three entry points", "signature bound to the entry and its own reference", "tip = latest entry's target, compared with the reference"},
		NotDecided:  []string{"the verdict for concrete logs and key material", "threshold arithmetic (C05) and delegation walk (C06) are decided separately"},
	}
	reg(&eng.Rule{ID: "C01.judge-every-kind", Prop: "C01", Floor: 2,
		Doc: "In VerifyRelativeForRef every implementer of rsl.ReferenceUpdaterEntry has a type-switch case; from a case the walk may proceed to the next entry without calling verifyEntry only on an edge where GetRefName() equals the policy, policy-staging or attestations reference.",
		Run: c01JudgeEveryKind})
	reg(&eng.Rule{ID: "C01.policy-in-force", Prop: "C01", Floor: 4,
		Doc: "verifyEntry is reached only after currentPolicy == nil → ErrPolicyNotFound; an in-range policy state is loaded only from entries whose reference is the policy reference (and not the range's first entry); verifyEntry receives the walk's popped entry.",
		Run: c01PolicyInForce})
	reg(&eng.Rule{ID: "C01.range", Prop: "C01", Floor: 9,
		Doc: "VerifyRef passes (latest, latest); VerifyRefFull passes (first entry for the reference ∨ cached last-verified entry, latest); VerifyRefFromEntry passes (entry loaded from the given id, latest); 'latest' is GetLatestReferenceUpdaterEntry(repo, ForReference(target)) with no other option; the target string is passed through.",
		Run: c01Range})
	reg(&eng.Rule{ID: "C01.bound-to-entry", Prop: "C01", Floor: 6,
		Doc: "In verifyEntry / verifyTagEntry the git-rule call is verifyGitObjectAndAttestations(ctx, policy, \"git:\"+entry.RefName, entry.ID, …) — the object checked is the RSL entry and the namespace is built from the same entry's reference; its error becomes ErrVerificationFailed; gittuf's own references return early only for PolicyRef / attestations.Ref.",
		Run: c01BoundToEntry})
	reg(&eng.Rule{ID: "C01.tip", Prop: "C01", Floor: 7,
		Doc: "Result 0 of the three Verify* entry points is GetTargetID() of the same latest entry handed to VerifyRelativeForRef, whose error is result 1; gittuf.VerifyRef[FromEntry] pass that value to verifyRefTip, whose mismatch returns ErrRefStateDoesNotMatchRSL, and succeed only after it.",
		Run: c01Tip})
}

func c01JudgeEveryKind(c *Ctx, r *R) {
	fn := r.Fn(fnVRFR)
	if fn == nil {
		return
	}
	ve := eng.CallsTo(fn, false, "internal/policy.verifyEntry")
	if len(ve) != 1 {
		r.Undecided("anchor", fn.Pos(), "expected one verifyEntry call")
		return
	}
	iface := c.Type("pkg/rsl.ReferenceUpdaterEntry")
	if iface == nil {
		r.Undecided("anchor-iface", token.NoPos, "rsl.ReferenceUpdaterEntry not found")
		return
	}
	it := iface.Underlying().(*types.Interface)
	p := c.Pkg("pkg/rsl")
	// the popped element: entries[0]
	var kinds []*types.TypeName
	for _, name := range p.Types.Scope().Names() {
		tn, ok := p.Types.Scope().Lookup(name).(*types.TypeName)
		if !ok {
			continue
		}
		if _, isI := tn.Type().Underlying().(*types.Interface); isI {
			continue
		}
		if types.Implements(types.NewPointer(tn.Type()), it) {
			kinds = append(kinds, tn)
		}
	}
	gittufRef := func(v ssa.Value) bool {
		s, ok := eng.ConstString(v)
		return ok && (s == refPolicy || s == refStaging || s == refAttest)
	}
	okEdges := eng.RelEdges(fn, token.EQL, eng.PMethod("GetRefName", nil), gittufRef)
	for _, tn := range kinds {
		r.Site(1)
		var ta *ssa.TypeAssert
		for _, b := range fn.Blocks {
			for _, in := range b.Instrs {
				if x, ok := in.(*ssa.TypeAssert); ok && x.CommaOk {
					if pt, ok := x.AssertedType.(*types.Pointer); ok && types.Identical(pt.Elem(), tn.Type()) {
						// the switch in the outer (non-recovery) part: dominates verifyEntry or is a sibling case of it
						if ta == nil || x.Block().Index < ta.Block().Index {
							ta = x
						}
					}
				}
			}
		}
		key := "kind:" + tn.Name()
		if ta == nil {
			r.Bad(key, fn.Pos(), "VerifyRelativeForRef has no case for entry kind %s, which can record an update of a user reference", tn.Name())
			continue
		}
		// ok-true edge
		var okVal ssa.Value
		for _, ref := range *ta.Referrers() {
			if ex, isEx := ref.(*ssa.Extract); isEx && ex.Index == 1 {
				okVal = ex
			}
		}
		if okVal == nil {
			r.Undecided(key, ta.Pos(), "type switch shape not recognised")
			continue
		}
		te := eng.BoolEdges(fn, eng.PSame(okVal), true)
		bad := false
		for _, e := range te {
			next := func(in ssa.Instruction) bool {
				if isSuccessReturn(in) {
					return true
				}
				// next iteration: the pop (first type assert of the switch re-executed)
				if x, ok := in.(*ssa.TypeAssert); ok && x.CommaOk && x.X == ta.X && x.Block().Dominates(ta.Block()) {
					return true
				}
				return false
			}
			pth := eng.FindPath(e.To(), 0, next, eng.NewCut().AddInstrs(ve[0].Instr).AddEdges(okEdges...))
			if pth != nil {
				bad = true
				r.Bad(key, ta.Pos(), "an entry of kind %s is accepted without any verification: from its case the walk proceeds to the next entry (or succeeds) without calling verifyEntry and without the entry being for the policy / policy-staging / attestations reference; witness %s", tn.Name(), c.DescribePath(pth))
			}
		}
		if !bad {
			r.Ok(key, ta.Pos(), "entries of kind %s are judged by verifyEntry unless they are for gittuf's own references", tn.Name())
		}
	}
}

func c01PolicyInForce(c *Ctx, r *R) {
	fn := r.Fn(fnVRFR)
	if fn == nil {
		return
	}
	ve := eng.CallsTo(fn, false, "internal/policy.verifyEntry")
	if len(ve) != 1 {
		r.Undecided("anchor", fn.Pos(), "expected one verifyEntry call")
		return
	}
	k := ve[0]
	r.Site(1)
	pol := k.Arg(2)
	nonNil := eng.RelEdges(fn, token.NEQ, exactly(pol), eng.PNil())
	if len(nonNil) == 0 {
		r.Bad("missing-policy-is-error", k.Pos(), "no currentPolicy == nil test before verifyEntry")
	} else {
		mustPass(c, r, "missing-policy-is-error", fn, isInstr(k.Instr), eng.NewCut().AddEdges(nonNil...), "verifyEntry runs only with a policy; none → error", "verifyEntry can run with a nil policy")
		for _, e := range nonNil {
			if !e.To().Dominates(k.Block()) {
				continue // another test of the same slot (e.g. whether a previous policy exists)
			}
			fe := eng.Edge{From: e.From, Idx: 1 - e.Idx}
			if p := eng.LeadsOnlyToErr(fe, "ErrPolicyNotFound"); p != nil {
				r.Bad("missing-policy-sentinel", pos(p.Target), "a missing policy does not return ErrPolicyNotFound")
			} else {
				r.Ok("missing-policy-sentinel", k.Pos(), "currentPolicy == nil → ErrPolicyNotFound")
			}
		}
	}
	r.Check(eng.PParam("ctx")(k.Arg(0)) && eng.PField("repo", nil)(k.Arg(1)), "verify-entry-store", k.Pos(), "verifyEntry(ctx, v.repo, …)", "verifyEntry is not given the verifier's repository")
	// the judged entry is the popped one: a *ReferenceEntry from the type switch over entries[0]
	popped := false
	for _, root := range eng.Roots(k.Arg(4)) {
		if u, ok := root.(*ssa.UnOp); ok {
			if ia, ok := u.X.(*ssa.IndexAddr); ok {
				if i, isC := eng.ConstInt(ia.Index); isC && i == 0 && ia.X.Type().String() == ruSlice {
					popped = true
				}
			}
		}
	}
	r.Check(popped, "judges-popped-entry", k.Pos(), "the judged entry is entries[0] of the queue", "verifyEntry is not applied to the entry popped from the queue")
	// in-range policy load only for PolicyRef entries other than the first
	for _, l := range eng.CallsTo(fn, false, fnLSFE) {
		r.Site(1)
		isPol := eng.RelEdges(fn, token.EQL, eng.PMethod("GetRefName", nil), eng.PStr(refPolicy))
		mustPass(c, r, "in-range-policy-only-policy-ref", fn, isInstr(l.Instr), eng.NewCut().AddEdges(isPol...), "an in-range policy state is loaded only from entries for the policy reference", "a policy state can be loaded from an entry that is not for refs/gittuf/policy")
		errPropagates(c, r, "in-range-policy-load-error", l)
	}
	// the queue is consumed one entry at a time: every re-slicing of an entry queue drops exactly the
	// element that was just read (entries[0] … entries = entries[1:])
	okPop, nPop := true, 0
	for _, b := range fn.Blocks {
		for _, in := range b.Instrs {
			sl, ok := in.(*ssa.Slice)
			if !ok || sl.X.Type().String() != ruSlice || sl.Low == nil {
				continue
			}
			nPop++
			lo, isC := eng.ConstInt(sl.Low)
			if !isC || lo != 1 || sl.High != nil {
				okPop = false
			}
		}
	}
	r.Check(okPop && nPop >= 2, "queue-consumed-one-by-one", fn.Pos(), "both queues are consumed by entries[0] / entries[1:]", "an entry queue is advanced by something other than [1:]: entries would be skipped without being judged (or examined for the recovery)")
	// every in-range policy / attestations entry takes effect: from the edge on which the popped
	// entry is for the policy (attestations) reference, the next entry is reached only after the
	// state was loaded from that entry and stored in the slot verifyEntry reads — except the policy
	// entry that IS firstEntry (already loaded)
	heads := loopHeads(fn)
	next := func(in ssa.Instruction) bool { return heads[in] || isSuccessReturn(in) }
	isFirstEq := eng.BoolEdges(fn, func(v ssa.Value) bool {
		ek, _, ok := eng.RootCall(v)
		if !ok || ek.Method() != "Equal" {
			return false
		}
		mentionsFirst := false
		for _, side := range []ssa.Value{ek.Recv(), ek.Arg(0)} {
			eng.WalkOperands(side, 5, func(w ssa.Value) {
				if eng.PParam("firstEntry")(w) {
					mentionsFirst = true
				}
			})
		}
		return mentionsFirst
	}, true)
	type slot struct {
		key, ref, loader string
		arg              ssa.Value
	}
	for _, sl := range []slot{{"policy", refPolicy, fnLSFE, k.Arg(2)}, {"attestations", refAttest, "internal/attestations.LoadAttestationsForEntry", k.Arg(3)}} {
		isRef := eng.RelEdges(fn, token.EQL, eng.PMethod("GetRefName", nil), eng.PStr(sl.ref))
		loads := eng.CallsTo(fn, false, sl.loader)
		cut := eng.NewCut()
		stored := false
		for _, l := range loads {
			// only loads for the popped entry (not the initial state)
			if !eng.PParam("firstEntry")(l.Arg(1)) && !eng.AnyRootFromCall(l.Arg(1), 0, "(internal/policy.searcher).FindAttestationsEntryFor", "(internal/policy.searcher).FindPolicyEntryFor") {
				l.OKPoints(cut)
				for _, a := range eng.Assignments(sl.arg) {
					if lk, idx, ok := eng.RootCall(a.Val); ok && idx == 0 && lk.Instr == l.Instr {
						stored = true
					}
				}
			}
		}
		if sl.key == "policy" {
			cut.AddEdges(isFirstEq...)
		}
		okU := len(isRef) > 0 && stored
		var wit *eng.Path
		for _, e := range isRef {
			if p := eng.FindPath(e.To(), 0, next, cut); p != nil {
				okU = false
				wit = p
			}
		}
		msg := "an in-range entry for the " + sl.key + " reference can be passed over without its state being loaded and put in force (later entries would be judged by a stale " + sl.key + " state)"
		if wit != nil {
			msg += "; witness " + c.DescribePath(wit)
		} else if !stored {
			msg += ": the state loaded from the entry never reaches verifyEntry's " + sl.key + " argument"
		}
		r.Check(okU, "updates-applied:"+sl.key, k.Pos(), "every in-range "+sl.key+" entry is loaded and put in force before the next entry is judged", msg)
	}
	// queue comes from GetReferenceUpdaterEntriesInRangeForRef(repo, firstEntry.GetID(), lastEntry.GetID(), target)
	rg := eng.CallsTo(fn, false, "pkg/rsl.GetReferenceUpdaterEntriesInRangeForRef")
	if q, ok := oneCall(r, "range-query", fn, rg, "GetReferenceUpdaterEntriesInRangeForRef"); ok {
		okA := eng.PMethod("GetID", eng.PParam("firstEntry"))(q.Arg(1)) && eng.PMethod("GetID", eng.PParam("lastEntry"))(q.Arg(2)) && eng.PParam("target")(q.Arg(3))
		r.Check(okA, "range-query-args", q.Pos(), "entries = range(firstEntry.GetID(), lastEntry.GetID(), target)", "the verified range is not (firstEntry, lastEntry, target)")
		errPropagates(c, r, "range-query-error", q)
	}
}

func latestForTarget(fn *ssa.Function, r *R, c *Ctx, short string) (Call, bool) {
	ks := eng.CallsTo(fn, false, "pkg/rsl.GetLatestReferenceUpdaterEntry")
	k, ok := oneCall(r, "latest:"+short, fn, ks, "GetLatestReferenceUpdaterEntry")
	if !ok {
		return k, false
	}
	names, ctors, okb := optionNames(k)
	okO := okb && sameStringSet(names, "ForReference")
	if f, has := optionCtor(ctors, "ForReference"); has {
		okO = okO && eng.PParam("target")(f.Arg(0))
	}
	r.Check(okO, "latest-options:"+short, k.Pos(), "latest = GetLatestReferenceUpdaterEntry(repo, ForReference(target))", "the 'latest entry' lookup in "+short+" carries options {"+strings.Join(names, ",")+"}; expected exactly ForReference(target)")
	errPropagates(c, r, "latest-error:"+short, k)
	return k, true
}

func c01Range(c *Ctx, r *R) {
	type ep struct{ spec, short string }
	for _, e := range []ep{{"(*internal/policy.PolicyVerifier).VerifyRef", "VerifyRef"}, {"(*internal/policy.PolicyVerifier).VerifyRefFull", "VerifyRefFull"}, {"(*internal/policy.PolicyVerifier).VerifyRefFromEntry", "VerifyRefFromEntry"}} {
		fn := r.Fn(e.spec)
		if fn == nil {
			continue
		}
		r.Site(1)
		lk, ok := latestForTarget(fn, r, c, e.short)
		if !ok {
			continue
		}
		latest := sameObj(lk.Result(0))
		vr := eng.CallsTo(fn, false, fnVRFR)
		vk, ok := oneCall(r, "walk:"+e.short, fn, vr, "VerifyRelativeForRef")
		if !ok {
			continue
		}
		r.Check(latest(vk.Arg(2)), "last-is-latest:"+e.short, vk.Pos(), "range ends at the latest entry for the reference", e.short+" does not end the verified range at the latest entry for the reference")
		r.Check(eng.PParam("target")(vk.Arg(3)), "target-through:"+e.short, vk.Pos(), "target passed through", e.short+" verifies a reference other than the requested one")
		first := vk.Arg(1)
		switch e.short {
		case "VerifyRef":
			r.Check(latest(first), "first:"+e.short, vk.Pos(), "latest-only: first = latest", "VerifyRef's range does not start at the latest entry")
		case "VerifyRefFull":
			okF := true
			sawFirst := false
			for _, root := range eng.Roots(first) {
				if eng.IsNilConst(root) {
					continue
				}
				k, i, isCall := eng.RootCall(root)
				switch {
				case isCall && i == 0 && k.Name() == "pkg/rsl.GetFirstReferenceUpdaterEntryForRef" && eng.PParam("target")(k.Arg(1)):
					sawFirst = true
					errPropagates(c, r, "first-error:"+e.short, k)
				case isCall && i == 0 && k.Name() == "internal/policy.loadRSLReferenceUpdaterEntry" && eng.PMethod("GetLastVerifiedEntryForRef", nil, eng.PParam("target"))(k.Arg(1)):
					errPropagates(c, r, "checkpoint-error:"+e.short, k)
				default:
					okF = false
				}
			}
			r.Check(okF && sawFirst, "first:"+e.short, vk.Pos(), "full: first = first entry for the reference, or the cached last-verified entry for it", "VerifyRefFull's range does not start at (first entry for target | cached last verified entry for target)")
		case "VerifyRefFromEntry":
			okF := eng.PCall("pkg/rsl.GetEntry", 0, nil, eng.PParam("entryID"))(first)
			r.Check(okF, "first:"+e.short, vk.Pos(), "from-entry: first = GetEntry(entryID)", "VerifyRefFromEntry's range does not start at the entry with the given id")
		}
	}
}

func c01BoundToEntry(c *Ctx, r *R) {
	for _, spec := range []string{"internal/policy.verifyEntry", "internal/policy.verifyTagEntry"} {
		fn := r.Fn(spec)
		if fn == nil {
			continue
		}
		short := spec[strings.LastIndex(spec, ".")+1:]
		entry := eng.PParam("entry")
		fieldOfEntry := func(name string) Pat {
			return func(v ssa.Value) bool {
				n, b, ok := eng.FieldLoad(v)
				return ok && n == name && entry(b)
			}
		}
		var gitCalls []Call
		for _, k := range eng.CallsTo(fn, false, fnVGOA) {
			// namespace = Sprintf("%s:%s", "git", …)
			if sp, _, ok := eng.RootCall(eng.Roots(k.Arg(2))[0]); ok && sp.Name() == "fmt.Sprintf" {
				els := eng.VariadicElems(sp.Arg(1))
				if len(els) == 2 {
					if s, isC := eng.ConstString(els[0]); isC && s == "git" {
						gitCalls = append(gitCalls, k)
					}
				}
			}
		}
		gk, ok := oneCall(r, "git-rule-call:"+short, fn, gitCalls, "verifyGitObjectAndAttestations(git:…)")
		if !ok {
			continue
		}
		r.Site(1)
		sp, _, _ := eng.RootCall(eng.Roots(gk.Arg(2))[0])
		f, _ := eng.ConstString(sp.Arg(0))
		els := eng.VariadicElems(sp.Arg(1))
		r.Check(f == "%s:%s" && fieldOfEntry("RefName")(els[1]), "namespace-from-entry:"+short, gk.Pos(), "namespace = git:<entry.RefName>", "the git namespace verified is not built from the entry's own reference name")
		idOK := fieldOfEntry("ID")(gk.Arg(3)) || eng.PMethod("GetID", entry)(gk.Arg(3))
		r.Check(idOK, "object-is-entry:"+short, gk.Pos(), "the object whose signature is verified is the RSL entry (entry.ID)", "the object verified for the git rule is not the RSL entry itself (e.g. the pushed commit): the recorder's signature on the entry is not what is checked")
		r.Check(eng.PParam("policy")(gk.Arg(1)), "policy-through:"+short, gk.Pos(), "judged with the policy handed in", "the git rule is not judged with the policy state handed to "+short)
		// error → ErrVerificationFailed
		ev, _ := gk.ErrResult()
		if ev == nil {
			r.Bad("git-rule-error:"+short, gk.Pos(), "the result of the git-rule verification is discarded")
		} else {
			u := eng.UsesOfErr(ev)
			okE := len(u.NonNilEdges) > 0
			for _, e := range u.NonNilEdges {
				if p := eng.LeadsOnlyToErr(e, "ErrVerificationFailed"); p != nil {
					okE = false
				}
			}
			r.Check(okE, "git-rule-error:"+short, gk.Pos(), "a failed git rule → ErrVerificationFailed", "a failed git-rule verification does not always return ErrVerificationFailed")
		}
		// approvals derived from the same entry
		for _, a := range eng.CallsTo(fn, false, "internal/policy.getApproverAttestationAndKeyIDs") {
			r.Check(entry(a.Arg(4)) && eng.PParam("policy")(a.Arg(2)) && eng.PParam("attestationsState")(a.Arg(3)), "approvals-for-entry:"+short, a.Pos(), "approvals are looked up for the same entry/policy/attestations", "approvals are not looked up for the entry under verification")
			errPropagates(c, r, "approvals-error:"+short, a)
			r.Check(sameObjVal(gk.Arg(4), a.Result(0)), "authorization-through:"+short, gk.Pos(), "the authorization found for this entry is the one verified", "the authorization envelope verified is not the one found for this entry")
		}
		if short == "verifyEntry" {
			// early nil return only for PolicyRef / attestations.Ref
			okEdges := eng.RelEdges(fn, token.EQL, fieldOfEntry("RefName"), func(v ssa.Value) bool {
				s, ok := eng.ConstString(v)
				return ok && (s == refPolicy || s == refAttest)
			})
			cut := eng.NewCut().AddEdges(okEdges...).AddInstrs(gk.Instr)
			tags := eng.CallsTo(fn, false, "internal/policy.verifyTagEntry")
			for _, t := range tags {
				cut.AddInstrs(t.Instr)
			}
			mustPass(c, r, "skip-only-gittuf-refs", fn, isSuccessReturn, cut, "verifyEntry succeeds without a git-rule check only for the policy / attestations references", "verifyEntry can return success without verifying the git rule for a reference that is not gittuf's own")
			for _, t := range tags {
				r.Check(entry(t.Arg(4)) && eng.PParam("policy")(t.Arg(2)), "tag-delegation-args", t.Pos(), "tag entries are delegated with the same entry/policy", "verifyTagEntry is not given the same entry / policy")
			}
		} else {
			// tag: the tag object is verified too (withTagObjectID(entry.TargetID))
			names, ctors, okb := optionNames(gk)
			has := false
			if okb {
				for i, n := range names {
					if n == "withTagObjectID" && fieldOfEntry("TargetID")(ctors[i].Arg(0)) {
						has = true
					}
				}
			}
			r.Check(has, "tag-object-verified", gk.Pos(), "tag object's own signature is verified (withTagObjectID(entry.TargetID))", "the tag object's signature is no longer part of tag verification")
			// tag ref must point at the recorded target
			eq := eng.BoolEdges(fn, func(v ssa.Value) bool {
				k, _, ok := eng.RootCall(v)
				return ok && k.Method() == "Equal" && fieldOfEntry("TargetID")(k.Recv())
			}, true)
			r.Check(len(eq) >= 2, "tag-ref-matches-entry", fn.Pos(), "tag reference / tag target compared with entry.TargetID", "the check that the tag reference matches the recorded target disappeared")
		}
	}
}

func c01Tip(c *Ctx, r *R) {
	for _, spec := range []string{"(*internal/policy.PolicyVerifier).VerifyRef", "(*internal/policy.PolicyVerifier).VerifyRefFull", "(*internal/policy.PolicyVerifier).VerifyRefFromEntry"} {
		fn := r.Fn(spec)
		if fn == nil {
			continue
		}
		short := spec[strings.LastIndex(spec, ".")+1:]
		vr := eng.CallsTo(fn, false, fnVRFR)
		if len(vr) != 1 {
			continue
		}
		r.Site(1)
		okAll := true
		n := 0
		for _, ret := range eng.Returns(fn) {
			ev := eng.RetErr(ret)
			if !sameObjVal(ev, vr[0].Value()) && !(len(eng.Roots(ev)) == 1 && eng.Roots(ev)[0] == ssa.Value(vr[0].Value())) {
				continue // early error returns
			}
			n++
			v0 := eng.RetVal(ret, 0)
			if !eng.PMethod("GetTargetID", sameObj(vr[0].Arg(2)))(v0) {
				okAll = false
			}
		}
		r.Check(okAll && n == 1, "tip-is-latest-target:"+short, vr[0].Pos(), "returns (latestEntry.GetTargetID(), VerifyRelativeForRef(…latestEntry…))", short+" does not return the target of the latest entry it verified up to, together with the walk's error")
	}
	for _, spec := range []string{"(*experimental/gittuf.Repository).VerifyRef", "(*experimental/gittuf.Repository).VerifyRefFromEntry"} {
		fn := r.Fn(spec)
		if fn == nil {
			continue
		}
		short := spec[strings.LastIndex(spec, ".")+1:]
		tips := eng.CallsTo(fn, false, "(*experimental/gittuf.Repository).verifyRefTip")
		tk, ok := oneCall(r, "tip-check:"+short, fn, tips, "verifyRefTip")
		if !ok {
			continue
		}
		r.Site(1)
		okSrc := true
		for _, root := range eng.Roots(tk.Arg(1)) {
			k, i, isCall := eng.RootCall(root)
			if !isCall || i != 0 || !(strings.HasSuffix(k.Name(), ".VerifyRef") || strings.HasSuffix(k.Name(), ".VerifyRefFull") || strings.HasSuffix(k.Name(), ".VerifyRefFromEntry")) {
				okSrc = false
			} else {
				errPropagates(c, r, "verify-error:"+short+":"+k.Method(), k)
			}
		}
		r.Check(okSrc, "tip-from-verifier:"+short, tk.Pos(), "the expected tip is the verifier's result", "verifyRefTip is not given the tip reported by the policy verifier")
		cut := eng.NewCut()
		tk.OKPoints(cut)
		mustPass(c, r, "success-after-tip-check:"+short, fn, isSuccessReturn, cut, "API success only after the reference was compared with the reported tip", "the API can report success without comparing the reference with the tip the log records")
	}
	if fn := r.Fn("(*experimental/gittuf.Repository).verifyRefTip"); fn != nil {
		ne := eng.BoolEdges(fn, func(v ssa.Value) bool {
			k, _, ok := eng.RootCall(v)
			return ok && k.Method() == "Equal" && ((eng.PMethod("GetReference", nil, eng.PParam("target"))(k.Recv()) && eng.PParam("expectedTip")(k.Arg(0))) || (eng.PParam("expectedTip")(k.Recv()) && eng.PMethod("GetReference", nil, eng.PParam("target"))(k.Arg(0))))
		}, false)
		okT := len(ne) > 0
		for _, e := range ne {
			if p := eng.LeadsOnlyToErr(e, "ErrRefStateDoesNotMatchRSL"); p != nil {
				okT = false
			}
		}
		r.Check(okT, "tip-mismatch-error", fn.Pos(), "reference ≠ expected tip → ErrRefStateDoesNotMatchRSL", "a reference that does not match the recorded tip is not rejected with ErrRefStateDoesNotMatchRSL")
		for _, k := range eng.CallsToMethod(fn, false, "GetReference", storageRecvs...) {
			errPropagates(c, r, "tip-read-error", k)
		}
	}
}
