package rules

import (
	"go/token"
	"sort"
	"strconv"
	"strings"

	"golang.org/x/tools/go/ssa"

	"verif/checker/eng"
)

func init() {
	Meta["C03"] = PropMeta{
		Explanation: "Static necessary conditions of 'recording keeps the RSL an append-only, consecutively numbered single chain': (1) who may move refs/gittuf/reference-state-log — only the two append helpers of pkg/rsl and the enumerated reconcile/sync sites; raw ref-moving git commands are issued only by the storage primitives; (2) every entry is an empty-tree commit on the constant log ref, created by the storage layer with at most one parent and published by compare-and-set on that same parent; (3) all recording methods of the three entry kinds obtain their number through setEntryNumber (latest+1, or 1 only when the log is empty) before building the message, agree with one another, append exactly once and return every error before the append; (4) the three annotation commit variants refuse identifiers that do not parse as RSL entries. The invariant over all operation sequences is NOT decided (only the inductive step's shape).",
		Decides:     []string{"who-may-write the log reference", "entry shape: empty tree, constant ref, single parent == CAS old value", "number = latest+1 / 1 on empty log, in all 6 numbered commit variants (sibling agreement)", "exactly one append per recording call, errors before it", "annotation existence guard in 3 variants"},
		NotDecided:  []string{"chain invariant over every prefix of every operation sequence incl. legacy→numbered transition", "that a failed operation leaves no entry at run time (depends on git's update-ref)"},
	}
	reg(&eng.Rule{ID: "C03.writers", Prop: "C03", Floor: 8,
		Doc: "Constant-ref writers of refs/gittuf/reference-state-log are exactly rsl.commitEntry, rsl.commitEntryUsingSpecificKey (append) and ReconcileLocalRSLWithRemote (C15); every function writing a non-constant reference is in the frozen dynamic-writer table; raw `update-ref`/`symbolic-ref`/`fetch`/`push`/`clone` commands are issued only by the storage primitives.",
		Run: c03Writers})
	reg(&eng.Rule{ID: "C03.entry-shape", Prop: "C03", Floor: 6,
		Doc: "commitEntry* pass EmptyTree()'s result as tree and the constant log ref; (*Repository).Commit/CommitUsingSpecificKey give the new commit at most one parent, the value read by the single GetReference(targetRef) in that call, and pass that same value as the old value of CheckAndSetReference.",
		Run: c03EntryShape})
	reg(&eng.Rule{ID: "C03.number", Prop: "C03", Floor: 12,
		Doc: "All six Commit/CommitUsingSpecificKey methods of the three entry kinds call setEntryNumber (error propagated) before createCommitMessage and the append; each setEntryNumber stores into Number only GetLatestEntry(...).GetNumber()+1 or the constant 1, the latter only under errors.Is(err, ErrRSLEntryNotFound); other errors return.",
		Run: c03Number})
	reg(&eng.Rule{ID: "C03.one-append", Prop: "C03", Floor: 9,
		Doc: "Every recording method (6 numbered + 3 CommitWithoutNumber variants) contains exactly one append call, no second append is reachable after it, its error is returned, and every other error return precedes it.",
		Run: c03OneAppend})
	reg(&eng.Rule{ID: "C03.annotation-guard", Prop: "C03", Floor: 3,
		Doc: "In the three AnnotationEntry commit variants the append is reached only after a loop over a.RSLEntryIDs that calls GetEntry(storer, id) for each id and returns on error.",
		Run: c03AnnotationGuard})
}

func c03Writers(c *Ctx, r *R) {
	allowedConst := map[string]string{
		"pkg/rsl.commitEntry":                                           "append",
		"pkg/rsl.commitEntryUsingSpecificKey":                           "append",
		"(*experimental/gittuf.Repository).ReconcileLocalRSLWithRemote": "reconcile: resets the local log to the fetched remote tip before replaying local-only entries (C15.refuse-first)",
	}
	nconst := 0
	seenDyn := map[string]bool{}
	for _, w := range refWrites(c) {
		r.Site(1)
		name := fname(w.Fn)
		if !w.Dynamic {
			if w.Ref != refRSL {
				continue
			}
			nconst++
			if why, ok := allowedConst[name]; ok {
				r.Ok("log-writer:"+name, w.Call.Pos(), "%s(%s) — %s", w.Method, w.Ref, why)
			} else {
				r.Bad("log-writer:"+name, w.Call.Pos(), "%s calls %s on the RSL reference; only rsl.commitEntry* may append to the log (and reconcile may reset it): this writer can rewind, fork or skip numbers in the chain", name, w.Method)
			}
			continue
		}
		if seenDyn[name] {
			continue
		}
		seenDyn[name] = true
		if why, ok := dynamicWriters[name]; ok {
			r.Ok("dynamic-writer:"+name, w.Call.Pos(), "writes a non-constant reference — allowed: %s", why)
		} else {
			r.Undecided("dynamic-writer:"+name, w.Call.Pos(), "%s writes a reference whose name is not a compile-time constant (%s) and is not in the frozen table of dynamic writers: it may move the RSL / policy references; classify it in rules/refeffects.go", name, w.Method)
		}
	}
	r.Check(nconst >= 3, "log-writers-found", token.NoPos, "3 constant-ref writers of the log found", "fewer constant-ref writers of the RSL reference than on the reference tree (anchors moved?)")
	// raw git commands
	for _, ec := range executorCalls(c) {
		name := fname(ec.Fn)
		if !ec.OK {
			// dynamic argv: allowed only in the enumerated primitives that build args incrementally
			continue
		}
		allowed, isRef := rawRefCommands[ec.Sub]
		if !isRef {
			continue
		}
		r.Site(1)
		ok := false
		for _, a := range allowed {
			if a == name {
				ok = true
			}
		}
		if ok {
			r.Ok("raw:"+ec.Sub+":"+name, ec.Call.Pos(), "`git %s` issued by storage primitive", ec.Sub)
		} else {
			r.Bad("raw:"+ec.Sub+":"+name, ec.Call.Pos(), "%s issues `git %s` directly: a reference can be moved outside the storage primitives and therefore outside every who-may-write rule", name, ec.Sub)
		}
	}
	// executor calls whose subcommand cannot be evaluated must be within the enumerated builders
	dynOK := map[string]bool{
		"(*pkg/gitinterface.Repository).Commit": true, "(*pkg/gitinterface.Repository).commitWithParents": true,
		"(*pkg/gitinterface.Repository).GetCommitsBetweenRange": true, "(*pkg/gitinterface.Repository).PushRefSpec": true,
		"(*pkg/gitinterface.Repository).FetchRefSpec": true, "(*pkg/gitinterface.Repository).FetchObject": true,
		"pkg/gitinterface.CloneAndFetchRepository": true, "(*pkg/gitinterface.Repository).executor": true,
	}
	for _, ec := range executorCalls(c) {
		if ec.OK {
			continue
		}
		name := fname(ec.Fn)
		if dynOK[name] {
			r.Ok("raw-dynamic:"+name, ec.Call.Pos(), "argument vector built incrementally in an enumerated primitive")
		} else {
			r.Undecided("raw-dynamic:"+name, ec.Call.Pos(), "%s runs git with a subcommand that cannot be evaluated statically", name)
		}
	}
}

func c03EntryShape(c *Ctx, r *R) {
	for _, spec := range []string{"pkg/rsl.commitEntry", "pkg/rsl.commitEntryUsingSpecificKey"} {
		fn := r.Fn(spec)
		if fn == nil {
			continue
		}
		var commits []Call
		for _, k := range eng.Calls(fn, false) {
			if k.IsMethodOf("Commit", storageRecvs...) || k.IsMethodOf("CommitUsingSpecificKey", storageRecvs...) {
				commits = append(commits, k)
			}
		}
		short := spec[strings.LastIndex(spec, ".")+1:]
		k, ok := oneCall(r, "append-call:"+short, fn, commits, "Storer.Commit*")
		if !ok {
			continue
		}
		r.Site(1)
		r.Check(eng.PMethod("EmptyTree", nil)(k.Arg(0)), "empty-tree:"+short, k.Pos(), "entry commit uses EmptyTree()", "RSL entry is not committed with the empty tree")
		s, isC := eng.ConstString(k.Arg(1))
		r.Check(isC && s == refRSL, "log-ref:"+short, k.Pos(), "append targets the constant log reference", "append does not target the constant RSL reference")
		r.Check(eng.PParam("message")(k.Arg(2)), "message:"+short, k.Pos(), "message is the caller's entry text", "commit message is not the entry text parameter")
		errPropagates(c, r, "append-error:"+short, k)
		// EmptyTree error
		for _, e := range eng.CallsToMethod(fn, false, "EmptyTree", storageRecvs...) {
			errPropagates(c, r, "emptytree-error:"+short, e)
		}
	}
	for _, spec := range []string{"(*pkg/gitinterface.Repository).Commit", "(*pkg/gitinterface.Repository).CommitUsingSpecificKey"} {
		fn := r.Fn(spec)
		if fn == nil {
			continue
		}
		short := spec[strings.LastIndex(spec, ".")+1:]
		reads := eng.CallsTo(fn, false, "(*pkg/gitinterface.Repository).GetReference")
		rd, ok := oneCall(r, "single-tip-read:"+short, fn, reads, "GetReference(targetRef)")
		if !ok {
			continue
		}
		r.Site(1)
		r.Check(eng.PParam("targetRef")(rd.Arg(0)), "tip-read-ref:"+short, rd.Pos(), "tip read is of targetRef", "the tip read is not of the reference being committed to")
		errPropagates(c, r, "tip-read-error:"+short, rd, "ErrReferenceNotFound")
		tip := rd.Result(0)
		cas := eng.CallsTo(fn, false, "(*pkg/gitinterface.Repository).CheckAndSetReference")
		ck, ok := oneCall(r, "cas:"+short, fn, cas, "CheckAndSetReference")
		if !ok {
			continue
		}
		r.Check(eng.PParam("targetRef")(ck.Arg(0)), "cas-ref:"+short, ck.Pos(), "CAS is on targetRef", "CheckAndSetReference is not on targetRef")
		r.Check(sameObjVal(ck.Arg(2), tip), "cas-old-is-read-tip:"+short, ck.Pos(), "CAS old value is the tip read at the start of the call", "the old value of CheckAndSetReference is not the tip this commit was parented on: a concurrent append would be overwritten or the chain forked")
		for _, sr := range eng.CallsTo(fn, false, "(*pkg/gitinterface.Repository).SetReference") {
			r.Bad("no-blind-set:"+short, sr.Pos(), "%s uses SetReference (no compare-and-set) to publish the commit", short)
		}
		// parent: every use of the tip's String() flows to the parent position; and no other parent source
		parentOK := false
		for _, k := range eng.Calls(fn, false) {
			if k.Method() == "String" && k.Recv() != nil && sameObjVal(k.Recv(), tip) {
				parentOK = true
			}
		}
		r.Check(parentOK, "parent-is-read-tip:"+short, rd.Pos(), "the parent id is derived from the read tip", "the new commit's parent is not derived from the tip read in this call")
		// at most one parent: "-p" constant appears in exactly one append / ParentHashes literal has one element
		np := 0
		for _, b := range fn.Blocks {
			for _, in := range b.Instrs {
				if st, ok := in.(*ssa.Store); ok {
					if s, isC := eng.ConstString(st.Val); isC && s == "-p" {
						np++
					}
					if fa, ok := st.Addr.(*ssa.FieldAddr); ok && fieldNameOf(fa) == "ParentHashes" {
						if els := eng.VariadicElems(st.Val); len(els) == 1 {
							np++
						} else {
							np += 2
						}
					}
				}
			}
		}
		// polarity: the parent is attached on the edge where the tip exists (and only there)
		nonZero := eng.BoolEdges(fn, eng.PMethod("IsZero", sameObj(tip)), false)
		okPol, nAtt := true, 0
		for _, b := range fn.Blocks {
			for _, in := range b.Instrs {
				st, ok := in.(*ssa.Store)
				if !ok {
					continue
				}
				isParent := false
				if sv, isC := eng.ConstString(st.Val); isC && sv == "-p" {
					isParent = true
				}
				if fa, ok := st.Addr.(*ssa.FieldAddr); ok && fieldNameOf(fa) == "ParentHashes" {
					isParent = true
				}
				if !isParent {
					continue
				}
				nAtt++
				dom := false
				for _, e := range nonZero {
					if eng.EdgeDominates(e, b) {
						dom = true
					}
				}
				okPol = okPol && dom
			}
		}
		r.Check(okPol && nAtt >= 1, "parent-on-existing-tip:"+short, fn.Pos(), "the parent is attached exactly where the read tip is not the zero id", "the parent is attached on the wrong side of the `tip exists` test: an existing log tip would get a parentless successor (every earlier entry drops out of the chain)")
		r.Check(np == 1, "single-parent:"+short, fn.Pos(), "exactly one parent is attached", "the commit can receive other than exactly one parent source (found "+itoa(np)+")")
		// parent attached only when tip is non-zero (first entry has none)
		r.Check(len(eng.BoolEdges(fn, eng.PMethod("IsZero", sameObj(tip)), false)) > 0, "parent-iff-tip:"+short, fn.Pos(), "parent attached iff the tip exists", "no `!tip.IsZero()` guard on attaching the parent")
	}
	// CheckAndSetReference passes old value to update-ref as third positional argument
	if fn := r.Fn("(*pkg/gitinterface.Repository).CheckAndSetReference"); fn != nil {
		ok := false
		for _, ec := range executorCalls(c) {
			if fname(ec.Fn) != fname(fn) || !ec.OK || ec.Sub != "update-ref" {
				continue
			}
			n := len(ec.Args)
			if n >= 4 && eng.PMethod("String", eng.PParam("oldGitID"))(ec.Args[n-1]) && eng.PMethod("String", eng.PParam("newGitID"))(ec.Args[n-2]) && eng.PParam("refName")(ec.Args[n-3]) {
				ok = true
			}
		}
		r.Check(ok, "cas-argv", fn.Pos(), "update-ref <ref> <new> <old>: old value is passed to git", "CheckAndSetReference does not pass (ref, new, old) to `git update-ref` in that order: the compare part of compare-and-set is lost")
		// and there is no way round it: every success return lies behind that very command (in particular
		// when the expected old value is the zero id — `update-ref <ref> <new> 0…0` means "create only if
		// absent", which is what makes the first append of a log race-free)
		var cmds []ssa.Instruction
		for _, ec := range executorCalls(c) {
			if fname(ec.Fn) == fname(fn) && ec.OK && ec.Sub == "update-ref" {
				if term, okT := terminalOf(ec.Call.Value(), 0); okT {
					cmds = append(cmds, term.Instr)
				}
			}
		}
		if len(cmds) == 0 {
			r.Bad("cas-always", fn.Pos(), "cannot find the execution of `git update-ref` in CheckAndSetReference")
		} else {
			mustPass(c, r, "cas-always", fn, isSuccessReturn, eng.NewCut().AddInstrs(cmds...), "every success of CheckAndSetReference went through `git update-ref <ref> <new> <old>`", "CheckAndSetReference can succeed without the compare-and-set command having run (e.g. a shortcut for a zero old value sets the reference unconditionally: two writers creating the log at once both succeed)")
		}
		for _, k := range eng.Calls(fn, false) {
			if k.Method() == "SetReference" || k.Method() == "DeleteReference" {
				r.Bad("cas-no-plain-write", k.Pos(), "CheckAndSetReference calls %s: an unconditional write inside the compare-and-set primitive", k.Method())
			}
		}
	}
}

func itoa(n int) string { return strconv.Itoa(n) }

var entryKinds = []string{"ReferenceEntry", "AnnotationEntry", "PropagationEntry"}

func appendCalls(fn *ssa.Function) []Call {
	return eng.CallsTo(fn, false, "pkg/rsl.commitEntry", "pkg/rsl.commitEntryUsingSpecificKey")
}

func c03Number(c *Ctx, r *R) {
	for _, kind := range entryKinds {
		for _, m := range []string{"Commit", "CommitUsingSpecificKey"} {
			fn := r.Fn("(*pkg/rsl." + kind + ")." + m)
			if fn == nil {
				continue
			}
			key := kind + "." + m
			sn := eng.CallsTo(fn, false, "(*pkg/rsl."+kind+").setEntryNumber")
			snk, ok := oneCall(r, "numbered:"+key, fn, sn, "setEntryNumber")
			if !ok {
				continue
			}
			r.Site(1)
			r.Check(eng.PParam(fn.Params[0].Name())(snk.Recv()) && eng.PParam("storer")(snk.Arg(0)), "number-self:"+key, snk.Pos(), "setEntryNumber is applied to the entry being committed with the caller's storer", "setEntryNumber is not applied to the receiver / caller's storer")
			cut := eng.NewCut()
			if !snk.OKPoints(cut) {
				r.Bad("number-error:"+key, snk.Pos(), "the error of setEntryNumber is dropped: an entry could be appended with a stale or zero number")
				continue
			}
			errPropagates(c, r, "number-error:"+key, snk)
			for _, a := range appendCalls(fn) {
				mustPass(c, r, "number-before-append:"+key, fn, isInstr(a.Instr), cut, "append happens only after setEntryNumber succeeded", "the append is reachable without a successful setEntryNumber")
			}
			for _, cm := range eng.CallsTo(fn, false, "(*pkg/rsl."+kind+").createCommitMessage") {
				mustPass(c, r, "number-before-message:"+key, fn, isInstr(cm.Instr), cut, "message is built after the number was set", "createCommitMessage runs before setEntryNumber (number missing from the text)")
				b, isC := eng.ConstBool(cm.Arg(0))
				r.Check(isC && b, "message-includes-number:"+key, cm.Pos(), "createCommitMessage(true)", "createCommitMessage is not asked to include the number")
			}
		}
		// setEntryNumber body
		fn := r.Fn("(*pkg/rsl." + kind + ").setEntryNumber")
		if fn == nil {
			continue
		}
		le := eng.CallsTo(fn, false, "pkg/rsl.GetLatestEntry")
		lek, ok := oneCall(r, "latest-read:"+kind, fn, le, "GetLatestEntry")
		if !ok {
			continue
		}
		r.Site(1)
		r.Check(eng.PParam("storer")(lek.Arg(0)), "latest-storer:"+kind, lek.Pos(), "latest entry is read from the caller's storer", "GetLatestEntry is not called on the caller's storer")
		ev, _ := lek.ErrResult()
		u := eng.UsesOfErr(ev)
		isNF := eng.BoolEdges(fn, eng.PCall("errors.Is", 0, eng.PSame(ev), eng.PGlobal("ErrRSLEntryNotFound")), true)
		nstores := 0
		for _, b := range fn.Blocks {
			for _, in := range b.Instrs {
				st, ok := in.(*ssa.Store)
				if !ok {
					continue
				}
				fa, ok := st.Addr.(*ssa.FieldAddr)
				if !ok || fieldNameOf(fa) != "Number" {
					continue
				}
				nstores++
				if one, isC := eng.ConstInt(st.Val); isC {
					okv := one == 1
					r.Check(okv, "first-is-one:"+kind, st.Pos(), "first entry is numbered 1", "a constant other than 1 is stored into Number")
					mustPass(c, r, "one-only-if-empty:"+kind, fn, isInstr(st), eng.NewCut().AddEdges(isNF...), "Number = 1 only when the log is empty (ErrRSLEntryNotFound)", "Number = 1 can be stored although a latest entry exists or another error occurred (numbering restarts)")
					continue
				}
				plus1 := eng.PBin(token.ADD, eng.PMethod("GetNumber", eng.PCall("pkg/rsl.GetLatestEntry", 0)), eng.PInt(1))
				r.Check(plus1(st.Val), "latest-plus-one:"+kind, st.Pos(), "Number = latest.GetNumber() + 1", "Number is not latest.GetNumber()+1 (duplicate or skipped numbers)")
				mustPass(c, r, "plus-one-only-if-read-ok:"+kind, fn, isInstr(st), eng.NewCut().AddEdges(u.NilEdges...), "latest+1 is stored only when the read succeeded", "latest+1 can be stored although GetLatestEntry failed")
			}
		}
		r.Check(nstores == 2, "number-stores:"+kind, fn.Pos(), "two stores into Number (latest+1, 1)", "expected exactly two stores into Number in setEntryNumber")
		errPropagates(c, r, "latest-error:"+kind, lek, "ErrRSLEntryNotFound")
	}
}

func recordingMethods() []string {
	var out []string
	for _, kind := range entryKinds {
		for _, m := range []string{"Commit", "CommitUsingSpecificKey"} {
			out = append(out, "(*pkg/rsl."+kind+")."+m)
		}
	}
	out = append(out, "(*pkg/rsl.ReferenceEntry).CommitWithoutNumber", "(*pkg/rsl.AnnotationEntry).CommitWithoutNumber")
	sort.Strings(out)
	return out
}

func c03OneAppend(c *Ctx, r *R) {
	for _, spec := range recordingMethods() {
		fn := r.Fn(spec)
		if fn == nil {
			continue
		}
		key := strings.TrimPrefix(spec, "(*pkg/rsl.")
		key = strings.Replace(key, ")", "", 1)
		aps := appendCalls(fn)
		ak, ok := oneCall(r, "one-append:"+key, fn, aps, "commitEntry*")
		if !ok {
			continue
		}
		r.Site(1)
		// no second append reachable after it (loops)
		mustPassFrom(c, r, "no-second-append:"+key, ak.Instr, isInstr(ak.Instr), nil, "the append cannot execute twice in one call", "the append can execute more than once in one recording call")
		// its error is the function's result
		errPropagates(c, r, "append-error:"+key, ak)
		// the message appended is this entry's createCommitMessage result
		r.Check(eng.PMethod("createCommitMessage", eng.PParam(fn.Params[0].Name()))(ak.Arg(1)), "appends-own-text:"+key, ak.Pos(), "the text appended is the receiver's createCommitMessage()", "the appended text is not the receiver's own canonical message")
		r.Check(eng.PParam("storer")(ak.Arg(0)), "appends-to-caller-store:"+key, ak.Pos(), "append goes to the caller's storer", "append does not use the caller's storer")
		// no storage write other than the append in the method
		for _, k := range eng.Calls(fn, false) {
			if k.Callee == nil {
				continue
			}
			if _, isMut := refMutators[k.Callee.Name()]; isMut {
				for _, s := range storageRecvs {
					if k.RecvTypeName() == s {
						r.Bad("no-other-write:"+key, k.Pos(), "%s performs a reference write (%s) besides the single append", key, k.Callee.Name())
					}
				}
			}
		}
	}
}

func c03AnnotationGuard(c *Ctx, r *R) {
	for _, m := range []string{"Commit", "CommitUsingSpecificKey", "CommitWithoutNumber"} {
		fn := r.Fn("(*pkg/rsl.AnnotationEntry)." + m)
		if fn == nil {
			continue
		}
		r.Site(1)
		aps := appendCalls(fn)
		if len(aps) != 1 {
			r.Undecided("anchor:"+m, fn.Pos(), "expected one append")
			continue
		}
		// GetEntry on an element of a.RSLEntryIDs
		var ge []Call
		for _, k := range eng.CallsTo(fn, false, "pkg/rsl.GetEntry") {
			for _, root := range eng.Roots(k.Arg(1)) {
				if u, ok := root.(*ssa.UnOp); ok {
					if ia, ok := u.X.(*ssa.IndexAddr); ok {
						if n, base, isF := eng.FieldLoad(ia.X); isF && n == "RSLEntryIDs" && eng.PParam(fn.Params[0].Name())(base) {
							ge = append(ge, k)
						}
					}
				}
			}
		}
		if len(ge) != 1 {
			r.Bad("guard:"+m, fn.Pos(), "AnnotationEntry.%s does not check each a.RSLEntryIDs[i] with GetEntry before appending: an annotation could name an object that is not an RSL entry", m)
			continue
		}
		errPropagates(c, r, "guard-error:"+m, ge[0])
		// the append is reached only via the loop-exhausted edge of the range over a.RSLEntryIDs
		done := rangeDoneEdges(fn, eng.PField("RSLEntryIDs", nil))
		if len(done) == 0 {
			r.Bad("guard:"+m, ge[0].Pos(), "the existence check is not inside a loop over all of a.RSLEntryIDs")
			continue
		}
		mustPass(c, r, "guard:"+m, fn, isInstr(aps[0].Instr), eng.NewCut().AddEdges(done...), "the append is reached only after every referenced id was checked", "the append is reachable without completing the loop that checks every referenced id")
		r.Check(eng.PParam("storer")(ge[0].Arg(0)), "guard-store:"+m, ge[0].Pos(), "ids are looked up in the caller's storer", "ids are not looked up in the caller's storer")
	}
}
