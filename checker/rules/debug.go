package rules

import (
	"fmt"
)

// Dump prints internal tables (development aid): GTCHECK_DUMP=refwrites.
func Dump(c *Ctx, what string) {
	switch what {
	case "refwrites":
		for _, w := range refWrites(c) {
			fmt.Printf("%-75s %-24s ref=%-45q dyn=%v %s\n", fname(w.Fn), w.Method, w.Ref, w.Dynamic, c.Rel(w.Call.Pos()))
		}
	}
}
