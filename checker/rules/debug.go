package rules

import (
	"fmt"

	"golang.org/x/tools/go/ssa"

	"verif/checker/eng"
)

var debugHooks = map[string]func(*Ctx){}

// Dump prints internal tables (development aid): GTCHECK_DUMP=refwrites.
func Dump(c *Ctx, what string) {
	if h, ok := debugHooks[what]; ok {
		h(c)
		return
	}
	switch what {
	case "refwrites":
		for _, w := range refWrites(c) {
			fmt.Printf("%-75s %-24s ref=%-45q dyn=%v %s\n", fname(w.Fn), w.Method, w.Ref, w.Dynamic, c.Rel(w.Call.Pos()))
		}
	}
}

func init() {
	debugHooks["roots-vrfr-att"] = func(c *Ctx) {
		fn := c.Func(fnVRFR)
		for _, k := range eng.CallsTo(fn, false, "internal/policy.verifyEntry") {
			for _, root := range eng.Roots(k.Arg(3)) {
				fmt.Printf("root: %T %s\n", root, root.String())
				if src, _, ok := eng.RootCall(root); ok {
					fmt.Printf("   call %s arg1=%T %s type=%s\n", src.Name(), src.Arg(1), src.Arg(1), src.Arg(1).Type())
				}
			}
		}
	}
}

func init() {
	debugHooks["rets-vrfr"] = func(c *Ctx) {
		fn := c.Func(fnVRFR)
		for _, ret := range eng.Returns(fn) {
			ev := eng.RetErr(ret)
			fmt.Printf("block %d ret err=%v (%T) class=%v sentinels=%v\n", ret.Block().Index, ev, ev, eng.ClassifyErr(ev, ret.Block()), eng.Sentinels(ev))
		}
	}
}

func init() {
	// GTCHECK_DUMP=errdisc: every call site with an error result in library packages that fails P3
	debugHooks["errdisc"] = func(c *Ctx) {
		rule := &eng.Rule{ID: "DBG.errdisc", Prop: "DBG", Run: func(c *Ctx, r *R) {
			c.ModuleFuncs(func(fn *ssa.Function) {
				p := pkgOf(fn)
				if !errDiscPkgs[p] || takesTestingT(fn) {
					return
				}
				for _, k := range eng.Calls(fn, false) {
					if _, has := k.ErrResult(); !has {
						if k.Instr == nil || !returnsError(k) {
							continue
						}
					}
					if ignorableCallees[k.Name()] {
						continue
					}
					errPropagates(c, r, callKey(fn, k), k, absenceSentinels...)
				}
			})
		}}
		rr := eng.RunRule(c, rule)
		n, bad := 0, 0
		for _, o := range rr.Obls {
			n++
			if o.Status != eng.Discharged {
				bad++
				fmt.Printf("%s %s\n    %s\n", o.Pos, o.Key, o.Msg)
			}
		}
		fmt.Printf("errdisc: %d call sites, %d failing\n", n, bad)
	}
}

func init() {
	debugHooks["names"] = func(c *Ctx) {
		fn := c.Func("(*internal/policy.State).preprocess")
		for _, k := range eng.Calls(fn, false) {
			if k.Callee != nil && (k.Callee.Name() == "Has" || k.Callee.Name() == "Add") {
				fmt.Printf("%s name=%s recv=%v (%T) isField=%v\n", c.Rel(k.Pos()), k.Name(), k.Recv(), k.Recv(), eng.PField("ruleNames", nil)(k.Recv()))
			}
		}
	}
}
