package rules

import (
	"go/token"
	"strings"

	"golang.org/x/tools/go/ssa"

	"verif/checker/eng"
)

func init() {
	Meta["C11"] = PropMeta{
		Explanation: "Static necessary conditions of 'global rules add constraints; they never replace or weaken delegation rules': (1) an always-succeeding (verifyExhaustively) verifier may enter the list returned by State.FindVerifiersForPath only on paths where the delegation walk returned no verifier, because the consumer stops at the first verifier that succeeds; (2) in verifyGitObjectAndAttestations every nil-error return other than the 'unprotected' one is reached only after the loop over all global rules of all controllers has completed, inside which an unmet threshold / a non-descendant force push / an unknown rule type return errors, and the required threshold is lowered by exactly one only under (RSL signature needed ∧ verifyMergeable); (3) preprocess loads the repository's and every controller's global rules; (4) the force-push predecessor lookup is the previous unskipped entry of the same reference. Monotonicity of verdicts over (delegations × global rules × histories) is NOT decided.",
		Decides:     []string{"exhaustive verifier only when no delegation verifier exists", "global-rule loop dominates successful returns", "failing global rule → error", "threshold reduction shape", "global rules loaded for root and controllers", "force-push predecessor option set"},
		NotDecided:  []string{"the relation 'adding a global rule never turns a rejecting verification into an accepting one' over all policies and histories"},
	}
	reg(&eng.Rule{ID: "C11.additive", Prop: "C11", Floor: 2,
		Doc: "In State.FindVerifiersForPath a SignatureVerifier allocated with verifyExhaustively:true is appended to the result only on an edge where len(findVerifiersForPathIfProtected(path)) == 0; the consumer loop is first-success.",
		Run: c11Additive})
	reg(&eng.Rule{ID: "C11.all-rules-checked", Prop: "C11", Floor: 6,
		Doc: "In verifyGitObjectAndAttestations every nil-error return other than the len(verifiers)==0 'unprotected' return is reached only through the exhausted range over policy.globalRules; unmet threshold, non-descendant push and unknown rule type return errors; the threshold is reduced by exactly 1 and only under rslSignatureNeeded ∧ verifyMergeable; force-push rules are skipped only under verifyMergeable.",
		Run: c11AllRules})
	reg(&eng.Rule{ID: "C11.rules-loaded", Prop: "C11", Floor: 2,
		Doc: "State.preprocess stores the repository root's GetGlobalRules() under key \"\" and each controller root's GetGlobalRules() under the controller's name.",
		Run: c11RulesLoaded})
	reg(&eng.Rule{ID: "C11.previous-unskipped", Prop: "C11", Floor: 2,
		Doc: "The force-push predecessor lookup carries exactly {BeforeEntryID(current entry id), ForReference(current entry's ref), IsUnskipped()} and KnowsCommit is asked (current target, previous target).",
		Run: c11PrevUnskipped})
}

const (
	fnVGOA   = "internal/policy.verifyGitObjectAndAttestations"
	fnVGOAUV = "internal/policy.verifyGitObjectAndAttestationsUsingVerifiers"
	fnFVFP   = "(*internal/policy.State).FindVerifiersForPath"
	fnFVFPIP = "(*internal/policy.State).findVerifiersForPathIfProtected"
)

func c11Additive(c *Ctx, r *R) {
	fn := r.Fn(fnFVFP)
	if fn == nil {
		return
	}
	walk := eng.PCall(fnFVFPIP, 0)
	okEdges := eng.RelEdges(fn, token.EQL, eng.PLen(walk), eng.PInt(0))
	n := 0
	for _, al := range allocsOf(fn, "SignatureVerifier") {
		st := allocStores(al)
		ex, has := st["verifyExhaustively"]
		if !has {
			continue
		}
		if b, isC := eng.ConstBool(ex); isC && !b {
			continue
		}
		n++
		r.Site(1)
		// every append that places this allocation in a slice
		placed := false
		for _, k := range eng.Calls(fn, false) {
			if k.Name() != "builtin.append" {
				continue
			}
			els := eng.VariadicElems(k.Instr.Common().Args[1])
			isIt := false
			for _, e := range els {
				for _, root := range eng.Roots(e) {
					if root == ssa.Value(al) {
						isIt = true
					}
				}
			}
			if !isIt {
				continue
			}
			placed = true
			if len(okEdges) == 0 {
				r.Bad("exhaustive-only-if-unprotected", k.Pos(), "an always-succeeding (verifyExhaustively) verifier is added to the verifiers returned for a path with no test that the delegation walk returned none; the consumer stops at the first verifier that succeeds, so delegation verifiers placed after it are never consulted (a global rule would replace the delegation rules)")
				continue
			}
			mustPass(c, r, "exhaustive-only-if-unprotected", fn, isInstr(k.Instr), eng.NewCut().AddEdges(okEdges...),
				"the exhaustive verifier is added only when the delegation walk returned no verifier",
				"the exhaustive verifier can be added although delegation verifiers exist for the path")
		}
		if !placed {
			r.Ok("exhaustive-only-if-unprotected", al.Pos(), "exhaustive verifier allocated but never returned")
		}
	}
	if n == 0 {
		r.Ok("exhaustive-only-if-unprotected", fn.Pos(), "no always-succeeding verifier is constructed in FindVerifiersForPath")
	}
	// the delegation walk's error is propagated and its result is part of what is returned/cached
	ks := eng.CallsTo(fn, false, fnFVFPIP)
	if k, ok := oneCall(r, "walk-call", fn, ks, "findVerifiersForPathIfProtected"); ok {
		errPropagates(c, r, "walk-error", k)
		r.Check(eng.PParam("path")(k.Arg(0)), "walk-arg", k.Pos(), "the walk is asked about the requested path", "findVerifiersForPathIfProtected is not called with the path parameter")
	}
	// consumer is first-success (the reason the ordering matters): recorded as information
	if cf := r.Fn(fnVGOAUV); cf != nil {
		vs := eng.CallsTo(cf, false, sigVerify)
		if len(vs) == 1 {
			ev, _ := vs[0].ErrResult()
			u := eng.UsesOfErr(ev)
			first := true
			for _, e := range u.NilEdges {
				if p := eng.FindPath(e.To(), 0, isInstr(vs[0].Instr), nil); p != nil {
					first = false
				}
			}
			if first {
				r.Ok("consumer-first-success", vs[0].Pos(), "consumer stops at the first verifier whose Verify returns nil (so ordering of verifiers is security relevant)")
			} else {
				r.Ok("consumer-first-success", vs[0].Pos(), "consumer continues after a successful verifier (ordering less critical); rule C11.additive still required by the design")
			}
		}
	}
}

func c11AllRules(c *Ctx, r *R) {
	fn := r.Fn(fnVGOA)
	if fn == nil {
		return
	}
	uv := eng.CallsTo(fn, false, fnVGOAUV)
	uvk, ok := oneCall(r, "anchor-using-verifiers", fn, uv, "verifyGitObjectAndAttestationsUsingVerifiers")
	if !ok {
		return
	}
	verifiers := eng.PCall(fnFVFP, 0)
	unprot := eng.RelEdges(fn, token.EQL, eng.PLen(verifiers), eng.PInt(0))
	globalRules := eng.PField("globalRules", nil)
	done := rangeDoneEdges(fn, globalRules)
	if len(done) == 0 {
		r.Bad("loop-present", fn.Pos(), "no range over policy.globalRules in verifyGitObjectAndAttestations: global rules are not evaluated")
		return
	}
	r.Ok("loop-present", fn.Pos(), "range over policy.globalRules found (%d exit edge(s))", len(done))
	for _, ret := range eng.Returns(fn) {
		if eng.ClassifyErr(eng.RetErr(ret), ret.Block()) == eng.ErrNonNil {
			continue
		}
		r.Site(1)
		cut := eng.NewCut().AddEdges(done...).AddEdges(unprot...)
		p := eng.FindPathFromEntry(fn, isInstr(ret), cut)
		// key by what guards the return: distinguish the trusted-verifier shortcut
		key := "success-after-global-rules"
		if p != nil {
			via := "other"
			for _, g := range eng.GuardsAt(ret.Block()) {
				if bo, ok := g.Cond.(*ssa.BinOp); ok {
					for _, side := range []ssa.Value{bo.X, bo.Y} {
						if n, _, isF := eng.FieldLoad(side); isF && n == "trustedVerifier" {
							via = "trustedVerifier"
						}
					}
				}
			}
			r.Bad(key+":"+via, pos(ret), "verifyGitObjectAndAttestations can return success for a protected namespace without evaluating the global rules (return guarded by %s); witness %s", via, c.DescribePath(p))
		} else {
			r.Ok(key, pos(ret), "success return reached only after all global rules were evaluated (or the namespace is unprotected)")
		}
	}
	// the loop must cover every controller and every rule: inner loop over the map's value
	// threshold rule
	gthr := eng.PMethod("GetThreshold", nil)
	reqPat := eng.POr(gthr, eng.PBin(token.SUB, gthr, eng.PInt(1)),
		eng.AllRoots(func(v ssa.Value) bool { return gthr(v) || eng.PBin(token.SUB, gthr, eng.PInt(1))(v) }))
	fail := eng.RelEdges(fn, token.LSS, eng.PAny(), reqPat)
	if len(fail) == 0 {
		r.Bad("threshold-enforced", uvk.Pos(), "no `verified < required threshold` test on a value derived from the global rule's GetThreshold()")
	} else {
		okAll := true
		for _, e := range fail {
			if p := eng.LeadsOnlyToErr(e, "ErrVerifierConditionsUnmet"); p != nil {
				okAll = false
				r.Bad("threshold-enforced", pos(p.Target), "an unmet global threshold does not always return ErrVerifierConditionsUnmet; witness %s", c.DescribePath(p))
			}
		}
		if okAll {
			r.Ok("threshold-enforced", uvk.Pos(), "verified < required → ErrVerifierConditionsUnmet")
		}
		// the count compared is the number of accepted principals returned by the delegation verification
		cntOK := false
		for _, e := range fail {
			iff := e.From.Instrs[len(e.From.Instrs)-1].(*ssa.If)
			if bo, ok := iff.Cond.(*ssa.BinOp); ok {
				for _, side := range []ssa.Value{bo.X, bo.Y} {
					for _, root := range eng.Roots(side) {
						if k, _, ok := eng.RootCall(root); ok && k.Method() == "Len" {
							if rv := k.Recv(); rv != nil && sameObj(uvk.Result(1))(rv) {
								cntOK = true
							}
						}
					}
				}
			}
		}
		// and nothing else: every value the compared count can take is that Len() or the constant 0
		for _, e := range fail {
			iff := e.From.Instrs[len(e.From.Instrs)-1].(*ssa.If)
			if bo, ok := iff.Cond.(*ssa.BinOp); ok {
				side := bo.X
				if reqPat(bo.X) {
					side = bo.Y
				}
				for _, root := range eng.Roots(side) {
					if n, isC := eng.ConstInt(root); isC && n == 0 {
						continue
					}
					if k, _, ok := eng.RootCall(root); ok && k.Method() == "Len" && k.Recv() != nil && sameObj(uvk.Result(1))(k.Recv()) {
						continue
					}
					cntOK = false
				}
			}
		}
		r.Check(cntOK, "threshold-counts-accepted", uvk.Pos(), "the count compared is acceptedPrincipalIDs.Len() from the delegation verification", "the global threshold is not compared with the accepted principals of the delegation verification")
	}
	// reduction: every SUB on GetThreshold is by const 1 and guarded by both flags
	nsub := 0
	for _, b := range fn.Blocks {
		for _, in := range b.Instrs {
			bo, ok := in.(*ssa.BinOp)
			if !ok || (bo.Op != token.SUB && bo.Op != token.ADD && bo.Op != token.QUO && bo.Op != token.SHR) {
				continue
			}
			if !gthr(bo.X) && !eng.SomeRoot(func(v ssa.Value) bool { return gthr(v) })(bo.X) {
				continue
			}
			nsub++
			one, isC := eng.ConstInt(bo.Y)
			if bo.Op != token.SUB || !isC || one != 1 {
				r.Bad("reduction-shape", bo.Pos(), "the global threshold is adjusted by something other than `- 1`")
				continue
			}
			gs := eng.GuardsAt(b)
			hasSig, hasVM := false, false
			for _, g := range gs {
				if !g.Pol {
					continue
				}
				if sameObjVal(g.Cond, uvk.Result(2)) {
					hasSig = true
				}
				if n, _, isF := eng.FieldLoad(g.Cond); isF && n == "verifyMergeable" {
					hasVM = true
				}
			}
			r.Check(hasSig && hasVM, "reduction-guarded", bo.Pos(), "threshold is reduced by 1 only under rslSignatureNeeded ∧ verifyMergeable", "the global threshold is reduced by 1 without both (RSL signature needed ∧ verifyMergeable) holding: ordinary verification would require one principal fewer")
		}
	}
	r.Check(nsub == 1, "reduction-count", fn.Pos(), "exactly one arithmetic adjustment of the global threshold", "expected exactly one `GetThreshold() - 1` adjustment")
	// force push: !knows → error
	knows := eng.CallsToMethod(fn, false, "KnowsCommit", "Storer", "Repository")
	if kk, ok := oneCall(r, "anchor-knows", fn, knows, "KnowsCommit"); ok {
		errPropagates(c, r, "force-push-knows-error", kk)
		fe := eng.BoolEdges(fn, eng.PSame(kk.Result(0)), false)
		okk := len(fe) > 0
		for _, e := range fe {
			if p := eng.LeadsOnlyToErr(e, "ErrVerifierConditionsUnmet"); p != nil {
				okk = false
			}
		}
		r.Check(okk, "force-push-enforced", kk.Pos(), "!KnowsCommit(current, previous) → ErrVerifierConditionsUnmet", "a push that does not descend from the previous state does not always return ErrVerifierConditionsUnmet")
		// skipped only under verifyMergeable: the block-force-push case reaches KnowsCommit unless verifyMergeable / first entry
	}
	// a rule that matches the namespace cannot be skipped: from the true edge of rule.Matches(target)
	// the next rule / a success return is reached only through the rule's own pass condition
	heads := loopHeads(fn)
	nextOrSuccess := func(in ssa.Instruction) bool { return heads[in] || isSuccessReturn(in) }
	for _, k := range eng.Calls(fn, false) {
		if k.Method() != "Matches" {
			continue
		}
		kind := k.RecvTypeName()
		if kind != "GlobalRuleThreshold" && kind != "GlobalRuleBlockForcePushes" {
			continue
		}
		v := k.Value()
		if v == nil {
			continue
		}
		pass := eng.NewCut()
		if kind == "GlobalRuleThreshold" {
			for _, e := range fail {
				pass.AddEdges(eng.Edge{From: e.From, Idx: 1 - e.Idx})
			}
		} else {
			for _, kk := range knows {
				pass.AddEdges(eng.BoolEdges(fn, eng.PSame(kk.Result(0)), true)...)
			}
			// documented skips: mergeability prediction, first entry for the reference
			pass.AddEdges(eng.BoolEdges(fn, func(v ssa.Value) bool { n, _, isF := eng.FieldLoad(v); return isF && n == "verifyMergeable" }, true)...)
			pass.AddEdges(eng.BoolEdges(fn, func(v ssa.Value) bool {
				ik, _, ok := eng.RootCall(v)
				if !ok || ik.Name() != "errors.Is" {
					return false
				}
				g := eng.GlobalLoad(ik.Arg(1))
				return g != nil && g.Name() == "ErrRSLEntryNotFound"
			}, true)...)
		}
		okM := true
		var wit *eng.Path
		for _, e := range eng.BoolEdges(fn, eng.PSame(v), true) {
			if p := eng.FindPath(e.To(), 0, nextOrSuccess, pass); p != nil {
				okM = false
				wit = p
			}
		}
		if okM {
			r.Ok("matching-rule-enforced:"+kind, k.Pos(), "a matching %s is always evaluated", kind)
		} else {
			r.Bad("matching-rule-enforced:"+kind, k.Pos(), "a %s that matches the namespace can be passed over without its condition having held (Matches test inverted or check skipped); witness %s", kind, c.DescribePath(wit))
		}
	}
	// unknown rule type → error: a return with sentinel ErrUnknownGlobalRuleType exists
	unk := false
	for _, ret := range eng.Returns(fn) {
		if eng.Sentinels(eng.RetErr(ret))["ErrUnknownGlobalRuleType"] {
			unk = true
		}
	}
	r.Check(unk, "unknown-type-fails", fn.Pos(), "unknown global rule type → ErrUnknownGlobalRuleType", "an unknown global rule type is no longer rejected")
	// both rule kinds test Matches(target)
	nm := 0
	for _, k := range eng.Calls(fn, false) {
		if k.Method() == "Matches" && (k.RecvTypeName() == "GlobalRuleThreshold" || k.RecvTypeName() == "GlobalRuleBlockForcePushes") {
			nm++
			r.Check(eng.PParam("target")(k.Arg(0)), "matches-target:"+k.RecvTypeName(), k.Pos(), "rule.Matches(target)", "global rule is matched against something other than the namespace under verification")
		}
	}
	r.Check(nm == 2, "matches-both-kinds", fn.Pos(), "both global rule kinds test Matches(target)", "expected a Matches(target) test for each of the two global rule kinds")
}

func sameObjVal(a, b ssa.Value) bool {
	if a == nil || b == nil {
		return false
	}
	return sameObj(b)(a)
}

func c11RulesLoaded(c *Ctx, r *R) {
	fn := r.Fn("(*internal/policy.State).preprocess")
	if fn == nil {
		return
	}
	rootGR := eng.PMethod("GetGlobalRules", eng.PCall("(*internal/policy.State).GetRootMetadata", 0))
	ctrlGR := eng.PMethod("GetGlobalRules", eng.PCall("(*internal/policy.State).GetControllerRootMetadata", 0))
	var own, ctrl bool
	for _, b := range fn.Blocks {
		for _, in := range b.Instrs {
			mu, ok := in.(*ssa.MapUpdate)
			if !ok || !strings.HasSuffix(mu.Map.Type().String(), "GlobalRule") {
				continue
			}
			r.Site(1)
			if s, isC := eng.ConstString(mu.Key); isC && s == "" && rootGR(mu.Value) {
				own = true
			}
			if ctrlGR(mu.Value) {
				// key must be the range key over ControllerMetadata and the argument of GetControllerRootMetadata
				for _, root := range eng.Roots(mu.Value) {
					if k, _, ok := eng.RootCall(root); ok {
						if rk, _, ok := eng.RootCall(eng.Roots(k.Recv())[0]); ok {
							if sameObjVal(rk.Arg(0), mu.Key) {
								ctrl = true
							}
						}
					}
				}
			}
		}
	}
	r.Check(own, "own-rules", fn.Pos(), `globalRules[""] = rootMetadata.GetGlobalRules()`, "the repository's own global rules are not loaded into State.globalRules[\"\"]")
	r.Check(ctrl, "controller-rules", fn.Pos(), "globalRules[controller] = controller root GetGlobalRules() for every controller", "controller global rules are not loaded under the controller's own name")
	// the table is only ever extended: the field State.globalRules is (re)assigned either before any
	// loop (the repository's own rules) or, inside the controller loop, under `s.globalRules == nil`
	// (first controller with rules when the repository has none); an unconditional assignment in the
	// loop would throw away the repository's own rules and every earlier controller's
	isNil := eng.RelEdges(fn, token.EQL, eng.PField("globalRules", nil), eng.PNil())
	okExt, nSt := true, 0
	for _, b := range fn.Blocks {
		for _, in := range b.Instrs {
			st, ok := in.(*ssa.Store)
			if !ok {
				continue
			}
			fa, ok := st.Addr.(*ssa.FieldAddr)
			if !ok || fieldNameOf(fa) != "globalRules" {
				continue
			}
			nSt++
			inLoop := false
			for h := range loopHeads(fn) {
				if lp := eng.NaturalLoop(h.Block()); lp[b] {
					inLoop = true
				}
			}
			if !inLoop {
				continue
			}
			guarded := false
			for _, e := range isNil {
				if eng.EdgeDominates(e, b) {
					guarded = true
				}
			}
			okExt = okExt && guarded
		}
	}
	r.Check(okExt && nSt >= 1, "table-only-extended", fn.Pos(), "State.globalRules is replaced only when it is still nil", "State.globalRules is re-assigned inside the controller loop without an `== nil` guard: the repository's own global rules and those of earlier controllers are discarded")
	// the controller loop ranges over ControllerMetadata
	done := rangeDoneEdges(fn, eng.PField("ControllerMetadata", nil))
	r.Check(len(done) > 0, "all-controllers", fn.Pos(), "preprocess ranges over every member of ControllerMetadata", "no range over ControllerMetadata in preprocess")
}

func c11PrevUnskipped(c *Ctx, r *R) {
	fn := r.Fn(fnVGOA)
	if fn == nil {
		return
	}
	ks := eng.CallsTo(fn, false, "pkg/rsl.GetLatestReferenceUpdaterEntry")
	k, ok := oneCall(r, "anchor", fn, ks, "rsl.GetLatestReferenceUpdaterEntry")
	if !ok {
		return
	}
	r.Site(1)
	names, ctors, okb := optionNames(k)
	if !okb {
		r.Undecided("options", k.Pos(), "option list is not built at the call site")
		return
	}
	r.Check(sameStringSet(names, "BeforeEntryID", "ForReference", "IsUnskipped"), "options", k.Pos(),
		"predecessor lookup carries {BeforeEntryID, ForReference, IsUnskipped}",
		"force-push predecessor lookup options are "+strings.Join(names, ",")+", expected exactly BeforeEntryID, ForReference, IsUnskipped (a skipped or foreign predecessor would be compared)")
	cur := eng.PCall("pkg/rsl.GetEntry", 0, nil, eng.PParam("gitID"))
	if b, ok := optionCtor(ctors, "BeforeEntryID"); ok {
		r.Check(eng.PMethod("GetID", cur)(b.Arg(0)) || eng.PParam("gitID")(b.Arg(0)), "before-current", b.Pos(), "BeforeEntryID(current entry)", "BeforeEntryID is not the entry under verification")
	}
	if f, ok := optionCtor(ctors, "ForReference"); ok {
		n, _, isF := eng.FieldLoad(f.Arg(0))
		r.Check((isF && n == "RefName") || eng.PMethod("GetRefName", nil)(f.Arg(0)), "same-ref", f.Pos(), "ForReference(current entry's reference)", "ForReference is not the reference of the entry under verification")
	}
	errPropagates(c, r, "lookup-error", k, "ErrRSLEntryNotFound")
	kn := eng.CallsToMethod(fn, false, "KnowsCommit", "Storer", "Repository")
	if len(kn) == 1 {
		n0, _, f0 := eng.FieldLoad(kn[0].Arg(0))
		prevT := eng.PMethod("GetTargetID", eng.PCall("pkg/rsl.GetLatestReferenceUpdaterEntry", 0))
		r.Check(f0 && n0 == "TargetID" && prevT(kn[0].Arg(1)), "ancestry-operands", kn[0].Pos(), "KnowsCommit(current.TargetID, previous.GetTargetID())", "KnowsCommit operands are not (current entry target, previous unskipped entry target) in that order")
	}
}
