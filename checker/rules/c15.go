package rules

import (
	"go/token"
	"go/types"
	"sort"
	"strings"

	"golang.org/x/tools/go/ssa"

	"verif/checker/eng"
)

func init() {
	Meta["C15"] = PropMeta{
		Explanation: "Static necessary conditions of 'reconcile and sync never drop, reorder, un-revoke or invent log entries': the replay of local-only entries has a case for every implementer of rsl.Entry (an uncovered kind silently vanishes), re-records each kind with the same fields, runs oldest-first, and the scans that feed the conflict test and the ref-tip map account for every kind that can move a reference; identifiers given to a re-recorded annotation must not be an unmodified copy of the old annotation's targets (re-recording changes identifiers); the local log is reset to the remote tip only after the conflict test passed; sync moves a non-log reference only on a fast-forward or from the diverged list, which is copied only when overwriting was explicitly allowed, and only in the final loops; fetch/push of gittuf's references are fast-forward only; when local is ahead the log is pushed together with the references its entries name. Semantic equivalence of the replayed suffix and the reference states after sync are NOT decided.",
		Decides:     []string{"replay / conflict scan / ref-tip exhaustiveness over entry kinds (violated today for PropagationEntry: F10)", "annotation targets re-mapped (violated today: F10)", "refuse-before-mutate", "sync overwrite / fast-forward gates", "fast-forward-only refspecs for gittuf refs", "log pushed with the refs it names"},
		NotDecided:  []string{"meaning-preservation of the replayed entries over all suffix shapes", "local reference states after sync"},
	}
	reg(&eng.Rule{ID: "C15.replay-exhaustive", Prop: "C15", Floor: 8,
		Doc: "In ReconcileLocalRSLWithRemote the replay type switch covers every rsl.Entry implementer (or rejects unknown kinds) and re-records through the matching constructor with the same fields, iterating from len-1 down to 0; the local/remote 'updated refs' scans and getLatestRefTipsFromRSLEntries handle every kind that implements ReferenceUpdaterEntry.",
		Run: c15ReplayExhaustive})
	reg(&eng.Rule{ID: "C15.ids-remapped", Prop: "C15", Floor: 1,
		Doc: "The identifier list given to rsl.NewAnnotationEntry in the replay is not an identity copy of the old entry's RSLEntryIDs field.",
		Run: c15IDsRemapped})
	reg(&eng.Rule{ID: "C15.refuse-first", Prop: "C15", Floor: 2,
		Doc: "SetReference(rsl.Ref, remote tip) in reconcile is reached only when localUpdatedRefs ∩ remoteUpdatedRefs is empty; a non-empty intersection returns an error before any reference write.",
		Run: c15RefuseFirst})
	reg(&eng.Rule{ID: "C15.sync-gates", Prop: "C15", Floor: 8,
		Doc: "In sync: a non-log reference enters referenceUpdateDirectives only on KnowsCommit(remoteTip, localTip) true or from divergedRefs; divergedRefs is copied into the directives only when overwriteLocalRefs is true; SetReference is called only in loops over the directives; tips come from getLatestRefTipsFromRSLEntries which skips skipped entries and keeps the newest tip per reference.",
		Run: c15SyncGates})
	reg(&eng.Rule{ID: "C15.ff-refspecs", Prop: "C15", Floor: 8,
		Doc: "(*Repository).Push builds refspecs with fastForwardOnly = true; RefSpec prefixes '+' only when !fastForwardOnly; every Fetch in experimental/gittuf passes the constant true; raw FetchRefSpec format strings have no leading '+'.",
		Run: c15FFRefspecs})
	reg(&eng.Rule{ID: "C15.push-with-refs", Prop: "C15", Floor: 2,
		Doc: "When local is ahead, sync pushes {rsl.Ref} ∪ keys(getLatestRefTipsFromRSLEntries(local-only entries)) in a single Push.",
		Run: c15PushWithRefs})
}

const fnReconcile = "(*experimental/gittuf.Repository).ReconcileLocalRSLWithRemote"
const fnSync = "(*experimental/gittuf.Repository).sync"
const fnTips = "experimental/gittuf.getLatestRefTipsFromRSLEntries"

func entryImplementers(c *Ctx, ifaceSpec string) []*types.TypeName {
	it := c.Type(ifaceSpec)
	if it == nil {
		return nil
	}
	iface := it.Underlying().(*types.Interface)
	p := c.Pkg("pkg/rsl")
	var out []*types.TypeName
	for _, name := range p.Types.Scope().Names() {
		tn, ok := p.Types.Scope().Lookup(name).(*types.TypeName)
		if !ok {
			continue
		}
		if _, isI := tn.Type().Underlying().(*types.Interface); isI {
			continue
		}
		if types.Implements(types.NewPointer(tn.Type()), iface) {
			out = append(out, tn)
		}
	}
	sort.Slice(out, func(i, j int) bool { return out[i].Name() < out[j].Name() })
	return out
}

// typeAssertsOn lists comma-ok type assertions in fn whose operand is an element of a slice matching p.
func typeAssertsOn(fn *ssa.Function, p Pat) map[string][]*ssa.TypeAssert {
	out := map[string][]*ssa.TypeAssert{}
	for _, b := range fn.Blocks {
		for _, in := range b.Instrs {
			ta, ok := in.(*ssa.TypeAssert)
			if !ok || !ta.CommaOk {
				continue
			}
			elemOK := false
			for _, root := range eng.Roots(ta.X) {
				if u, ok := root.(*ssa.UnOp); ok {
					if ia, ok := u.X.(*ssa.IndexAddr); ok && p(ia.X) {
						elemOK = true
					}
				}
			}
			if !elemOK {
				continue
			}
			if pt, ok := ta.AssertedType.(*types.Pointer); ok {
				if n, ok := pt.Elem().(*types.Named); ok {
					out[n.Obj().Name()] = append(out[n.Obj().Name()], ta)
				}
			}
		}
	}
	return out
}

func c15ReplayExhaustive(c *Ctx, r *R) {
	fn := r.Fn(fnReconcile)
	if fn == nil {
		return
	}
	all := entryImplementers(c, "pkg/rsl.Entry")
	movers := entryImplementers(c, "pkg/rsl.ReferenceUpdaterEntry")
	if len(all) == 0 {
		r.Undecided("anchor", fn.Pos(), "no implementers of rsl.Entry found")
		return
	}
	until := eng.CallsTo(fn, false, "experimental/gittuf.getRSLEntriesUntil")
	if len(until) != 2 {
		r.Undecided("anchor-until", fn.Pos(), "expected two getRSLEntriesUntil calls (local-only, remote-only)")
		return
	}
	var sr Call
	for _, k := range eng.CallsToMethod(fn, false, "SetReference", storageRecvs...) {
		sr = k
	}
	if sr.Instr == nil {
		r.Bad("anchor-reset", fn.Pos(), "reconcile no longer resets the local log to the remote tip")
		return
	}
	localOnly := sameObj(until[0].Result(0))
	remoteOnly := sameObj(until[1].Result(0))
	tasL := typeAssertsOn(fn, localOnly)
	tasR := typeAssertsOn(fn, remoteOnly)
	// replay: assertions after the reset
	hasDefaultErr := false // a default that returns an error would show as: after the last assert's false edge → error return (not present today)
	for _, tn := range all {
		r.Site(1)
		found := false
		for _, ta := range tasL[tn.Name()] {
			if sr.Block().Dominates(ta.Block()) {
				found = true
			}
		}
		if found {
			// the case must actually re-record: a Commit of a fresh entry is reached before the next element is examined
			rerec := false
			allTA := eng.NewCut()
			for _, l := range tasL {
				for _, ta := range l {
					allTA.AddInstrs(ta)
				}
			}
			for _, ta := range tasL[tn.Name()] {
				if !sr.Block().Dominates(ta.Block()) {
					continue
				}
				for _, ref := range *ta.Referrers() {
					ex, ok := ref.(*ssa.Extract)
					if !ok || ex.Index != 1 {
						continue
					}
					for _, e := range eng.BoolEdges(fn, eng.PSame(ex), true) {
						p := eng.FindPath(e.To(), 0, func(in ssa.Instruction) bool {
							ci, ok := in.(ssa.CallInstruction)
							if !ok {
								return false
							}
							k := Call{Instr: ci, Callee: eng.CalleeOf(ci)}
							return k.Method() == "Commit" && strings.HasSuffix(k.RecvTypeName(), "Entry")
						}, allTA)
						if p != nil {
							rerec = true
						}
					}
				}
			}
			if rerec {
				r.Ok("replay:kind:"+tn.Name(), fn.Pos(), "local-only entries of kind %s are re-recorded", tn.Name())
			} else {
				r.Bad("replay:kind:"+tn.Name(), sr.Pos(), "the replay has a case for entry kind %s but it does not re-record the entry (no Commit reached): such entries are dropped from the reconciled log", tn.Name())
			}
		} else if hasDefaultErr {
			r.Ok("replay:kind:"+tn.Name(), fn.Pos(), "unknown kinds are rejected")
		} else {
			r.Bad("replay:kind:"+tn.Name(), sr.Pos(), "the replay of local-only entries has no case for entry kind %s (and no default that fails): such entries silently vanish from the reconciled log", tn.Name())
		}
	}
	for _, tn := range movers {
		for side, tas := range map[string]map[string][]*ssa.TypeAssert{"local": tasL, "remote": tasR} {
			r.Site(1)
			found := false
			for _, ta := range tas[tn.Name()] {
				if !sr.Block().Dominates(ta.Block()) {
					found = true
				}
			}
			if found {
				r.Ok("conflict-scan:"+side+":"+tn.Name(), fn.Pos(), "%s entries of kind %s contribute their reference to the conflict test", side, tn.Name())
			} else {
				r.Bad("conflict-scan:"+side+":"+tn.Name(), fn.Pos(), "the %s 'updated refs' scan ignores entry kind %s although it moves a reference: a conflicting update of the same reference on both sides is not detected", side, tn.Name())
			}
		}
	}
	// constructor arguments
	for _, k := range eng.CallsTo(fn, false, "pkg/rsl.NewReferenceEntry") {
		n0, b0, f0 := eng.FieldLoad(k.Arg(0))
		n1, b1, f1 := eng.FieldLoad(k.Arg(1))
		r.Check(f0 && f1 && n0 == "RefName" && n1 == "TargetID" && sameObjVal(b0, b1), "replay-fields:ReferenceEntry", k.Pos(), "NewReferenceEntry(entry.RefName, entry.TargetID)", "a replayed reference entry is not re-recorded with the old entry's (RefName, TargetID)")
	}
	for _, k := range eng.CallsTo(fn, false, "pkg/rsl.NewAnnotationEntry") {
		n1, b1, f1 := eng.FieldLoad(k.Arg(1))
		n2, b2, f2 := eng.FieldLoad(k.Arg(2))
		r.Check(f1 && f2 && n1 == "Skip" && n2 == "Message" && sameObjVal(b1, b2), "replay-fields:AnnotationEntry", k.Pos(), "NewAnnotationEntry(…, entry.Skip, entry.Message)", "a replayed annotation does not keep the old entry's Skip flag and Message (an entry could become un-revoked)")
	}
	for _, k := range eng.Calls(fn, false) {
		if (k.Name() == "(*pkg/rsl.ReferenceEntry).Commit" || k.Name() == "(*pkg/rsl.AnnotationEntry).Commit" || k.Name() == "(*pkg/rsl.PropagationEntry).Commit") && sr.Block().Dominates(k.Block()) {
			errPropagates(c, r, "replay-error:"+k.RecvTypeName(), k)
		}
	}
	// descending loop: an index phi initialised with len(localOnly)-1, decremented by 1, tested >= 0
	desc := false
	for _, b := range fn.Blocks {
		for _, in := range b.Instrs {
			phi, ok := in.(*ssa.Phi)
			if !ok || !sr.Block().Dominates(b) {
				continue
			}
			init, dec := false, false
			for _, e := range phi.Edges {
				if eng.PBin(token.SUB, eng.PLen(localOnly), eng.PInt(1))(e) {
					init = true
				}
				if bo, ok := e.(*ssa.BinOp); ok && bo.Op == token.SUB && bo.X == ssa.Value(phi) {
					if i, isC := eng.ConstInt(bo.Y); isC && i == 1 {
						dec = true
					}
				}
			}
			if init && dec {
				desc = true
			}
		}
	}
	r.Check(desc, "replay-order", sr.Pos(), "replay runs from len-1 down to 0 (original order, entries are listed newest first)", "the replay loop does not run from len(localOnlyEntries)-1 down to 0: local-only entries would be re-recorded in reverse order")
	// getLatestRefTipsFromRSLEntries
	if tf := r.Fn(fnTips); tf != nil {
		tas := typeAssertsOn(tf, eng.PParam("entries"))
		allAsserts := eng.NewCut()
		for _, l := range tas {
			for _, ta := range l {
				allAsserts.AddInstrs(ta)
			}
		}
		for _, tn := range movers {
			r.Site(1)
			contributes := false
			for _, ta := range tas[tn.Name()] {
				var okVal ssa.Value
				for _, ref := range *ta.Referrers() {
					if ex, ok := ref.(*ssa.Extract); ok && ex.Index == 1 {
						okVal = ex
					}
				}
				if okVal == nil {
					continue
				}
				te := eng.BoolEdges(tf, eng.PSame(okVal), true)
				for _, e := range te {
					// a MapUpdate into the result map reachable from this case before the next element is examined
					p := eng.FindPath(e.To(), 0, func(in ssa.Instruction) bool {
						mu, ok := in.(*ssa.MapUpdate)
						return ok && strings.HasSuffix(mu.Map.Type().String(), "githash.Hash")
					}, allAsserts)
					if p != nil {
						contributes = true
					}
				}
			}
			if contributes {
				r.Ok("ref-tips:"+tn.Name(), tf.Pos(), "entries of kind %s contribute their reference's tip", tn.Name())
			} else {
				r.Bad("ref-tips:"+tn.Name(), tf.Pos(), "getLatestRefTipsFromRSLEntries never records a tip for entries of kind %s although they move a reference: sync neither updates nor pushes references last moved by such an entry", tn.Name())
			}
		}
		// keeps the newest tip per ref: MapUpdate guarded by "not already present"; skipped entries excluded
		var mus []ssa.Instruction
		for _, b := range tf.Blocks {
			for _, in := range b.Instrs {
				if mu, ok := in.(*ssa.MapUpdate); ok && strings.HasSuffix(mu.Map.Type().String(), "githash.Hash") {
					mus = append(mus, in)
				}
			}
		}
		notHas := eng.BoolEdges(tf, func(v ssa.Value) bool {
			ex, ok := v.(*ssa.Extract)
			if !ok || ex.Index != 1 {
				return false
			}
			lk, ok := ex.Tuple.(*ssa.Lookup)
			return ok && strings.HasSuffix(lk.X.Type().String(), "githash.Hash")
		}, false)
		notSkipped := eng.BoolEdges(tf, eng.PMethod("SkippedBy", nil), false)
		for _, mu := range mus {
			mustPass(c, r, "ref-tips-first-wins", tf, isInstr(mu), eng.NewCut().AddEdges(notHas...), "a tip is recorded only if the reference has none yet (newest entry wins)", "a reference's tip can be overwritten by an older entry")
			// skipped: either not skipped or no annotations for it
			noAnn := eng.BoolEdges(tf, func(v ssa.Value) bool {
				ex, ok := v.(*ssa.Extract)
				if !ok || ex.Index != 1 {
					return false
				}
				lk, ok := ex.Tuple.(*ssa.Lookup)
				return ok && strings.Contains(lk.X.Type().String(), "AnnotationEntry")
			}, false)
			mustPass(c, r, "ref-tips-skip-skipped", tf, isInstr(mu), eng.NewCut().AddEdges(notSkipped...).AddEdges(noAnn...), "skipped entries do not define a tip", "a skipped entry can define a reference's tip")
		}
	}
}

func c15IDsRemapped(c *Ctx, r *R) {
	fn := r.Fn(fnReconcile)
	if fn == nil {
		return
	}
	n := 0
	for _, k := range eng.CallsTo(fn, false, "pkg/rsl.NewAnnotationEntry") {
		n++
		r.Site(1)
		name, _, isF := eng.FieldLoad(k.Arg(0))
		if isF && name == "RSLEntryIDs" && len(eng.Roots(k.Arg(0))) == 1 {
			r.Bad("annotation-targets", k.Pos(), "a replayed annotation is re-recorded with the OLD entry's RSLEntryIDs unchanged; when it targets a local-only entry that entry was just re-recorded under a new identifier, so the annotation now names a stale object (it no longer refers to — or skips — the counterpart that is part of the log)")
		} else {
			r.Ok("annotation-targets", k.Pos(), "annotation targets pass through a transformation before being re-recorded")
		}
	}
	if n == 0 {
		r.Bad("annotation-targets", fn.Pos(), "annotations are not re-recorded at all")
	}
}

func c15RefuseFirst(c *Ctx, r *R) {
	fn := r.Fn(fnReconcile)
	if fn == nil {
		return
	}
	var sr Call
	for _, k := range eng.CallsToMethod(fn, false, "SetReference", storageRecvs...) {
		sr = k
	}
	if sr.Instr == nil {
		r.Bad("reset", fn.Pos(), "no SetReference(rsl.Ref, …)")
		return
	}
	r.Site(1)
	s, isC := eng.ConstString(sr.Arg(0))
	r.Check(isC && s == refRSL && eng.PMethod("GetReference", nil)(sr.Arg(1)), "reset-to-remote-tip", sr.Pos(), "the local log is reset to the fetched remote tip", "the reset is not SetReference(rsl.Ref, tracker tip)")
	inter := eng.PMethod("Intersection", nil)
	empty := eng.RelEdges(fn, token.EQL, eng.PMethod("Len", inter), eng.PInt(0))
	if len(empty) == 0 {
		r.Bad("conflict-test", sr.Pos(), "no `intersection.Len() != 0` test before the local log is reset")
		return
	}
	mustPass(c, r, "conflict-test", fn, isInstr(sr.Instr), eng.NewCut().AddEdges(empty...), "the log is reset only when no reference was updated on both sides", "the local log can be reset to the remote tip although both sides updated the same reference")
	for _, e := range empty {
		fe := eng.Edge{From: e.From, Idx: 1 - e.Idx}
		p := eng.LeadsOnlyToErr(fe, "")
		r.Check(p == nil, "conflict-refused", pos(e.From.Instrs[len(e.From.Instrs)-1]), "a conflict returns an error", "a conflict between local and remote updates does not return an error")
	}
	// intersection operands: sets filled from local-only and remote-only scans
	for _, k := range eng.Calls(fn, false) {
		if k.Method() == "Intersection" {
			r.Check(!sameObjVal(k.Recv(), k.Arg(0)), "conflict-operands", k.Pos(), "intersection of two different sets", "the conflict test intersects a set with itself")
		}
	}
	// errors of the entry listings propagate
	for _, k := range eng.CallsTo(fn, false, "experimental/gittuf.getRSLEntriesUntil") {
		errPropagates(c, r, "listing-error:"+callKey(fn, k), k)
	}
	errPropagates(c, r, "reset-error", sr)
}

func c15SyncGates(c *Ctx, r *R) {
	fn := r.Fn(fnSync)
	if fn == nil {
		return
	}
	isDirectives := func(v ssa.Value) bool {
		mt, ok := v.Type().Underlying().(*types.Map)
		return ok && strings.HasSuffix(mt.Elem().String(), "githash.Hash")
	}
	overwrite := eng.BoolEdges(fn, eng.PParam("overwriteLocalRefs"), true)
	nUpd := 0
	for _, b := range fn.Blocks {
		for _, in := range b.Instrs {
			mu, ok := in.(*ssa.MapUpdate)
			if !ok || !isDirectives(mu.Map) {
				continue
			}
			if s, isC := eng.ConstString(mu.Key); isC && s == refRSL {
				r.Ok("directive:log", mu.Pos(), "the log itself is set to the remote tip")
				continue
			}
			nUpd++
			r.Site(1)
			// where does the key come from: range over divergedRefs ([]string) or over remoteUpdatedRefTips (map)
			fromDiverged := false
			for _, root := range eng.Roots(mu.Key) {
				if u, ok := root.(*ssa.UnOp); ok {
					if ia, ok := u.X.(*ssa.IndexAddr); ok && strings.HasSuffix(ia.X.Type().String(), "[]string") {
						fromDiverged = true
					}
				}
			}
			if fromDiverged {
				mustPass(c, r, "overwrite-only-if-allowed", fn, isInstr(mu), eng.NewCut().AddEdges(overwrite...), "diverged references are overwritten only when overwriteLocalRefs is true", "a diverged local reference can be scheduled for overwriting without overwriteLocalRefs being true")
			} else {
				ff := eng.BoolEdges(fn, func(v ssa.Value) bool {
					k, i, ok := eng.RootCall(v)
					return ok && i == 0 && k.Method() == "KnowsCommit"
				}, true)
				mustPass(c, r, "fast-forward-only", fn, isInstr(mu), eng.NewCut().AddEdges(ff...), "a reference is scheduled for update only when the remote tip descends from the local tip", "a local reference can be moved to a remote tip that does not descend from it (rewind / overwrite) outside the diverged-refs path")
			}
		}
	}
	r.Check(nUpd == 4, "directive-sites", fn.Pos(), "four directive insertions (ff + diverged, in each of the two branches)", "expected four insertions into referenceUpdateDirectives")
	// KnowsCommit operand order for the ff test: (remoteTip, localTip) with localTip = GetReference(refName)
	for _, k := range eng.CallsToMethod(fn, false, "KnowsCommit", storageRecvs...) {
		if eng.PMethod("GetReference", nil)(k.Arg(1)) && !eng.PMethod("GetReference", nil)(k.Arg(0)) {
			isTip := false
			for _, root := range eng.Roots(k.Arg(0)) {
				if ex, ok := root.(*ssa.Extract); ok {
					if _, ok := ex.Tuple.(*ssa.Next); ok {
						isTip = true
					}
				}
			}
			r.Check(isTip, "ff-operands:"+callKey(fn, k), k.Pos(), "KnowsCommit(remoteTip, localTip)", "the fast-forward test's operands are not (remote tip from the log entries, local tip)")
		}
	}
	// !overwriteLocalRefs → ErrDivergedRefs (two sites)
	nd := 0
	for _, ret := range eng.Returns(fn) {
		if eng.Sentinels(eng.RetErr(ret))["ErrDivergedRefs"] {
			nd++
		}
	}
	r.Check(nd == 2, "diverged-refused", fn.Pos(), "both branches return ErrDivergedRefs when overwriting is not allowed", "expected two ErrDivergedRefs exits in sync")
	// SetReference only in loops over the directives map
	for _, k := range eng.CallsToMethod(fn, false, "SetReference", storageRecvs...) {
		r.Site(1)
		okK := false
		for _, root := range eng.Roots(k.Arg(0)) {
			if ex, ok := root.(*ssa.Extract); ok {
				if nx, ok := ex.Tuple.(*ssa.Next); ok {
					if rg, ok := nx.Iter.(*ssa.Range); ok && isDirectives(rg.X) {
						okK = true
					}
				}
			}
		}
		r.Check(okK, "set-only-from-directives:"+callKey(fn, k), k.Pos(), "references are moved only from the directives map", "sync moves a reference that does not come from the directives map")
		errPropagates(c, r, "set-error:"+callKey(fn, k), k)
	}
	// tips come from getLatestRefTipsFromRSLEntries(remote-only entries)
	tips := eng.CallsTo(fn, false, fnTips)
	r.Check(len(tips) == 3, "tips-source", fn.Pos(), "reference tips come from getLatestRefTipsFromRSLEntries (local-ahead, remote-ahead, diverged)", "expected three getLatestRefTipsFromRSLEntries calls in sync")
	for _, k := range tips {
		r.Check(eng.PCall("experimental/gittuf.getRSLEntriesUntil", 0)(k.Arg(0)), "tips-from-new-entries:"+callKey(fn, k), k.Pos(), "tips are computed from the new entries only", "tips are not computed from getRSLEntriesUntil's result")
	}
}

func c15FFRefspecs(c *Ctx, r *R) {
	if fn := r.Fn("(*pkg/gitinterface.Repository).Push"); fn != nil {
		for _, k := range eng.CallsTo(fn, false, "(*pkg/gitinterface.Repository).RefSpec") {
			b, isC := eng.ConstBool(k.Arg(2))
			r.Check(isC && b, "push-ff-only", k.Pos(), "Push builds fast-forward-only refspecs", "Push builds refspecs that are not fast-forward only (a remote log could be overwritten)")
		}
	}
	if fn := r.Fn("(*pkg/gitinterface.Repository).Fetch"); fn != nil {
		for _, k := range eng.CallsTo(fn, false, "(*pkg/gitinterface.Repository).RefSpec") {
			r.Check(eng.PParam("fastForwardOnly")(k.Arg(2)), "fetch-passes-flag", k.Pos(), "Fetch passes its fastForwardOnly flag to RefSpec", "Fetch does not pass its fastForwardOnly flag through")
		}
	}
	if fn := r.Fn("(*pkg/gitinterface.Repository).RefSpec"); fn != nil {
		// "+%s" formatting only on !fastForwardOnly
		var plus []Call
		for _, k := range eng.CallsTo(fn, false, "fmt.Sprintf") {
			if f, ok := eng.ConstString(k.Arg(0)); ok && strings.HasPrefix(f, "+") {
				plus = append(plus, k)
			}
		}
		r.Check(len(plus) == 1, "plus-site", fn.Pos(), "one place adds the force prefix", "expected exactly one '+' prefix site in RefSpec")
		for _, k := range plus {
			notFF := eng.BoolEdges(fn, func(v ssa.Value) bool {
				for _, root := range eng.Roots(v) {
					if p, ok := root.(*ssa.Parameter); ok && p.Name() == "fastForwardOnly" {
						return true
					}
				}
				return false
			}, false)
			mustPass(c, r, "plus-only-if-forced", fn, isInstr(k.Instr), eng.NewCut().AddEdges(notFF...), "'+' is added only when fastForwardOnly is false", "RefSpec can add the '+' (force) prefix although fastForwardOnly is true")
		}
	}
	// callers in experimental/gittuf and internal/policy
	n := 0
	c.ModuleFuncs(func(fn *ssa.Function) {
		pk := pkgOf(fn)
		if pk != "experimental/gittuf" && pk != "internal/policy" {
			return
		}
		for _, k := range eng.Calls(fn, false) {
			switch {
			case k.IsMethodOf("Fetch", "Repository"):
				n++
				r.Site(1)
				b, isC := eng.ConstBool(k.Arg(2))
				r.Check(isC && b, "fetch-ff:"+callKey(fn, k), k.Pos(), "Fetch(…, fastForwardOnly=true)", fname(rootFn(fn))+" fetches references without fastForwardOnly = true: a rewound remote log/policy would overwrite the local one")
			case k.IsMethodOf("FetchRefSpec", "Repository"), k.IsMethodOf("PushRefSpec", "Repository"):
				n++
				r.Site(1)
				okS := true
				els := eng.VariadicElems(k.Arg(1))
				if els == nil {
					// slice built earlier: look for Sprintf formats feeding it
					els = []ssa.Value{k.Arg(1)}
				}
				for _, e := range els {
					for _, root := range eng.Roots(e) {
						if sk, _, isCall := eng.RootCall(root); isCall && sk.Name() == "fmt.Sprintf" {
							if f, ok := eng.ConstString(sk.Arg(0)); !ok || strings.HasPrefix(f, "+") {
								okS = false
							}
						} else if s, isC := eng.ConstString(root); isC && strings.HasPrefix(s, "+") {
							okS = false
						}
					}
				}
				r.Check(okS, "raw-refspec:"+callKey(fn, k), k.Pos(), "raw refspec has no force prefix", fname(rootFn(fn))+" uses a raw refspec with a leading '+' (forced update)")
			}
		}
	})
	r.Check(n >= 6, "callers-found", token.NoPos, "fetch/refspec call sites analysed", "fewer fetch / raw refspec call sites than on the reference tree")
	// the tracker refspec slices built into a local and passed later (rslRemoteRefSpec := []string{Sprintf(...)})
	for _, spec := range []string{fnReconcile, fnSync} {
		fn := r.Fn(spec)
		if fn == nil {
			continue
		}
		for _, sk := range eng.CallsTo(fn, false, "fmt.Sprintf") {
			f, ok := eng.ConstString(sk.Arg(0))
			if !ok || !strings.Contains(f, ":") || strings.Contains(f, " ") {
				continue
			}
			r.Check(!strings.HasPrefix(f, "+"), "tracker-refspec:"+fname(fn), sk.Pos(), "tracker refspec "+f+" is not forced", "the remote-log tracker refspec is forced")
		}
	}
}

func c15PushWithRefs(c *Ctx, r *R) {
	fn := r.Fn(fnSync)
	if fn == nil {
		return
	}
	var pushes []Call
	for _, k := range eng.Calls(fn, false) {
		if k.IsMethodOf("Push", "Repository") {
			pushes = append(pushes, k)
		}
	}
	pk, ok := oneCall(r, "single-push", fn, pushes, "Push")
	if !ok {
		return
	}
	r.Site(1)
	// pushRefs: phi/append chain rooted at []string{rsl.Ref} plus appends of keys ranging over getLatestRefTips result
	hasLog, hasKeys := false, false
	seen := map[ssa.Value]bool{}
	var walk func(v ssa.Value, d int)
	walk = func(v ssa.Value, d int) {
		if v == nil || seen[v] || d > 12 {
			return
		}
		seen[v] = true
		for _, root := range eng.Roots(v) {
			switch x := root.(type) {
			case *ssa.Slice:
				for _, e := range eng.VariadicElems(x) {
					if s, isC := eng.ConstString(e); isC && s == refRSL {
						hasLog = true
					}
				}
			case *ssa.Call:
				if b, isB := x.Call.Value.(*ssa.Builtin); isB && b.Name() == "append" {
					walk(x.Call.Args[0], d+1)
					for _, e := range eng.VariadicElems(x.Call.Args[1]) {
						for _, er := range eng.Roots(e) {
							if ex, ok := er.(*ssa.Extract); ok {
								if nx, ok := ex.Tuple.(*ssa.Next); ok {
									if rg, ok := nx.Iter.(*ssa.Range); ok && eng.PCall(fnTips, 0)(rg.X) {
										hasKeys = true
									}
								}
							}
						}
					}
				}
			}
		}
	}
	walk(pk.Arg(1), 0)
	r.Check(hasLog && hasKeys, "log-and-named-refs", pk.Pos(), "the push carries the log and every reference its new entries name", "the push of local-only entries does not carry {rsl.Ref} ∪ the references those entries name: the remote log would record states the remote references do not have")
	errPropagates(c, r, "push-error", pk)
	// guarded by local-ahead
	la := eng.BoolEdges(fn, func(v ssa.Value) bool {
		k, i, ok := eng.RootCall(v)
		return ok && i == 0 && k.Method() == "KnowsCommit" && eng.PMethod("GetReference", nil, eng.PStr(refRSL))(k.Arg(0))
	}, true)
	mustPass(c, r, "push-only-if-ahead", fn, isInstr(pk.Instr), eng.NewCut().AddEdges(la...), "the push happens only when the local log is strictly ahead of the remote log", "sync can push although the local log is not ahead of the remote log")
}

func init() {
	reg(&eng.Rule{ID: "C15.tips-annotations", Prop: "C15", Floor: 2,
		Doc: "getLatestRefTipsFromRSLEntries (which decides the state a reference is synchronised to) records EVERY annotation under EVERY entry id it names: in the loop over an annotation's RSLEntryIDs the next id is reached only after the annotation was appended to that id's list (an annotation dropped here un-revokes the entries it skips), and no id is passed over.",
		Run: c15TipsAnnotations})
}

func c15TipsAnnotations(c *Ctx, r *R) {
	fn := r.Fn("experimental/gittuf.getLatestRefTipsFromRSLEntries")
	if fn == nil {
		return
	}
	heads := eng.LoopsOver(fn, eng.PField("RSLEntryIDs", nil))
	if len(heads) != 1 {
		r.Bad("loop", fn.Pos(), "expected one loop over an annotation's RSLEntryIDs, found %d", len(heads))
		return
	}
	r.Site(1)
	h := heads[0]
	scanExhaustive(c, r, "all-ids", h, nil, "ids named by an annotation")
	var upd []ssa.Instruction
	for _, b := range fn.Blocks {
		for _, in := range b.Instrs {
			mu, ok := in.(*ssa.MapUpdate)
			if !ok || !strings.HasSuffix(mu.Map.Type().String(), "[]*"+eng.Module+"/pkg/rsl.AnnotationEntry") {
				continue
			}
			if k, _, isCall := eng.RootCall(eng.Strip(mu.Value)); isCall && k.Name() == "builtin.append" {
				// the appended element is the annotation whose ids are being walked
				els := eng.VariadicElems(k.Instr.Common().Args[1])
				if len(els) == 1 {
					upd = append(upd, in)
				}
			}
		}
	}
	hd := h.Instrs[len(h.Instrs)-1]
	loop := eng.NaturalLoop(h)
	ok := len(upd) > 0
	for _, s := range h.Succs {
		if !loop[s] {
			continue
		}
		if p := eng.FindPath(s, 0, func(in ssa.Instruction) bool { return in == hd }, eng.NewCut().AddInstrs(upd...)); p != nil {
			ok = false
		}
	}
	r.Check(ok, "every-annotation-recorded", fn.Pos(), "each id named by an annotation gets that annotation appended to its list", "an annotation can be passed over for an id it names (only recorded when it is the first for that id, or not at all): a later revocation of the same entry is ignored when reference tips are computed")
}

func init() {
	reg(&eng.Rule{ID: "C15.sync-decisions", Prop: "C15", Floor: 4,
		Doc: "In sync a reference is scheduled for update only (a) behind the true edge of KnowsCommit(<tip recorded by the remote log>, <local tip>) — in that argument order: the remote state descends from the local one — or (b) in the loop that copies the diverged references, which lies behind overwriteLocalRefs; a reference is put on the diverged list exactly on the complementary edges; and ReconcileLocalRSLWithRemote replays the local-only entries from the last index down to 0 (oldest first, none left out).",
		Run: c15SyncDecisions})
}

func c15SyncDecisions(c *Ctx, r *R) {
	if fn := r.Fn("(*experimental/gittuf.Repository).sync"); fn != nil {
		tips := eng.PCall("experimental/gittuf.getLatestRefTipsFromRSLEntries", 0)
		fromTips := func(v ssa.Value) bool {
			hit := false
			eng.WalkOperands(v, 5, func(w ssa.Value) {
				if tips(w) {
					hit = true
				}
			})
			return hit
		}
		// the local tip of the reference being examined: GetReference(<loop variable>), not the log reference
		local := func(v ssa.Value) bool {
			k, idx, ok := eng.RootCall(eng.Strip(v))
			if !ok || idx != 0 || k.Method() != "GetReference" {
				return false
			}
			_, isConst := eng.ConstString(k.Arg(0))
			return !isConst && !eng.PCall("pkg/rsl.RemoteTrackerRef", 0)(k.Arg(0))
		}
		var ffTrue, ffFalse []eng.Edge
		nKC, okArgs := 0, true
		for _, k := range eng.Calls(fn, false) {
			if k.Method() != "KnowsCommit" {
				continue
			}
			// only the per-reference test (its arguments are a recorded tip and a local tip), not the log-level ones
			if !local(k.Arg(1)) && !local(k.Arg(0)) {
				continue
			}
			nKC++
			if !(fromTips(k.Arg(0)) && local(k.Arg(1))) {
				okArgs = false
			}
			if v := k.Result(0); v != nil {
				ffTrue = append(ffTrue, eng.BoolEdges(fn, eng.PSame(v), true)...)
				ffFalse = append(ffFalse, eng.BoolEdges(fn, eng.PSame(v), false)...)
			}
		}
		r.Site(nKC)
		r.Check(nKC >= 1 && okArgs, "ff-test-args", fn.Pos(), "fast-forward test is KnowsCommit(recorded remote tip, local tip)", "the per-reference fast-forward test is not KnowsCommit(<tip recorded by the remote log>, <local tip>) in that order: a local reference that is AHEAD of the remote record would be rewound")
		ow := eng.BoolEdges(fn, eng.PParam("overwriteLocalRefs"), true)
		owFalse := eng.BoolEdges(fn, eng.PParam("overwriteLocalRefs"), false)
		okDir, nDir := true, 0
		for _, b := range fn.Blocks {
			for _, in := range b.Instrs {
				mu, ok := in.(*ssa.MapUpdate)
				if !ok || !strings.HasSuffix(mu.Map.Type().String(), "githash.Hash") || !strings.HasPrefix(mu.Map.Type().String(), "map[string]") {
					continue
				}
				if _, isConst := eng.ConstString(mu.Key); isConst {
					continue // the log reference itself: always moved to the remote state
				}
				nDir++
				dom := false
				for _, e := range ffTrue {
					if eng.EdgeDominates(e, b) {
						dom = true
					}
				}
				// or: copying the diverged references — a loop over a []string, reachable only with overwriteLocalRefs
				if !dom {
					inCopy := false
					for _, h := range eng.LoopsOver(fn, func(v ssa.Value) bool { return v.Type().String() == "[]string" }) {
						if eng.NaturalLoop(h)[b] {
							inCopy = true
						}
					}
					if inCopy {
						for _, e := range ow {
							if eng.EdgeDominates(e, b) {
								dom = true
							}
						}
						// the second copy site sits after `if !overwriteLocalRefs { return … }`
						for _, e := range owFalse {
							if eng.LeadsOnlyToErr(e, "") == nil && e.From.Dominates(b) {
								dom = true
							}
						}
					}
				}
				okDir = okDir && dom
			}
		}
		r.Check(okDir && nDir >= 2, "update-only-if-ff-or-overwrite", fn.Pos(), "a reference is scheduled for update only when the remote record descends from the local tip, or when overwriting was requested", "a reference can be scheduled for update although the remote record does not descend from the local tip and overwriting was not requested (fast-forward test inverted or bypassed)")
		okDiv, nDiv := true, 0
		for _, k := range eng.Calls(fn, false) {
			if k.Name() != "builtin.append" || k.Instr.Common().Args[0].Type().String() != "[]string" {
				continue
			}
			nDiv++
			dom := false
			for _, e := range ffFalse {
				if eng.EdgeDominates(e, k.Block()) {
					dom = true
				}
			}
			for _, e := range eng.BoolEdges(fn, func(v ssa.Value) bool {
				ek, _, ok := eng.RootCall(v)
				return ok && ek.Method() == "Equal"
			}, false) {
				if eng.EdgeDominates(e, k.Block()) {
					dom = true
				}
			}
			okDiv = okDiv && dom
		}
		r.Check(okDiv && nDiv >= 1, "diverged-iff-not-ff", fn.Pos(), "a reference is listed as diverged only when the fast-forward test (or, for non-commits, equality) failed", "a reference is put on the diverged list on the wrong edge of the fast-forward / equality test")
	}
	if fn := r.Fn("(*experimental/gittuf.Repository).ReconcileLocalRSLWithRemote"); fn != nil {
		ok := false
		for _, h := range eng.LoopsOver(fn, eng.PCall("experimental/gittuf.getRSLEntriesUntil", 0)) {
			if descendingFullLoop(h) {
				ok = true
			}
		}
		r.Check(ok, "replay-oldest-first-all", fn.Pos(), "local-only entries are replayed from index len-1 down to 0", "the replay loop over the local-only entries does not run from len-1 down to index 0: an entry is left out or the order changes")
	}
}
