package rules

import (
	"go/token"
	"strings"

	"golang.org/x/tools/go/ssa"

	"verif/checker/eng"
)

func init() {
	Meta["C07"] = PropMeta{
		Explanation: "Static necessary conditions of 'a violation is tolerated only if revoked and repaired as recovery requires', decided on every CFG path of the recovery loop in PolicyVerifier.VerifyRelativeForRef: after verifyEntry fails, verification continues only on the edge where that very entry is SkippedBy its annotations, otherwise the error is returned; the last good state is looked up with exactly {same reference, before the invalid entry, unskipped, reference entry} and a skipped result is an error; an entry becomes the fix only if its tree equals the last good tree and it is not itself skipped; same-reference entries that are neither fix nor skipped are collected and make verification fail; verification resumes only after a fix was found and no unskipped intermediate entry exists; entries for other references met during the search, and the unconsumed remainder, are re-queued. The verdict over all valid/skipped/tree-same patterns is NOT decided.",
		Decides:     []string{"violation tolerated only on SkippedBy edge", "last-good lookup option set and skipped check", "fix requires tree equality and not skipped", "exit conditions after the search", "nothing dropped from the queue"},
		NotDecided:  []string{"verdict as a function of the whole log pattern", "correctness of tree comparison at run time"},
	}
	reg(&eng.Rule{ID: "C07.only-if-skipped", Prop: "C07", Floor: 3,
		Doc: "After verifyEntry returns an error, the walk continues (recovery search, next entry or success) only through the true edge of entry.SkippedBy(annotations[entry.GetID().String()]) for the same entry; otherwise that error is returned.",
		Run: c07OnlyIfSkipped})
	reg(&eng.Rule{ID: "C07.last-good", Prop: "C07", Floor: 5,
		Doc: "The last-good lookup is GetLatestReferenceUpdaterEntry with exactly {ForReference(invalid.GetRefName()), BeforeEntryID(invalid.GetID()), IsUnskipped(), IsReferenceEntry()}; its error propagates; a skipped result returns ErrLastGoodEntryIsSkipped.",
		Run: c07LastGood})
	reg(&eng.Rule{ID: "C07.fix", Prop: "C07", Floor: 4,
		Doc: "An entry is accepted as the fix only where GetCommitTreeID(new.TargetID).Equal(GetCommitTreeID(lastGood.TargetID)) holds and !new.SkippedBy(annotations[new.ID]); a same-reference reference entry that is neither is appended to the invalid-intermediate list unless skipped; propagation entries are never the fix.",
		Run: c07Fix})
	reg(&eng.Rule{ID: "C07.exits", Prop: "C07", Floor: 3,
		Doc: "After the search, verification resumes only if a fix was found (otherwise the saved violation is returned) and the invalid-intermediate list is empty (otherwise ErrInvalidEntryNotSkipped).",
		Run: c07Exits})
	reg(&eng.Rule{ID: "C07.requeue", Prop: "C07", Floor: 3,
		Doc: "Entries for other references met during the search are appended to the new queue; on fix the unconsumed remainder is appended to (not substituted for) the new queue; the outer loop continues with that queue.",
		Run: c07Requeue})
}

const ruSlice = "[]" + eng.Module + "/pkg/rsl.ReferenceUpdaterEntry"

type c07ctx struct {
	fn        *ssa.Function
	verify    Call   // verifyEntry call
	lastGood  Call   // last-good lookup
	annots    Pat    // the annotations map
	spread    []Call // append(newEntryQueue, entries...)
	singleApp []Call // append(newEntryQueue, x)
	invalidAp []Call // append(invalidIntermediateEntries, x)
}

func c07Anchors(c *Ctx, r *R) *c07ctx {
	fn := r.Fn(fnVRFR)
	if fn == nil {
		return nil
	}
	x := &c07ctx{fn: fn}
	ve := eng.CallsTo(fn, false, "internal/policy.verifyEntry")
	var ok bool
	if x.verify, ok = oneCall(r, "anchor-verifyEntry", fn, ve, "verifyEntry"); !ok {
		return nil
	}
	var lg []Call
	for _, k := range eng.CallsTo(fn, false, "pkg/rsl.GetLatestReferenceUpdaterEntry") {
		lg = append(lg, k)
	}
	if x.lastGood, ok = oneCall(r, "anchor-last-good", fn, lg, "GetLatestReferenceUpdaterEntry"); !ok {
		return nil
	}
	x.annots = eng.PCall("pkg/rsl.GetReferenceUpdaterEntriesInRangeForRef", 1)
	for _, k := range eng.Calls(fn, false) {
		if k.Name() != "builtin.append" {
			continue
		}
		t := k.Instr.Common().Args[0].Type().String()
		switch {
		case t == ruSlice && eng.VariadicElems(k.Instr.Common().Args[1]) == nil:
			x.spread = append(x.spread, k)
		case t == ruSlice:
			x.singleApp = append(x.singleApp, k)
		case strings.HasSuffix(t, "[]*"+eng.Module+"/pkg/rsl.ReferenceEntry"):
			x.invalidAp = append(x.invalidAp, k)
		}
	}
	return x
}

// skippedByOf: entry.SkippedBy(annotations[entry.<id>.String()]) for entry matching p
func skippedByOf(x *c07ctx, p Pat) Pat {
	return func(v ssa.Value) bool {
		k, _, ok := eng.RootCall(v)
		if !ok || k.Method() != "SkippedBy" || k.Recv() == nil || !p(k.Recv()) {
			return false
		}
		// argument: lookup in annotations keyed by the same entry's id string
		for _, root := range eng.Roots(k.Arg(0)) {
			lk, ok := root.(*ssa.Lookup)
			if !ok || !x.annots(lk.X) {
				return false
			}
			idOK := false
			for _, ir := range eng.Roots(lk.Index) {
				if sk, _, ok := eng.RootCall(ir); ok && sk.Method() == "String" {
					// receiver: entry.GetID() or entry.ID of the same entry
					for _, rr := range eng.Roots(sk.Recv()) {
						if gk, _, ok := eng.RootCall(rr); ok && gk.Method() == "GetID" && p(gk.Recv()) {
							idOK = true
						}
						if n, b, isF := eng.FieldLoad(rr); isF && n == "ID" && p(b) {
							idOK = true
						}
					}
				}
			}
			if !idOK {
				return false
			}
		}
		return true
	}
}

func c07OnlyIfSkipped(c *Ctx, r *R) {
	x := c07Anchors(c, r)
	if x == nil {
		return
	}
	fn := x.fn
	r.Site(1)
	entry := sameObj(x.verify.Arg(4))
	ev, _ := x.verify.ErrResult()
	if ev == nil {
		r.Bad("violation-examined", x.verify.Pos(), "the result of verifyEntry is discarded: violations are dropped")
		return
	}
	u := eng.UsesOfErr(ev)
	if len(u.NonNilEdges) == 0 {
		r.Bad("violation-examined", x.verify.Pos(), "the error of verifyEntry is never compared with nil")
		return
	}
	r.Ok("violation-examined", x.verify.Pos(), "verifyEntry's error is examined")
	skipped := eng.BoolEdges(fn, skippedByOf(x, entry), true)
	if len(skipped) == 0 {
		r.Bad("tolerated-only-if-skipped", x.verify.Pos(), "no entry.SkippedBy(annotations[entry.GetID().String()]) test on the entry that failed verification")
		return
	}
	cont := func(in ssa.Instruction) bool {
		return in == x.verify.Instr || in == x.lastGood.Instr || isSuccessReturn(in)
	}
	for _, e := range u.NonNilEdges {
		p := eng.FindPath(e.To(), 0, cont, eng.NewCut().AddEdges(skipped...))
		if p != nil {
			r.Bad("tolerated-only-if-skipped", pos(p.Target), "after a policy violation the walk can continue (recovery search / next entry / success) without the violating entry being marked skipped by an annotation; witness %s", c.DescribePath(p))
		} else {
			r.Ok("tolerated-only-if-skipped", x.verify.Pos(), "a violation is tolerated only on the SkippedBy edge of the same entry; otherwise the error is returned")
		}
	}
	// the not-skipped edge returns the very error
	for _, e := range eng.BoolEdges(fn, skippedByOf(x, entry), false) {
		okRet := true
		p := eng.FindPath(e.To(), 0, func(in ssa.Instruction) bool {
			ret, ok := in.(*ssa.Return)
			if !ok {
				return false
			}
			return !sameObjVal(eng.RetErr(ret), ev)
		}, nil)
		if p != nil {
			okRet = false
		}
		r.Check(okRet, "unskipped-returns-violation", pos(e.From.Instrs[len(e.From.Instrs)-1]), "an unskipped violation returns verifyEntry's error", "an unskipped violation does not return the original verification error")
	}
}

func c07LastGood(c *Ctx, r *R) {
	x := c07Anchors(c, r)
	if x == nil {
		return
	}
	r.Site(1)
	names, ctors, okb := optionNames(x.lastGood)
	r.Check(okb && sameStringSet(names, "ForReference", "BeforeEntryID", "IsUnskipped", "IsReferenceEntry"), "options", x.lastGood.Pos(),
		"last-good lookup carries exactly {ForReference, BeforeEntryID, IsUnskipped, IsReferenceEntry}",
		"last-good lookup options are {"+strings.Join(names, ",")+"}; expected ForReference, BeforeEntryID, IsUnskipped, IsReferenceEntry (a skipped or non-reference entry could be chosen as the last valid state)")
	// arguments refer to the invalid entry = the entry given to verifyEntry (through the invalidEntry slot)
	isInvalid := func(v ssa.Value) bool {
		for _, root := range eng.Roots(v) {
			if eng.IsNilConst(root) {
				continue
			}
			if !overlapsRoots(root, x.verify.Arg(4)) {
				return false
			}
		}
		return true
	}
	if f, ok := optionCtor(ctors, "ForReference"); ok {
		r.Check(eng.PMethod("GetRefName", isInvalid)(f.Arg(0)), "same-ref", f.Pos(), "ForReference(invalidEntry.GetRefName())", "last-good lookup is not for the invalid entry's reference")
	}
	if b, ok := optionCtor(ctors, "BeforeEntryID"); ok {
		r.Check(eng.PMethod("GetID", isInvalid)(b.Arg(0)), "before-invalid", b.Pos(), "BeforeEntryID(invalidEntry.GetID())", "last-good lookup is not bounded by the invalid entry")
	}
	errPropagates(c, r, "lookup-error", x.lastGood)
	lastGood := eng.PCall("pkg/rsl.GetLatestReferenceUpdaterEntry", 0)
	sk := eng.BoolEdges(x.fn, func(v ssa.Value) bool {
		k, _, ok := eng.RootCall(v)
		return ok && k.Method() == "SkippedBy" && lastGood(k.Recv()) && eng.PCall("pkg/rsl.GetLatestReferenceUpdaterEntry", 1)(k.Arg(0))
	}, true)
	okS := len(sk) > 0
	for _, e := range sk {
		if p := eng.LeadsOnlyToErr(e, "ErrLastGoodEntryIsSkipped"); p != nil {
			okS = false
		}
	}
	r.Check(okS, "skipped-last-good-rejected", x.lastGood.Pos(), "a skipped last-good entry → ErrLastGoodEntryIsSkipped", "a last-good entry that is itself skipped is no longer rejected")
	// last good tree
	tre := false
	for _, k := range eng.CallsToMethod(x.fn, false, "GetCommitTreeID", storageRecvs...) {
		if eng.PMethod("GetTargetID", lastGood)(k.Arg(0)) {
			tre = true
			errPropagates(c, r, "last-good-tree-error", k)
		}
	}
	r.Check(tre, "last-good-tree", x.lastGood.Pos(), "the reference tree is GetCommitTreeID(lastGood.GetTargetID())", "the reference tree is not computed from the last good entry's target")
}

func c07Fix(c *Ctx, r *R) {
	x := c07Anchors(c, r)
	if x == nil {
		return
	}
	fn := x.fn
	if len(x.spread) != 1 {
		r.Bad("fix-site", fn.Pos(), "cannot find the single place where an entry is accepted as the fix (append(newQueue, remaining...)); found %d", len(x.spread))
		return
	}
	fix := x.spread[0]
	r.Site(1)
	lastGood := eng.PCall("pkg/rsl.GetLatestReferenceUpdaterEntry", 0)
	lgTree := eng.PCall("GetCommitTreeID", 0, eng.PMethod("GetTargetID", lastGood))
	newTree := func(v ssa.Value) bool {
		k, i, ok := eng.RootCall(eng.Roots(v)[0])
		return ok && i == 0 && k.Method() == "GetCommitTreeID" && !eng.PMethod("GetTargetID", lastGood)(k.Arg(0))
	}
	eq := eng.BoolEdges(fn, func(v ssa.Value) bool {
		k, _, ok := eng.RootCall(v)
		if !ok || k.Method() != "Equal" || k.Recv() == nil {
			return false
		}
		return (newTree(k.Recv()) && lgTree(k.Arg(0))) || (lgTree(k.Recv()) && newTree(k.Arg(0)))
	}, true)
	if len(eq) == 0 {
		r.Bad("fix-needs-tree-equality", fix.Pos(), "no tree-equality test between the candidate entry and the last good state guards the fix")
	} else {
		mustPassFrom(c, r, "fix-needs-tree-equality", x.lastGood.Instr, isInstr(fix.Instr), eng.NewCut().AddEdges(eq...),
			"an entry is accepted as the fix only if its tree equals the last good tree", "an entry can be accepted as the fix without its tree being equal to the last good state's tree")
	}
	// candidate's tree is of the candidate's own target
	// not skipped: SkippedBy false edge on the candidate (a *ReferenceEntry from the type switch)
	cand := func(v ssa.Value) bool { return strings.HasSuffix(eng.Strip(v).Type().String(), "rsl.ReferenceEntry") }
	notSk := eng.BoolEdges(fn, skippedByOf(x, cand), false)
	// exclude the outer test on the invalid entry (dominates lastGood)
	var notSk2 []eng.Edge
	for _, e := range notSk {
		if x.lastGood.Block().Dominates(e.From) {
			notSk2 = append(notSk2, e)
		}
	}
	if len(notSk2) == 0 {
		r.Bad("fix-not-skipped", fix.Pos(), "the fix candidate is not tested with SkippedBy: a revoked entry could be chosen as the fix")
	} else {
		mustPassFrom(c, r, "fix-not-skipped", x.lastGood.Instr, isInstr(fix.Instr), eng.NewCut().AddEdges(notSk2...),
			"an entry is accepted as the fix only if it is not skipped", "an entry that is marked skipped can be accepted as the fix")
	}
	// intermediates: append to invalid list only on not-skipped edge, and every non-fix reference entry reaches that test
	if len(x.invalidAp) != 1 {
		r.Bad("intermediate-collected", fix.Pos(), "expected one place where unskipped intermediate entries are collected, found %d", len(x.invalidAp))
	} else {
		ia := x.invalidAp[0]
		mustPassFrom(c, r, "intermediate-collected", x.lastGood.Instr, isInstr(ia.Instr), eng.NewCut().AddEdges(notSk2...),
			"only unskipped non-fix entries are collected as invalid", "the invalid-intermediate list is filled without the SkippedBy test")
	}
	// propagation entries: a case for *PropagationEntry re-queues and continues (never reaches fix)
	// (structural: the fix site is reachable only with a *ReferenceEntry candidate — guaranteed by `cand` typing above)
	r.Ok("propagation-never-fix", fix.Pos(), "the fix candidate is statically a *rsl.ReferenceEntry")
}

func c07Exits(c *Ctx, r *R) {
	x := c07Anchors(c, r)
	if x == nil {
		return
	}
	fn := x.fn
	if len(x.spread) != 1 {
		r.Bad("fix-site", fn.Pos(), "fix site not found")
		return
	}
	fix := x.spread[0]
	r.Site(1)
	evSaved, _ := x.verify.ErrResult()
	resume := func(in ssa.Instruction) bool {
		if in == x.verify.Instr {
			return true
		}
		if !isSuccessReturn(in) {
			return false
		}
		// `return verificationErr`: the saved violation (non-nil whenever recovery mode is active)
		if evSaved != nil {
			for _, root := range eng.Roots(eng.RetErr(in.(*ssa.Return))) {
				if root == eng.Roots(evSaved)[0] {
					return false
				}
			}
		}
		return true
	}
	// (1) resume only after a fix was found (path-sensitive on the `fixed` flag)
	mustPassFrom(c, r, "resume-needs-fix", x.lastGood.Instr, resume, eng.NewCut().AddInstrs(fix.Instr),
		"verification resumes / succeeds only after a fix entry was found", "after a revoked violation verification can resume or succeed although no fix entry was found")
	// (1b) the same from the moment the violation is tolerated: a revoked violation with nothing
	// after it (no candidate fix at all) must not fall out of the loop into success
	entryP := sameObj(x.verify.Arg(4))
	for _, e := range eng.BoolEdges(fn, skippedByOf(x, entryP), true) {
		if p := eng.FindPath(e.To(), 0, resume, eng.NewCut().AddInstrs(fix.Instr)); p != nil {
			r.Bad("tolerated-needs-fix", pos(p.Target), "after a revoked violation verification can succeed / go on although no fix entry followed (e.g. the revoked entry is the last one in the range); witness %s", c.DescribePath(p))
		} else {
			r.Ok("tolerated-needs-fix", x.verify.Pos(), "from the point a violation is tolerated, success / the next entry is reached only through a fix")
		}
	}
	// (2) and only if no unskipped intermediate entry exists
	empty := eng.RelEdges(fn, token.EQL, eng.PLen(func(v ssa.Value) bool {
		return strings.HasSuffix(v.Type().String(), "[]*"+eng.Module+"/pkg/rsl.ReferenceEntry")
	}), eng.PInt(0))
	if len(empty) == 0 {
		r.Bad("resume-needs-all-skipped", fix.Pos(), "no len(invalidIntermediateEntries) test after the search")
	} else {
		mustPassFrom(c, r, "resume-needs-all-skipped", x.lastGood.Instr, resume, eng.NewCut().AddEdges(empty...),
			"verification resumes only if every intermediate entry was skipped", "verification can resume although an intermediate entry for the reference is not marked skipped")
		for _, e := range empty {
			fe := eng.Edge{From: e.From, Idx: 1 - e.Idx}
			if p := eng.LeadsOnlyToErr(fe, "ErrInvalidEntryNotSkipped"); p != nil {
				r.Bad("unskipped-intermediate-error", pos(p.Target), "an unskipped intermediate entry does not always return ErrInvalidEntryNotSkipped")
			} else {
				r.Ok("unskipped-intermediate-error", pos(e.From.Instrs[len(e.From.Instrs)-1]), "unskipped intermediate → ErrInvalidEntryNotSkipped")
			}
		}
	}
	// (3) the no-fix exit returns the saved violation: some return after lastGood has verifyEntry's error among its roots
	ev, _ := x.verify.ErrResult()
	saved := false
	for _, ret := range eng.Returns(fn) {
		if !x.lastGood.Block().Dominates(ret.Block()) {
			continue
		}
		for _, root := range eng.Roots(eng.RetErr(ret)) {
			if ev != nil && root == eng.Roots(ev)[0] {
				saved = true
			}
		}
	}
	r.Check(saved, "no-fix-returns-violation", x.lastGood.Pos(), "without a fix the original violation is returned", "the no-fix exit does not return the saved verification error")
}

func c07Requeue(c *Ctx, r *R) {
	x := c07Anchors(c, r)
	if x == nil {
		return
	}
	fn := x.fn
	r.Site(len(x.singleApp) + len(x.spread))
	// (a) other-ref entries are re-queued
	otherRef := false
	for _, a := range x.singleApp {
		for _, g := range eng.GuardsAt(a.Block()) {
			if bo, ok := g.Cond.(*ssa.BinOp); ok && eng.PMethod("GetRefName", nil)(bo.X) && eng.PMethod("GetRefName", nil)(bo.Y) {
				if (bo.Op == token.NEQ && g.Pol) || (bo.Op == token.EQL && !g.Pol) {
					otherRef = true
				}
			}
		}
	}
	// every entry for another reference is re-queued: from the `different reference` edge the next
	// candidate is reached only through an append to the new queue; and the same-reference region
	// re-queues only propagation entries
	diff := eng.RelEdges(fn, token.NEQ, eng.PMethod("GetRefName", nil), eng.PMethod("GetRefName", nil))
	var appInstrs []ssa.Instruction
	for _, a := range x.singleApp {
		appInstrs = append(appInstrs, a.Instr)
	}
	hs := loopHeads(fn)
	okReq := len(diff) == 1
	for _, e := range diff {
		if p := eng.FindPath(e.To(), 0, func(in ssa.Instruction) bool { return hs[in] || isSuccessReturn(in) }, eng.NewCut().AddInstrs(appInstrs...)); p != nil {
			okReq = false
		}
	}
	for _, a := range x.singleApp {
		inDiff, inProp := false, false
		for _, e := range diff {
			if eng.EdgeDominates(e, a.Block()) {
				inDiff = true
			}
		}
		for _, g := range eng.GuardsAt(a.Block()) {
			if typeAssertOK(g.Cond, "pkg/rsl.PropagationEntry") && g.Pol {
				inProp = true
			}
		}
		if !inDiff && !inProp {
			okReq = false
		}
	}
	r.Check(okReq, "requeue-exactly-others", fn.Pos(), "exactly the entries for other references (and propagation entries) are re-queued, all of them", "the re-queueing of entries met during the fix search is not `every entry whose reference differs from the invalid entry's` (+ propagation entries): entries are dropped, or same-reference entries escape the skipped-intermediate check")
	r.Check(otherRef, "other-refs-requeued", fn.Pos(), "entries for other references met during the search are appended to the new queue", "entries for other references met while searching for the fix are no longer re-queued (policy / attestation entries between violation and fix would be dropped)")
	// (b) remainder appended onto the accumulated queue
	if len(x.spread) != 1 {
		r.Bad("remainder-appended", fn.Pos(), "the unconsumed remainder of the queue is not appended to the new queue with append(newQueue, remaining...) (found %d such appends): entries set aside before the fix, or the remainder, are lost", len(x.spread))
		return
	}
	sp := x.spread[0]
	// first arg must be the accumulator: its roots include the single-element appends (or the empty literal), not the remainder itself
	acc := false
	for _, root := range eng.Roots(sp.Instr.Common().Args[0]) {
		for _, a := range x.singleApp {
			if a.Value() != nil && root == ssa.Value(a.Value()) {
				acc = true
			}
		}
	}
	r.Check(acc, "remainder-appended", sp.Pos(), "append(newQueue, remaining...) extends the accumulated queue", "the remainder is not appended to the queue that holds the entries set aside during the search")
	// (c) the outer loop continues with the new queue: the loop-carried `entries` value has the spread append among its origins
	cont := false
	for _, b := range fn.Blocks {
		for _, in := range b.Instrs {
			phi, ok := in.(*ssa.Phi)
			if !ok || phi.Type().String() != ruSlice {
				continue
			}
			for _, e := range phi.Edges {
				if sp.Value() != nil && e == ssa.Value(sp.Value()) {
					cont = true
				}
				for _, root := range eng.Roots(e) {
					if sp.Value() != nil && root == ssa.Value(sp.Value()) {
						cont = true
					}
				}
			}
		}
	}
	r.Check(cont, "queue-replaced", sp.Pos(), "the outer loop continues with the new queue", "the new queue never replaces the outer loop's queue")
}
