package rules

import (
	"go/token"
	"strings"

	"golang.org/x/tools/go/ssa"

	"verif/checker/eng"
)

func init() {
	Meta["C09"] = PropMeta{
		Explanation: "Static necessary conditions of 'approvals count only for the exact change named, once per principal': every attestation getter used by verification re-validates what it read from the attestations tree against the (reference, from, to) it was asked for before returning it (sibling agreement between the authorization getter and the code-review approval getter); each validator compares all three predicate fields and the subject digest with its parameters; the lookup key is derived from the entry (previous entry's target or zero exactly when there is none; tree of the target, or the tag's target) and flows unchanged into both getters; code-review approvers are added only for trusted apps, after the app's signature verified with the app's own principals/threshold, and are taken from the approvers (not dismissed) list; approver→principal mapping counts a principal once (C05.consumer); the attestation state used for an entry is the one loaded at/before it. Counting over all (statement, path, signer) combinations is NOT decided.",
		Decides:     []string{"validate-on-read in both getters", "validators compare ref/from/to/subject", "key derivation and flow", "app trust + signature gate before approvers are used", "dismissed approvers not counted", "attestation state provenance"},
		NotDecided:  []string{"the count for concrete attestation trees and signer sets", "signature validity"},
	}
	reg(&eng.Rule{ID: "C09.validate-on-read", Prop: "C09", Floor: 2,
		Doc: "GetReferenceAuthorizationFor and GetGitHubPullRequestApprovalAttestationFor return an envelope only after a validator (authorizations v01/v02 Validate, github v01 ValidatePullRequestApproval) accepted it for the method's own (ref, from, to) parameters.",
		Run: c09ValidateOnRead})
	reg(&eng.Rule{ID: "C09.validators-complete", Prop: "C09", Floor: 8,
		Doc: "Each validator compares its targetRef, from and to parameters (and the subject digest) with the statement and returns ErrInvalidAuthorization on inequality.",
		Run: c09Validators})
	reg(&eng.Rule{ID: "C09.key-derivation", Prop: "C09", Floor: 6,
		Doc: "In getApproverAttestationAndKeyIDs: from = target of GetLatestReferenceUpdaterEntry(ForReference(entry.RefName), BeforeEntryID(entry.ID)) or ZeroHash() exactly when that lookup returned ErrRSLEntryNotFound; to = GetTagTarget(entry.TargetID) for tags else GetCommitTreeID(entry.TargetID); (entry.RefName, from, to) flow unchanged into getApproverAttestationAndKeyIDsForIndex and from there into both getters.",
		Run: c09KeyDerivation})
	reg(&eng.Rule{ID: "C09.app-gate", Prop: "C09", Floor: 6,
		Doc: "Approver identities are added only after appEntry.IsTrusted() and approvalVerifier.Verify(ctx, nil, envelope) succeeded with principals from appEntry.GetPrincipalIDs() and threshold appEntry.GetThreshold(); identities come from GetApprovers() of the same envelope's payload.",
		Run: c09AppGate})
	reg(&eng.Rule{ID: "C09.once", Prop: "C09", Floor: 5,
		Doc: "= C05.consumer: an approver is mapped to a principal only if not already counted; the count is trusted ∩ used.",
		Run: func(c *Ctx, r *R) { c05Consumer(c, r) }})
	reg(&eng.Rule{ID: "C09.state-before-entry", Prop: "C09", Floor: 3,
		Doc: "The attestations state handed to verifyEntry is nil, LoadAttestationsForEntry(FindAttestationsEntryFor(firstEntry)) or the state loaded at an in-range attestations entry; verifyMergeable uses FindLatestAttestationsEntry.",
		Run: c09StateBeforeEntry})
}

var validatorNames = []string{
	"internal/attestations/authorizations/v01.Validate",
	"internal/attestations/authorizations/v02.Validate",
	"internal/attestations/github/v01.ValidatePullRequestApproval",
}

func c09ValidateOnRead(c *Ctx, r *R) {
	type getter struct {
		spec     string
		firstKey int // index in fn.Params of the ref parameter
	}
	for _, g := range []getter{
		{"(*internal/attestations.Attestations).GetReferenceAuthorizationFor", 2},
		{"(*internal/attestations.Attestations).GetGitHubPullRequestApprovalAttestationFor", 3},
	} {
		fn := r.Fn(g.spec)
		if fn == nil {
			continue
		}
		short := g.spec[strings.LastIndex(g.spec, ".")+1:]
		r.Site(1)
		if len(fn.Params) < g.firstKey+3 {
			r.Undecided("anchor:"+short, fn.Pos(), "signature changed")
			continue
		}
		pRef, pFrom, pTo := fn.Params[g.firstKey], fn.Params[g.firstKey+1], fn.Params[g.firstKey+2]
		cut := eng.NewCut()
		nval := 0
		for _, v := range eng.CallsTo(fn, false, validatorNames...) {
			if sameObjVal(v.Arg(1), pRef) && sameObjVal(v.Arg(2), pFrom) && sameObjVal(v.Arg(3), pTo) {
				if v.OKPoints(cut) {
					nval++
				}
			} else {
				r.Bad("validator-args:"+short, v.Pos(), "%s validates against values other than its own (ref, from, to) parameters", short)
			}
		}
		bad := false
		for _, ret := range eng.Returns(fn) {
			if eng.ClassifyErr(eng.RetErr(ret), ret.Block()) == eng.ErrNonNil {
				continue
			}
			if eng.IsNilConst(eng.RetVal(ret, 0)) {
				continue
			}
			if p := eng.FindPathFromEntry(fn, isInstr(ret), cut); p != nil {
				bad = true
				r.Bad("validated:"+short, pos(ret), "%s can return an envelope read from the attestations tree without checking that its signed statement names the requested (reference, from, to): an approval for another change stored at this path would be counted (its sibling GetReferenceAuthorizationFor validates on read); witness %s", short, c.DescribePath(p))
			}
		}
		if !bad {
			r.Ok("validated:"+short, fn.Pos(), "every returned envelope passed a validator for the requested (ref, from, to) (%d validator call(s))", nval)
		}
	}
}

func c09Validators(c *Ctx, r *R) {
	for _, spec := range []string{"internal/attestations/authorizations/v01.Validate", "internal/attestations/authorizations/v02.Validate"} {
		fn := r.Fn(spec)
		if fn == nil {
			continue
		}
		ver := "v01"
		if strings.Contains(spec, "v02") {
			ver = "v02"
		}
		for i := 1; i <= 3; i++ {
			prm := fn.Params[i]
			r.Site(1)
			ne := eng.RelEdges(fn, token.NEQ, eng.PAny(), exactly(prm))
			if len(ne) == 0 {
				r.Bad("compares:"+ver+":"+prm.Name(), fn.Pos(), "validator %s never compares the statement with its %s parameter: approvals for a different %s would validate", ver, prm.Name(), prm.Name())
				continue
			}
			ok := true
			for _, e := range ne {
				if p := eng.LeadsOnlyToErr(e, "ErrInvalidAuthorization"); p != nil {
					ok = false
					r.Bad("compares:"+ver+":"+prm.Name(), pos(p.Target), "a mismatch on %s does not always return ErrInvalidAuthorization; witness %s", prm.Name(), c.DescribePath(p))
				}
			}
			if ok {
				r.Ok("compares:"+ver+":"+prm.Name(), fn.Pos(), "%s compared at %d site(s); mismatch → ErrInvalidAuthorization", prm.Name(), len(ne))
			}
		}
		// subject digest compared with the target
		to := fn.Params[3]
		subj := 0
		for _, e := range eng.RelEdges(fn, token.NEQ, eng.PAny(), exactly(to)) {
			iff := e.From.Instrs[len(e.From.Instrs)-1].(*ssa.If)
			if bo, ok := iff.Cond.(*ssa.BinOp); ok {
				for _, side := range []ssa.Value{bo.X, bo.Y} {
					for _, root := range eng.Roots(side) {
						if lk, ok := root.(*ssa.Lookup); ok {
							if n, _, isF := eng.FieldLoad(lk.X); isF && n == "Digest" {
								subj++
							}
						}
						if ex, ok := root.(*ssa.Extract); ok {
							if lk, ok := ex.Tuple.(*ssa.Lookup); ok {
								if n, _, isF := eng.FieldLoad(lk.X); isF && n == "Digest" {
									subj++
								}
							}
						}
					}
				}
			}
		}
		r.Check(subj >= 1, "subject-digest:"+ver, fn.Pos(), "subject digest compared with the target id", "validator "+ver+" no longer compares the statement's subject digest with the target id")
		// empty subject / nil predicate rejected
		nret := 0
		for _, ret := range eng.Returns(fn) {
			if eng.Sentinels(eng.RetErr(ret))["ErrInvalidAuthorization"] {
				nret++
			}
		}
		r.Check(nret >= 6, "reject-count:"+ver, fn.Pos(), "≥6 ErrInvalidAuthorization exits (empty subject, digest, nil predicate, three fields)", "fewer ErrInvalidAuthorization exits than on the reference tree")
	}
	if fn := r.Fn("internal/attestations/github/v01.ValidatePullRequestApproval"); fn != nil {
		ks := eng.CallsTo(fn, false, "internal/attestations/authorizations/v01.Validate")
		if k, ok := oneCall(r, "github-delegates", fn, ks, "v01.Validate"); ok {
			okA := true
			for i := 0; i < 4; i++ {
				if !sameObjVal(k.Arg(i), fn.Params[i]) {
					okA = false
				}
			}
			r.Check(okA, "github-delegates-args", k.Pos(), "ValidatePullRequestApproval passes (env, ref, from, to) unchanged", "ValidatePullRequestApproval does not pass its parameters through unchanged")
			errPropagates(c, r, "github-delegates-error", k)
		}
	}
}

func c09KeyDerivation(c *Ctx, r *R) {
	fn := r.Fn("internal/policy.getApproverAttestationAndKeyIDs")
	if fn == nil {
		return
	}
	entry := eng.PParam("entry")
	fieldOfEntry := func(name string) Pat {
		return func(v ssa.Value) bool {
			n, b, ok := eng.FieldLoad(v)
			return ok && n == name && entry(b)
		}
	}
	ks := eng.CallsTo(fn, false, "pkg/rsl.GetLatestReferenceUpdaterEntry")
	lk, ok := oneCall(r, "prior-lookup", fn, ks, "GetLatestReferenceUpdaterEntry")
	if !ok {
		return
	}
	r.Site(1)
	names, ctors, okb := optionNames(lk)
	r.Check(okb && sameStringSet(names, "ForReference", "BeforeEntryID"), "prior-options", lk.Pos(), "prior entry lookup carries exactly {ForReference, BeforeEntryID}", "prior entry lookup options are "+strings.Join(names, ",")+"; expected ForReference(entry.RefName), BeforeEntryID(entry.ID)")
	if f, ok := optionCtor(ctors, "ForReference"); ok {
		r.Check(fieldOfEntry("RefName")(f.Arg(0)), "prior-ref", f.Pos(), "ForReference(entry.RefName)", "the prior entry is not looked up for entry.RefName")
	}
	if b, ok := optionCtor(ctors, "BeforeEntryID"); ok {
		r.Check(fieldOfEntry("ID")(b.Arg(0)), "prior-before", b.Pos(), "BeforeEntryID(entry.ID)", "the prior entry is not looked up before entry.ID")
	}
	errPropagates(c, r, "prior-error", lk, "ErrRSLEntryNotFound")
	idx := eng.CallsTo(fn, false, "internal/policy.getApproverAttestationAndKeyIDsForIndex")
	ik, ok := oneCall(r, "index-call", fn, idx, "getApproverAttestationAndKeyIDsForIndex")
	if !ok {
		return
	}
	// from: roots ⊆ {ZeroHash(), prior.GetTargetID()}
	okFrom, sawPrior, sawZero := true, false, false
	for _, root := range eng.Roots(ik.Arg(5)) {
		k, _, isCall := eng.RootCall(root)
		switch {
		case isCall && k.Method() == "ZeroHash":
			sawZero = true
		case isCall && k.Method() == "GetTargetID" && eng.PCall("pkg/rsl.GetLatestReferenceUpdaterEntry", 0)(k.Recv()):
			sawPrior = true
		default:
			okFrom = false
		}
	}
	r.Check(okFrom && sawPrior && sawZero, "from-is-prior-target", ik.Pos(), "from = prior entry's target, or the zero hash", "the `from` id used to look up approvals is not (previous entry's target | zero hash)")
	// zero only when not found: the phi edge carrying prior target is taken only when the lookup succeeded — checked by flags:
	okTo, sawTag, sawTree := true, false, false
	for _, root := range eng.Roots(ik.Arg(6)) {
		k, _, isCall := eng.RootCall(root)
		switch {
		case isCall && k.Method() == "GetTagTarget" && fieldOfEntry("TargetID")(k.Arg(0)):
			sawTag = true
		case isCall && k.Method() == "GetCommitTreeID" && fieldOfEntry("TargetID")(k.Arg(0)):
			sawTree = true
		default:
			okTo = false
		}
	}
	r.Check(okTo && sawTag && sawTree, "to-is-tree-or-tag-target", ik.Pos(), "to = GetCommitTreeID(entry.TargetID) (branches) or GetTagTarget(entry.TargetID) (tags)", "the `to` id used to look up approvals is not the tree of entry.TargetID / the tag's target")
	r.Check(fieldOfEntry("RefName")(ik.Arg(4)), "ref-is-entry-ref", ik.Pos(), "ref = entry.RefName", "approvals are not looked up for entry.RefName")
	r.Check(eng.PParam("policy")(ik.Arg(2)) && eng.PParam("attestationsState")(ik.Arg(3)), "states-passed-through", ik.Pos(), "policy and attestation state passed through", "policy / attestation state are not passed through unchanged")
	// tag selection by TagRefPrefix on entry.RefName
	tagSel := eng.BoolEdges(fn, eng.PCall("strings.HasPrefix", 0, fieldOfEntry("RefName"), eng.PStr("refs/tags/")), true)
	r.Check(len(tagSel) > 0, "tag-selector", fn.Pos(), "tag handling selected by HasPrefix(entry.RefName, refs/tags/)", "tag/branch selection is not HasPrefix(entry.RefName, TagRefPrefix)")
	// in ForIndex: both getters receive (targetRef, fromID.String(), toID.String())
	fi := r.Fn("internal/policy.getApproverAttestationAndKeyIDsForIndex")
	if fi == nil {
		return
	}
	strOf := func(p string) Pat { return eng.PMethod("String", eng.PParam(p)) }
	for _, g := range []struct {
		name string
		off  int
	}{{"GetReferenceAuthorizationFor", 1}, {"GetGitHubPullRequestApprovalAttestationFor", 2}} {
		var gk []Call
		for _, k := range eng.Calls(fi, false) {
			if k.Method() == g.name {
				gk = append(gk, k)
			}
		}
		k, ok := oneCall(r, "getter:"+g.name, fi, gk, g.name)
		if !ok {
			continue
		}
		r.Site(1)
		okA := eng.PParam("targetRef")(k.Arg(g.off)) && strOf("fromID")(k.Arg(g.off+1)) && strOf("toID")(k.Arg(g.off+2))
		r.Check(okA, "getter-key:"+g.name, k.Pos(), g.name+"(targetRef, fromID, toID)", g.name+" is not asked for exactly (targetRef, fromID.String(), toID.String())")
		allowed := "ErrAuthorizationNotFound"
		if g.off == 2 {
			allowed = "ErrPullRequestApprovalAttestationNotFound"
		}
		errPropagates(c, r, "getter-error:"+g.name, k, allowed)
	}
}

func c09AppGate(c *Ctx, r *R) {
	fn := r.Fn("internal/policy.getApproverAttestationAndKeyIDsForIndex")
	if fn == nil {
		return
	}
	var adds []Call
	for _, a := range setCalls(fn, "Add") {
		adds = append(adds, a)
	}
	ak, ok := oneCall(r, "approver-add", fn, adds, "approverIdentities.Add")
	if !ok {
		return
	}
	r.Site(1)
	trusted := eng.BoolEdges(fn, eng.PMethod("IsTrusted", nil), true)
	if len(trusted) == 0 {
		r.Bad("app-trusted", ak.Pos(), "no appEntry.IsTrusted() test: approvals attested by untrusted apps would be counted")
	} else {
		mustPass(c, r, "app-trusted", fn, isInstr(ak.Instr), eng.NewCut().AddEdges(trusted...), "approvers are used only for trusted apps", "approver identities can be added for an app that is not trusted")
	}
	vs := eng.CallsTo(fn, false, sigVerify)
	vk, ok := oneCall(r, "app-verify", fn, vs, "SignatureVerifier.Verify")
	if !ok {
		return
	}
	cut := eng.NewCut()
	if !vk.OKPoints(cut) {
		r.Bad("app-signature", vk.Pos(), "the result of verifying the app's signature is dropped")
	} else {
		mustPass(c, r, "app-signature", fn, isInstr(ak.Instr), cut, "approvers are used only after the app's signature on the approval verified", "approver identities can be added without the approval attestation's signature having been verified")
	}
	env := eng.PMethod("GetGitHubPullRequestApprovalAttestationFor", nil)
	r.Check(env(vk.Arg(2)) && eng.IsNilConst(vk.Arg(1)), "app-verify-envelope", vk.Pos(), "Verify(ctx, nil, approval envelope)", "the app verifier is not applied to the fetched approval envelope")
	// verifier shape
	okShape := false
	for _, root := range eng.Roots(vk.Recv()) {
		if al, ok := root.(*ssa.Alloc); ok {
			st := allocStores(al)
			thr := st["threshold"]
			if thr != nil && eng.PMethod("GetThreshold", nil)(thr) {
				// principals built from appEntry.GetPrincipalIDs()
				for _, k := range eng.Calls(fn, false) {
					if k.Method() == "GetPrincipalIDs" {
						if tk, _, ok := eng.RootCall(eng.Roots(thr)[0]); ok && sameObjVal(tk.Recv(), k.Recv()) {
							okShape = true
						}
					}
				}
			}
			if _, ex := st["verifyExhaustively"]; ex {
				okShape = false
			}
		}
	}
	r.Check(okShape, "app-verifier-shape", vk.Pos(), "app verifier = {principals of appEntry.GetPrincipalIDs(), threshold appEntry.GetThreshold()}", "the app verifier is not built from the app entry's own principals and threshold")
	// identities from GetApprovers of the payload of the same envelope
	src := false
	for _, root := range eng.Roots(ak.Arg(0)) {
		if u, ok := root.(*ssa.UnOp); ok {
			if ia, ok := u.X.(*ssa.IndexAddr); ok && eng.PMethod("GetApprovers", nil)(ia.X) {
				src = true
			}
		}
	}
	r.Check(src, "approvers-not-dismissed", ak.Pos(), "identities come from GetApprovers()", "approver identities do not come from the statement's GetApprovers() (dismissed approvers would be counted)")
	// payload decoded from the same envelope that was verified
	dec := false
	for _, k := range eng.Calls(fn, false) {
		if k.Method() == "DecodeB64Payload" && sameObjVal(k.Recv(), vk.Arg(2)) {
			dec = true
			errPropagates(c, r, "payload-error", k)
		}
	}
	r.Check(dec, "payload-of-verified-envelope", vk.Pos(), "the statement parsed is the payload of the verified envelope", "the statement whose approvers are used is not the payload of the envelope whose signature was verified")
	// the issuer names under which approver identities are matched to principals (appNames in
	// verifyGitObjectAndAttestations) are those of trusted apps only
	if vg := r.Fn(fnVGOA); vg != nil {
		tr := eng.BoolEdges(vg, eng.PMethod("IsTrusted", nil), true)
		n := 0
		okN := true
		for _, k := range eng.Calls(vg, false) {
			if k.Name() != "builtin.append" || k.Instr.Common().Args[0].Type().String() != "[]string" {
				continue
			}
			n++
			dom := false
			for _, e := range tr {
				if eng.EdgeDominates(e, k.Block()) {
					dom = true
				}
			}
			if !dom {
				okN = false
			}
		}
		r.Check(okN && n >= 1 && len(tr) >= 1, "issuers-trusted-only", vg.Pos(), "approver identities are matched only under the names of trusted apps", "the list of app names used to match approver identities to principals is not restricted to apps with IsTrusted() (an identity registered for an untrusted issuer would be credited)")
	}
	// tags excluded
	r.Check(len(eng.BoolEdges(fn, eng.PParam("isTag"), false)) > 0, "not-for-tags", fn.Pos(), "code-review approvals are not consulted for tags", "the isTag exclusion disappeared")
}

func c09StateBeforeEntry(c *Ctx, r *R) {
	fn := r.Fn(fnVRFR)
	if fn == nil {
		return
	}
	for _, k := range eng.CallsTo(fn, false, "internal/policy.verifyEntry") {
		r.Site(1)
		okAll := true
		sawInit := false
		for _, root := range eng.Roots(k.Arg(3)) {
			if eng.IsNilConst(root) {
				continue
			}
			src, _, isCall := eng.RootCall(root)
			if !isCall || src.Name() != "internal/attestations.LoadAttestationsForEntry" {
				okAll = false
				continue
			}
			// its entry arg: FindAttestationsEntryFor(firstEntry) or the loop's entry (a ReferenceEntry from the queue)
			a := src.Arg(1)
			if eng.PMethod("FindAttestationsEntryFor", nil, eng.PParam("firstEntry"))(a) {
				sawInit = true
				continue
			}
			if !strings.HasSuffix(eng.Strip(a).Type().String(), "rsl.ReferenceEntry") {
				okAll = false
			}
		}
		r.Check(okAll && sawInit, "attestations-provenance", k.Pos(), "attestation state = state at firstEntry or at an in-range attestations entry", "the attestation state handed to verifyEntry has an origin other than (state for firstEntry | in-range attestations entry)")
		// the in-range state is installed only for entries whose ref is attestations.Ref
		for _, root := range eng.Roots(k.Arg(3)) {
			src, _, isCall := eng.RootCall(root)
			if !isCall || src.Name() != "internal/attestations.LoadAttestationsForEntry" || eng.PMethod("FindAttestationsEntryFor", nil)(src.Arg(1)) {
				continue
			}
			g := eng.RelEdges(fn, token.EQL, eng.PMethod("GetRefName", nil), eng.PStr(refAttest))
			mustPass(c, r, "in-range-only-attestation-entries", fn, isInstr(src.Instr), eng.NewCut().AddEdges(g...), "an in-range attestation state is loaded only from entries for refs/gittuf/attestations", "attestation state can be loaded from an entry that is not for refs/gittuf/attestations")
			errPropagates(c, r, "in-range-load-error", src)
		}
	}
	if vm := r.Fn(fnVM); vm != nil {
		ok := false
		for _, k := range eng.CallsTo(vm, false, "internal/attestations.LoadAttestationsForEntry") {
			if eng.PMethod("FindLatestAttestationsEntry", nil)(k.Arg(1)) {
				ok = true
			}
			errPropagates(c, r, "mergeable-load-error", k)
		}
		r.Check(ok, "mergeable-uses-latest", vm.Pos(), "verifyMergeable uses the latest attestation state", "verifyMergeable does not load the attestations of FindLatestAttestationsEntry")
	}
}

func init() {
	reg(&eng.Rule{ID: "C09.dismissal", Prop: "C09", Floor: 4,
		Doc: "Dismissing a code-review approval always takes effect: every success return of Repository.DismissGitHubPullRequestApprover lies behind the storing of a re-signed approval attestation whose approver list is the previous list filtered by `approver != dismissedApprover` (every other approver kept) and whose dismissed list contains the dismissed approver, and the attestations commit's result is what is returned. (A dismissed approver left in the approver list keeps counting towards thresholds.)",
		Run: c09Dismissal})
}

func c09Dismissal(c *Ctx, r *R) {
	fn := r.Fn("(*experimental/gittuf.Repository).DismissGitHubPullRequestApprover")
	if fn == nil {
		return
	}
	r.Site(1)
	sets := eng.CallsToMethod(fn, false, "SetGitHubPullRequestApprovalAttestation", "Attestations")
	sk, ok := oneCall(r, "anchor-set", fn, sets, "SetGitHubPullRequestApprovalAttestation")
	if !ok {
		return
	}
	cut := eng.NewCut()
	if !sk.OKPoints(cut) {
		r.Bad("stored-before-success", sk.Pos(), "the result of storing the updated approval attestation is dropped")
	} else {
		mustPass(c, r, "stored-before-success", fn, isSuccessReturn, cut, "success is reported only after the updated attestation was stored", "DismissGitHubPullRequestApprover can report success without storing an updated attestation (the dismissed approver would keep counting)")
	}
	// the envelope stored is the freshly signed statement built by NewGitHubPullRequestApprovalAttestation
	news := eng.CallsTo(fn, false, "internal/attestations.NewGitHubPullRequestApprovalAttestation")
	nk, ok := oneCall(r, "anchor-new", fn, news, "NewGitHubPullRequestApprovalAttestation")
	if !ok {
		return
	}
	fromNew := false
	eng.WalkOperands(sk.Arg(1), 8, func(v ssa.Value) {
		if k, idx, ok := eng.RootCall(v); ok && idx == 0 && k.Instr == nk.Instr {
			fromNew = true
		}
	})
	r.Check(fromNew, "stores-new-statement", sk.Pos(), "the stored envelope carries the newly built statement", "the stored envelope is not built from the updated statement")
	// approvers argument: appended only under approver != dismissedApprover, from a full scan of the previous approvers
	dis := eng.PParam("dismissedApprover")
	neq := eng.RelEdges(fn, token.NEQ, eng.PAny(), dis)
	okA, nApp := true, 0
	for _, root := range eng.Roots(nk.Arg(3)) {
		k, _, isCall := eng.RootCall(root)
		if !isCall || k.Name() != "builtin.append" {
			continue
		}
		nApp++
		dom := false
		for _, e := range neq {
			if eng.EdgeDominates(e, k.Block()) {
				dom = true
			}
		}
		okA = okA && dom
	}
	r.Check(okA && nApp >= 1 && len(neq) >= 1, "approvers-filtered", nk.Pos(), "an approver is kept only if it is not the dismissed one", "the new approver list is not filtered by `approver != dismissedApprover`")
	heads := eng.LoopsOver(fn, eng.PMethod("GetApprovers", nil))
	if len(heads) == 1 {
		scanExhaustive(c, r, "approvers-all-scanned", heads[0], nil, "previous approvers")
		// every other approver is kept: from the != edge the next element is reached only via the append
		var apps []ssa.Instruction
		for _, root := range eng.Roots(nk.Arg(3)) {
			if k, _, isCall := eng.RootCall(root); isCall && k.Name() == "builtin.append" {
				apps = append(apps, k.Instr)
			}
		}
		hd := heads[0].Instrs[len(heads[0].Instrs)-1]
		okK := true
		for _, e := range neq {
			if p := eng.FindPath(e.To(), 0, func(in ssa.Instruction) bool { return in == hd }, eng.NewCut().AddInstrs(apps...)); p != nil {
				okK = false
			}
		}
		r.Check(okK, "other-approvers-kept", nk.Pos(), "every other approver is kept", "an approver other than the dismissed one can be dropped")
	} else {
		r.Bad("approvers-all-scanned", nk.Pos(), "expected one loop over predicate.GetApprovers()")
	}
	// dismissed list contains the dismissed approver
	has := false
	eng.WalkOperands(nk.Arg(4), 6, func(v ssa.Value) {
		if dis(v) {
			has = true
		}
		for _, el := range eng.VariadicElems(v) {
			if dis(el) {
				has = true
			}
		}
	})
	r.Check(has, "dismissed-recorded", nk.Pos(), "the dismissed approver is recorded in the dismissed list", "the dismissed approver is not added to the dismissed list")
	// what is returned at the end is the attestations commit's result
	commits := eng.CallsToMethod(fn, false, "Commit", "Attestations")
	if ck, ok := oneCall(r, "anchor-commit", fn, commits, "Attestations.Commit"); ok {
		errPropagates(c, r, "commit-error", ck)
		mustPass(c, r, "committed-before-success", fn, isNilErrReturn, eng.NewCut().AddInstrs(ck.Instr), "success only after the attestations were committed", "success can be reported without committing the attestations")
	}
}
