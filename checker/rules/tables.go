package rules

import (
	"go/token"
	"sort"
	"strings"

	"golang.org/x/tools/go/ssa"

	"verif/checker/eng"
)

func init() {
	reg(&eng.Rule{ID: "C04.stepper-table", Prop: "C04", Floor: 2,
		Doc: "GetParentForEntry's two decisions equal their definition on every truth assignment: after the storage read — no parents → ErrRSLEntryNotFound, more than one → ErrRSLBranchDetected, otherwise the parent is loaded; after the parent parsed — entry number 0 or 1 requires parent number 0, any other number n requires parent number n-1, a mismatch → ErrInvalidRSLEntry, and only a match reaches cache.setParent and the success return.",
		Run: stepperTable})
	reg(&eng.Rule{ID: "C12.apply-table", Prop: "C12", Floor: 1,
		Doc: "Apply's reference/log consistency decision equals its definition on every truth assignment of {policy reference found, log entry found, entry target equals the reference tip}: both found and equal, or neither found → proceed; both found and different, or exactly one found → ErrInvalidPolicy.",
		Run: applyTable})
}

func stepperTable(c *Ctx, r *R) {
	fn := r.Fn("pkg/rsl.GetParentForEntry")
	if fn == nil {
		return
	}
	ids := eng.PCall("GetCommitParentIDs", 0)
	eNum := eng.PMethod("GetNumber", eng.PParam("entry"))
	pNum := eng.PMethod("GetNumber", eng.PCall("pkg/rsl.GetEntry", 0))
	atoms := func(v ssa.Value) (string, bool, bool) {
		if op, ok := eng.CmpAtom(v, ids, eng.PNil()); ok {
			switch op {
			case token.EQL:
				return "noParents", true, true
			case token.NEQ:
				return "noParents", false, true
			}
		}
		if op, ok := eng.CmpAtom(v, eng.PLen(ids), eng.PInt(1)); ok {
			switch op {
			case token.GTR:
				return "manyParents", true, true
			case token.LEQ:
				return "manyParents", false, true
			}
		}
		if op, ok := eng.CmpAtom(v, eng.PLen(ids), eng.PInt(2)); ok {
			switch op {
			case token.GEQ:
				return "manyParents", true, true
			case token.LSS:
				return "manyParents", false, true
			}
		}
		for n, name := range map[int64]string{0: "entry0", 1: "entry1"} {
			if op, ok := eng.CmpAtom(v, eNum, eng.PInt(n)); ok {
				switch op {
				case token.EQL:
					return name, true, true
				case token.NEQ:
					return name, false, true
				}
			}
		}
		if n, p, ok := cmpAtomNE(v, pNum, eng.PInt(0), "parentNot0"); ok {
			return n, p, ok
		}
		if n, p, ok := cmpAtomNE(v, pNum, eng.PBin(token.SUB, eNum, eng.PInt(1)), "parentNotPred"); ok {
			return n, p, ok
		}
		// the same comparison spelled `parent + 1 != entry`
		if n, p, ok := cmpAtomNE(v, eng.PBin(token.ADD, pNum, eng.PInt(1)), eNum, "parentNotPred"); ok {
			return n, p, ok
		}
		return "", false, false
	}
	r.Site(2)
	reads := eng.CallsToMethod(fn, false, "GetCommitParentIDs", "Storer", "Repository")
	ges := eng.CallsTo(fn, false, "pkg/rsl.GetEntry")
	if len(reads) != 1 || len(ges) != 2 {
		r.Undecided("anchors", fn.Pos(), "expected one GetCommitParentIDs and two GetEntry calls (cached path, validated path)")
		return
	}
	load := ges[0]
	if ges[1].Pos() > load.Pos() {
		load = ges[1]
	}
	if ev, _ := reads[0].ErrResult(); ev != nil {
		if u := eng.UsesOfErr(ev); len(u.NilEdges) == 1 {
			runTable(c, r, dtable{key: "parents", fn: fn, start: u.NilEdges[0].To(), what: "number of parents", names: []string{"noParents", "manyParents"}, atoms: atoms,
				consistent: func(a map[string]bool) bool { return !(a["noParents"] && a["manyParents"]) },
				outcome: func(in ssa.Instruction) string {
					if in == load.Instr {
						return "load"
					}
					return retLabel(in)
				},
				spec: func(a map[string]bool) string {
					switch {
					case a["noParents"]:
						return "err:ErrRSLEntryNotFound"
					case a["manyParents"]:
						return "err:ErrRSLBranchDetected"
					}
					return "load"
				}})
		}
	}
	if ev, _ := load.ErrResult(); ev != nil {
		if u := eng.UsesOfErr(ev); len(u.NilEdges) == 1 {
			runTable(c, r, dtable{key: "continuity", fn: fn, start: u.NilEdges[0].To(), what: "number continuity", names: []string{"entry0", "entry1", "parentNot0", "parentNotPred"}, atoms: atoms,
				consistent: func(a map[string]bool) bool { return !(a["entry0"] && a["entry1"]) },
				outcome: func(in ssa.Instruction) string {
					if ci, ok := in.(ssa.CallInstruction); ok {
						if k := (Call{Instr: ci, Callee: eng.CalleeOf(ci)}); k.Method() == "setParent" {
							return "memoise"
						}
					}
					return retLabel(in)
				},
				spec: func(a map[string]bool) string {
					if a["entry0"] || a["entry1"] {
						if a["parentNot0"] {
							return "err:ErrInvalidRSLEntry"
						}
						return "memoise"
					}
					if a["parentNotPred"] {
						return "err:ErrInvalidRSLEntry"
					}
					return "memoise"
				}})
		}
	}
}

func applyTable(c *Ctx, r *R) {
	fn := r.Fn("internal/policy.Apply")
	if fn == nil {
		return
	}
	r.Site(1)
	// the two flags: bool phis whose `false` assignment sits behind the handled not-found sentinel
	flagOf := func(v ssa.Value) string {
		phi, ok := v.(*ssa.Phi)
		if !ok || phi.Type().String() != "bool" {
			return ""
		}
		for i, e := range phi.Edges {
			if b, isC := eng.ConstBool(e); isC && !b {
				for _, g := range eng.GuardsAt(phi.Block().Preds[i]) {
					if k, _, ok := eng.RootCall(g.Cond); ok && k.Name() == "errors.Is" && g.Pol {
						if gl := eng.GlobalLoad(k.Arg(1)); gl != nil {
							switch gl.Name() {
							case "ErrReferenceNotFound":
								return "refFound"
							case "ErrRSLEntryNotFound":
								return "entryFound"
							}
						}
					}
				}
				// the assignment may sit in the guarded block itself
				pb := phi.Block().Preds[i]
				for _, g := range eng.GuardsAt(pb) {
					_ = g
				}
			}
		}
		return ""
	}
	atoms := func(v ssa.Value) (string, bool, bool) {
		if n := flagOf(v); n != "" {
			return n, true, true
		}
		if k, _, ok := eng.RootCall(v); ok && k.Method() == "Equal" && eng.PMethod("GetTargetID", nil)(k.Recv()) {
			return "tipEq", true, true
		}
		return "", false, false
	}
	var start *ssa.BasicBlock
	for _, b := range fn.Blocks {
		if len(b.Instrs) == 0 {
			continue
		}
		if iff, ok := b.Instrs[len(b.Instrs)-1].(*ssa.If); ok && flagOf(iff.Cond) == "refFound" {
			start = b
			break
		}
	}
	// the entry compared with the reference tip is the latest entry FOR THE POLICY REFERENCE
	for _, k := range eng.CallsTo(fn, false, "pkg/rsl.GetLatestReferenceUpdaterEntry") {
		names, ctors, okb := optionNames(k)
		okO := okb && sameStringSet(names, "ForReference")
		if f, has := optionCtor(ctors, "ForReference"); has {
			s, isC := eng.ConstString(f.Arg(0))
			okO = okO && isC && s == refPolicy
		}
		r.Check(okO, "entry-for-policy-ref", k.Pos(), "the log entry compared is GetLatestReferenceUpdaterEntry(ForReference(PolicyRef))", "the log entry that Apply compares with the policy reference is not the latest entry for refs/gittuf/policy (options: "+strings.Join(names, ",")+")")
	}
	var stagingRead ssa.Instruction
	for _, k := range eng.Calls(fn, false) {
		if k.Method() == "GetReference" {
			if s, isC := eng.ConstString(k.Arg(0)); isC && s == refStaging {
				stagingRead = k.Instr
			}
		}
	}
	if stagingRead == nil {
		r.Undecided("consistency", fn.Pos(), "GetReference(PolicyStagingRef) not found (anchor)")
		return
	}
	idx := 0
	if start != nil {
		idx = len(start.Instrs) - 1
	}
	runTable(c, r, dtable{key: "consistency", fn: fn, start: start, idx: idx, what: "policy reference vs. log entry", names: []string{"refFound", "entryFound", "tipEq"}, atoms: atoms,
		outcome: func(in ssa.Instruction) string {
			if in == stagingRead {
				return "proceed"
			}
			return retLabel(in)
		},
		spec: func(a map[string]bool) string {
			switch {
			case a["refFound"] && a["entryFound"]:
				if a["tipEq"] {
					return "proceed"
				}
				return "err:ErrInvalidPolicy"
			case a["refFound"] != a["entryFound"]:
				return "err:ErrInvalidPolicy"
			}
			return "proceed"
		}})
	_ = strings.HasPrefix
}

func init() {
	reg(&eng.Rule{ID: "C09.validate-table", Prop: "C09", Floor: 2,
		Doc: "authorizations/v01.Validate and v02.Validate accept a decoded statement exactly when: it has a non-nil first subject; the subject's tree digest (v02: the tree digest, or — only for tag references — the commit digest when no tree digest is present) equals the expected target; a predicate is present; and the predicate's target, from and reference fields each equal the corresponding parameter. Every other truth assignment of these comparisons → ErrInvalidAuthorization. Decided as a decision table over the CFG after the payload was parsed.",
		Run: validateTable})
}

func validateTable(c *Ctx, r *R) {
	type spec struct {
		fn                    string
		pTarget, pFrom, pRef  string
		kTarget, kFrom, kRef  string
		v02                   bool
	}
	for _, sp := range []spec{
		{"internal/attestations/authorizations/v01.Validate", "targetTreeID", "fromRevisionID", "targetRef", "targetTreeID", "fromRevisionID", "targetRef", false},
		{"internal/attestations/authorizations/v02.Validate", "targetID", "fromID", "targetRef", "targetID", "fromID", "targetRef", true},
	} {
		fn := r.Fn(sp.fn)
		if fn == nil {
			continue
		}
		r.Site(1)
		short := "v01"
		if sp.v02 {
			short = "v02"
		}
		// lookupKey: v is (an interface-boxed / comma-ok) map lookup with a constant key
		lookupKey := func(v ssa.Value) (string, bool) {
			for _, root := range eng.Roots(v) {
				var lk *ssa.Lookup
				switch x := root.(type) {
				case *ssa.Lookup:
					lk = x
				case *ssa.Extract:
					lk, _ = x.Tuple.(*ssa.Lookup)
					if x.Index != 0 {
						lk = nil
					}
				}
				if lk != nil {
					if s, isC := eng.ConstString(lk.Index); isC {
						return s, true
					}
				}
			}
			return "", false
		}
		hasKey := func(v ssa.Value) (string, bool) {
			ex, ok := v.(*ssa.Extract)
			if !ok || ex.Index != 1 {
				return "", false
			}
			lk, ok := ex.Tuple.(*ssa.Lookup)
			if !ok || !lk.CommaOk {
				return "", false
			}
			s, isC := eng.ConstString(lk.Index)
			return s, isC
		}
		atoms := func(v ssa.Value) (string, bool, bool) {
			if op, ok := eng.CmpAtom(v, eng.PLen(eng.PField("Subject", nil)), eng.PInt(0)); ok {
				switch op {
				case token.EQL:
					return "noSubject", true, true
				case token.NEQ, token.GTR:
					return "noSubject", false, true
				}
			}
			if bo, ok := v.(*ssa.BinOp); ok && (bo.Op == token.EQL || bo.Op == token.NEQ) {
				pos := bo.Op == token.NEQ
				for _, pair := range [][2]ssa.Value{{bo.X, bo.Y}, {bo.Y, bo.X}} {
					a, b := pair[0], pair[1]
					if eng.IsNilConst(b) {
						if n, _, isF := eng.FieldLoad(a); isF && n == "Predicate" {
							return "predNil", !pos, true
						}
						if u, ok := eng.Strip(a).(*ssa.UnOp); ok {
							if ia, ok := u.X.(*ssa.IndexAddr); ok && eng.PField("Subject", nil)(ia.X) {
								return "subjNil", !pos, true
							}
						}
					}
					if k, ok := lookupKey(a); ok {
						for name, want := range map[string][2]string{
							"treeNe": {"gitTree", sp.pTarget}, "commitNe": {"gitCommit", sp.pTarget},
							"pTargetNe": {sp.kTarget, sp.pTarget}, "pFromNe": {sp.kFrom, sp.pFrom}, "pRefNe": {sp.kRef, sp.pRef}} {
							if k == want[0] && eng.PParam(want[1])(eng.Strip(b)) {
								return name, pos, true
							}
						}
					}
				}
			}
			if k, ok := hasKey(v); ok {
				switch k {
				case "gitTree":
					return "hasTree", true, true
				case "gitCommit":
					return "hasCommit", true, true
				}
			}
			if k, _, ok := eng.RootCall(v); ok && k.Name() == "strings.HasPrefix" && eng.PParam(sp.pRef)(k.Arg(0)) {
				if s, isC := eng.ConstString(k.Arg(1)); isC && s == "refs/tags/" {
					return "isTagRef", true, true
				}
			}
			return "", false, false
		}
		// start: after json.Unmarshal succeeded
		um := eng.CallsTo(fn, false, "encoding/json.Unmarshal")
		if len(um) != 1 {
			r.Undecided("table:"+short, fn.Pos(), "expected one json.Unmarshal call in %s", sp.fn)
			continue
		}
		ev, _ := um[0].ErrResult()
		if ev == nil {
			r.Bad("table:"+short, um[0].Pos(), "the result of parsing the statement is dropped")
			continue
		}
		u := eng.UsesOfErr(ev)
		if len(u.NilEdges) != 1 {
			r.Undecided("table:"+short, um[0].Pos(), "cannot locate the success edge of json.Unmarshal")
			continue
		}
		names := []string{"noSubject", "subjNil", "treeNe", "predNil", "pTargetNe", "pFromNe", "pRefNe"}
		if sp.v02 {
			names = append(names, "hasTree", "hasCommit", "commitNe", "isTagRef")
		}
		v02 := sp.v02
		runTable(c, r, dtable{key: "table:" + short, fn: fn, start: u.NilEdges[0].To(), what: short + ".Validate", names: names, atoms: atoms, outcome: retLabel,
			spec: func(a map[string]bool) string {
				bad := a["noSubject"] || a["subjNil"] || a["predNil"] || a["pTargetNe"] || a["pFromNe"] || a["pRefNe"]
				if !v02 {
					bad = bad || a["treeNe"]
				} else if a["hasTree"] {
					bad = bad || a["treeNe"]
				} else {
					bad = bad || !a["hasCommit"] || a["commitNe"] || !a["isTagRef"]
				}
				if bad {
					return "err:ErrInvalidAuthorization"
				}
				return "ok"
			}})
	}
}

func init() {
	reg(&eng.Rule{ID: "C12.reconcile-gates", Prop: "C12", Floor: 3,
		Doc: "ReconcileStaging (the first thing Apply does) reports success only after BOTH consistency checks were made — the policy reference against its latest log entry and the policy-staging reference against its latest log entry — and each of them equals its definition on every truth assignment of {reference found, log entry found, entry target equals the reference tip}: both found and equal, or neither found → go on; otherwise ErrInvalidPolicy.",
		Run: reconcileGates})
	reg(&eng.Rule{ID: "C13.names-registered", Prop: "C13", Floor: 2,
		Doc: "State.preprocess registers the name of EVERY rule of every rule file in the set that backs the duplicate-name check: in each loop that tests ruleNames.Has(rule.ID()) the next rule is reached only after ruleNames.Add(rule.ID()) for the same rule (or an error return); no filter sits between the test and the registration.",
		Run: namesRegistered})
	reg(&eng.Rule{ID: "C13.migration-guards", Prop: "C13", Floor: 8,
		Doc: "In the legacy→current migrations a field of the new metadata is filled unconditionally, inside a loop over the corresponding source collection, or under a nil-test of THAT source field only; a copy guarded by any other predicate (a role flag, another field) silently drops data for the inputs on which the predicate is false.",
		Run: migrationGuards})
}

// consistencySwitches finds, in fn, the decision blocks `switch { case refFound && entryFound: … }` by their
// leading If on a found-flag phi whose false assignment sits behind errors.Is(err, ErrReferenceNotFound).
func foundFlag(v ssa.Value) string {
	phi, ok := v.(*ssa.Phi)
	if !ok || phi.Type().String() != "bool" {
		return ""
	}
	for i, e := range phi.Edges {
		if b, isC := eng.ConstBool(e); isC && !b {
			for _, g := range eng.GuardsAt(phi.Block().Preds[i]) {
				if k, _, ok := eng.RootCall(g.Cond); ok && k.Name() == "errors.Is" && g.Pol {
					if gl := eng.GlobalLoad(k.Arg(1)); gl != nil {
						switch gl.Name() {
						case "ErrReferenceNotFound":
							return "refFound"
						case "ErrRSLEntryNotFound":
							return "entryFound"
						}
					}
				}
			}
		}
	}
	return ""
}

func reconcileGates(c *Ctx, r *R) {
	fn := r.Fn("internal/policy.ReconcileStaging")
	if fn == nil {
		return
	}
	// the two lookups of the latest log entry
	var lookups []Call
	for _, k := range eng.CallsTo(fn, false, "pkg/rsl.GetLatestReferenceUpdaterEntry") {
		lookups = append(lookups, k)
	}
	refOf := func(k Call) string {
		_, ctors, _ := optionNames(k)
		if f, ok := optionCtor(ctors, "ForReference"); ok {
			s, _ := eng.ConstString(f.Arg(0))
			return s
		}
		return ""
	}
	var polLk, stLk *Call
	for i := range lookups {
		switch refOf(lookups[i]) {
		case refPolicy:
			polLk = &lookups[i]
		case refStaging:
			stLk = &lookups[i]
		}
	}
	if polLk == nil || stLk == nil {
		r.Bad("both-checked", fn.Pos(), "ReconcileStaging does not look up the latest log entry of both the policy and the policy-staging reference")
		return
	}
	r.Site(2)
	mustPass(c, r, "both-checked", fn, isSuccessReturn, eng.NewCut().AddInstrs(stLk.Instr),
		"success is reported only after the policy-staging reference was compared with its latest log entry",
		"ReconcileStaging can report success without the policy-staging reference having been compared with its latest log entry (Apply would go on with an unrecorded staging tip)")
	mustPass(c, r, "policy-checked", fn, isSuccessReturn, eng.NewCut().AddInstrs(polLk.Instr),
		"success is reported only after the policy reference was compared with its latest log entry", "ReconcileStaging can report success without the policy reference having been compared with its latest log entry")
	// the two decision blocks
	atoms := func(v ssa.Value) (string, bool, bool) {
		if n := foundFlag(v); n != "" {
			return n, true, true
		}
		if k, _, ok := eng.RootCall(v); ok && k.Method() == "Equal" && eng.PMethod("GetTargetID", nil)(k.Recv()) {
			return "tipEq", true, true
		}
		// the outcome of the first decision carried to the second: a bool phi defined before the staging lookup
		if phi, ok := v.(*ssa.Phi); ok && phi.Type().String() == "bool" && phi.Block().Dominates(stLk.Block()) && phi.Block() != stLk.Block() {
			return "policyExists", true, true
		}
		return "", false, false
	}
	n := 0
	for _, b := range fn.Blocks {
		if len(b.Instrs) == 0 {
			continue
		}
		iff, ok := b.Instrs[len(b.Instrs)-1].(*ssa.If)
		if !ok || foundFlag(iff.Cond) != "refFound" {
			continue
		}
		// only the head of a switch: not itself reached from another flag test of the same switch
		head := true
		for _, p := range b.Preds {
			if len(p.Instrs) > 0 {
				if pi, ok := p.Instrs[len(p.Instrs)-1].(*ssa.If); ok && foundFlag(pi.Cond) != "" {
					head = false
				}
			}
		}
		if !head {
			continue
		}
		n++
		which := "policy"
		if stLk.Block().Dominates(b) {
			which = "staging"
		}
		names := []string{"refFound", "entryFound", "tipEq"}
		if which == "staging" {
			names = append(names, "policyExists")
		}
		runTable(c, r, dtable{key: "consistency:" + which, fn: fn, start: b, idx: len(b.Instrs) - 1, what: which + " reference vs. log entry", names: names, atoms: atoms,
			outcome: func(in ssa.Instruction) string {
				if l := retLabel(in); l != "" {
					return l
				}
				if ci, ok := in.(ssa.CallInstruction); ok {
					k := Call{Instr: ci, Callee: eng.CalleeOf(ci)}
					if k.Method() == "GetReference" || k.Method() == "KnowsCommit" || k.Method() == "GetCommonAncestor" || k.Name() == "internal/policy.LoadCurrentState" {
						return "go-on"
					}
					// the scenario analysis that follows the checks starts by comparing the two tips
					if k.Method() == "Equal" && k.Recv() != nil && !eng.PMethod("GetTargetID", nil)(k.Recv()) {
						return "go-on"
					}
				}
				// bookkeeping flags of the original shape (`policyFound`, `stagingFound`) are evaluated by the walk
				return ""
			},
			spec: func(a map[string]bool) string {
				if (a["refFound"] && a["entryFound"] && !a["tipEq"]) || a["refFound"] != a["entryFound"] {
					return "err:ErrInvalidPolicy"
				}
				// without an applied policy there is nothing to reconcile with: success is reported
				// once the staging reference was found consistent; otherwise reconciliation goes on
				if which == "staging" && !a["policyExists"] {
					return "ok"
				}
				return "go-on"
			}})
	}
	r.Check(n == 2, "two-consistency-decisions", fn.Pos(), "two consistency decisions (policy, staging)", "expected two reference-vs-log consistency decisions in ReconcileStaging")
}

func namesRegistered(c *Ctx, r *R) {
	fn := r.Fn("(*internal/policy.State).preprocess")
	if fn == nil {
		return
	}
	isNames := eng.PField("ruleNames", nil)
	var has, adds []Call
	for _, k := range eng.Calls(fn, false) {
		if k.Callee == nil || k.Recv() == nil {
			continue
		}
		rv := k.Recv()
		if u, ok := rv.(*ssa.UnOp); ok && u.Op == token.MUL && !isNames(rv) {
			rv = u.X // value receiver: the set is dereferenced first
		}
		if !isNames(rv) {
			continue
		}
		switch k.Callee.Name() {
		case "Has":
			has = append(has, k)
		case "Add":
			adds = append(adds, k)
		}
	}
	r.Check(len(has) == 2 && len(adds) == 2, "sites", fn.Pos(), "two duplicate tests and two registrations (primary rule file, delegated rule files)", "expected two ruleNames.Has and two ruleNames.Add sites in preprocess")
	heads := loopHeads(fn)
	for i, h := range has {
		r.Site(1)
		var addI []ssa.Instruction
		for _, a := range adds {
			if sameObjVal(a.Arg(0), h.Arg(0)) || (eng.PMethod("ID", nil)(a.Arg(0)) && eng.PMethod("ID", nil)(h.Arg(0))) {
				addI = append(addI, a.Instr)
			}
		}
		b, idx := eng.After(h.Instr)
		p := eng.FindPath(b, idx, func(in ssa.Instruction) bool { return heads[in] || isSuccessReturn(in) }, eng.NewCut().AddInstrs(addI...))
		if p != nil {
			r.Bad("registered:"+itoa(i+1), h.Pos(), "after the duplicate test the next rule can be reached without this rule's name having been registered (ruleNames.Add skipped): a later rule with the same name is not detected; witness %s", c.DescribePath(p))
		} else {
			r.Ok("registered:"+itoa(i+1), h.Pos(), "every rule name that passes the duplicate test is registered before the next rule")
		}
	}
}

func migrationGuards(c *Ctx, r *R) {
	for _, spec := range []string{"internal/tuf/migrations.MigrateRootMetadataV01ToV02", "internal/tuf/migrations.MigrateTargetsMetadataV01ToV02"} {
		fn := r.Fn(spec)
		if fn == nil {
			continue
		}
		short := spec[strings.LastIndex(spec, ".")+1:]
		src := fn.Params[0]
		heads := loopHeads(fn)
		seen := map[string]bool{}
		for _, b := range fn.Blocks {
			for _, in := range b.Instrs {
				st, ok := in.(*ssa.Store)
				if !ok {
					continue
				}
				fa, ok := st.Addr.(*ssa.FieldAddr)
				if !ok {
					continue
				}
				field := fieldNameOf(fa)
				// only fields of the new metadata objects (allocated / constructed in this function)
				if !strings.Contains(fa.X.Type().String(), "internal/tuf/v02.") {
					continue
				}
				r.Site(1)
				bad := ""
				for _, g := range eng.GuardsAt(b) {
					if heads[g.If] {
						continue // a loop over a source collection
					}
					// allowed: <src>.<F> != nil (comma-ok / len forms included) where F is a field of the source metadata
					okG := false
					if bo, isB := g.Cond.(*ssa.BinOp); isB && (bo.Op == token.NEQ || bo.Op == token.EQL) {
						for _, pair := range [][2]ssa.Value{{bo.X, bo.Y}, {bo.Y, bo.X}} {
							if eng.IsNilConst(pair[1]) {
								if _, base, isF := eng.FieldLoad(pair[0]); isF {
									for _, root := range eng.Roots(base) {
										if root == ssa.Value(src) {
											okG = (bo.Op == token.NEQ) == g.Pol
										}
									}
								}
							}
						}
					}
					if !okG {
						bad = c.Rel(eng.InstrPos(g.If))
					}
				}
				key := "guard:" + short + ":" + field
				if seen[key] {
					continue
				}
				seen[key] = true
				if bad != "" {
					r.Bad(key, st.Pos(), "the copy of %s in %s is guarded by a condition (at %s) that is not a nil-test of the corresponding source field: for inputs on which that condition is false the data is dropped by the migration", field, short, bad)
				} else {
					r.Ok(key, st.Pos(), "%s is copied unconditionally, per element, or under a nil-test of its own source field", field)
				}
			}
		}
	}
}

func init() {
	reg(&eng.Rule{ID: "C14.hash-table", Prop: "C14", Floor: 1,
		Doc: "githash.NewHash — through which every identifier of a parsed entry passes — accepts a string exactly when its length is 40 or 64 and it decodes as hexadecimal: length neither 40 nor 64 → ErrInvalidHashLength, otherwise a decoding error → ErrInvalidHashEncoding, otherwise the decoded bytes. Decided as a decision table.",
		Run: hashTable})
}

func hashTable(c *Ctx, r *R) {
	fn := r.Fn("pkg/githash.NewHash")
	if fn == nil {
		return
	}
	r.Site(1)
	lenH := eng.PLen(eng.PParam("h"))
	var hexErr ssa.Value
	for _, k := range eng.CallsTo(fn, false, "encoding/hex.DecodeString") {
		if eng.PParam("h")(k.Arg(0)) {
			hexErr, _ = k.ErrResult()
		}
	}
	if hexErr == nil {
		r.Bad("table", fn.Pos(), "NewHash does not decode its argument with hex.DecodeString (or drops the error)")
		return
	}
	atoms := func(v ssa.Value) (string, bool, bool) {
		for n, name := range map[int64]string{40: "lenNot40", 64: "lenNot64"} {
			if op, ok := eng.CmpAtom(v, lenH, eng.PInt(n)); ok {
				switch op {
				case token.NEQ:
					return name, true, true
				case token.EQL:
					return name, false, true
				}
			}
		}
		if op, ok := eng.CmpAtom(v, eng.PSame(hexErr), eng.PNil()); ok {
			switch op {
			case token.NEQ:
				return "notHex", true, true
			case token.EQL:
				return "notHex", false, true
			}
		}
		return "", false, false
	}
	runTable(c, r, dtable{key: "table", fn: fn, start: fn.Blocks[0], what: "NewHash", names: []string{"lenNot40", "lenNot64", "notHex"}, atoms: atoms,
		consistent: func(a map[string]bool) bool { return a["lenNot40"] || a["lenNot64"] },
		outcome:    retLabel,
		spec: func(a map[string]bool) string {
			if a["lenNot40"] && a["lenNot64"] {
				return "err:ErrInvalidHashLength"
			}
			if a["notHex"] {
				return "err:ErrInvalidHashEncoding"
			}
			return "ok"
		}})
	// the value returned on success is the decoded byte string
	okV := false
	for _, ret := range eng.Returns(fn) {
		if retLabel(ret) == "ok" {
			if k, idx, ok := eng.RootCall(eng.Strip(eng.RetVal(ret, 0))); ok && idx == 0 && k.Name() == "encoding/hex.DecodeString" {
				okV = true
			}
		}
	}
	r.Check(okV, "returns-decoded", fn.Pos(), "the hash returned is the decoded argument", "NewHash does not return hex.DecodeString's result")
}

func init() {
	reg(&eng.Rule{ID: "C14.fields-stored", Prop: "C14", Floor: 10,
		Doc: "Each parser stores the value of every key it accepts into the field that the writer of that entry kind takes it from: ref→RefName, targetID→TargetID, number→Number, entryID→RSLEntryIDs (appended), skip→Skip, upstreamRepository→UpstreamRepository, upstreamEntryID→UpstreamEntryID; a key whose case has no such store (or stores into another field) yields an entry whose canonical text differs from the text parsed.",
		Run: fieldsStored})
}

func fieldsStored(c *Ctx, r *R) {
	want := map[string]map[string]string{
		"pkg/rsl.parseReferenceEntryText":   {"ref": "RefName", "targetID": "TargetID", "number": "Number"},
		"pkg/rsl.parseAnnotationEntryText":  {"entryID": "RSLEntryIDs", "skip": "Skip", "number": "Number"},
		"pkg/rsl.parsePropagationEntryText": {"ref": "RefName", "targetID": "TargetID", "upstreamRepository": "UpstreamRepository", "upstreamEntryID": "UpstreamEntryID", "number": "Number"},
	}
	for spec, table := range want {
		fn := r.Fn(spec)
		if fn == nil {
			continue
		}
		short := spec[strings.LastIndex(spec, ".")+1:]
		// edges on which `key == K` holds, per constant K
		keyEdges := map[string][]eng.Edge{}
		for k := range table {
			keyEdges[k] = eng.RelEdges(fn, token.EQL, eng.PAny(), eng.PStr(k))
		}
		got := map[string]map[string]bool{}
		note := func(b *ssa.BasicBlock, field string) {
			for k, es := range keyEdges {
				for _, e := range es {
					if eng.EdgeDominates(e, b) {
						if got[k] == nil {
							got[k] = map[string]bool{}
						}
						got[k][field] = true
					}
				}
			}
		}
		for _, b := range fn.Blocks {
			for _, in := range b.Instrs {
				switch x := in.(type) {
				case *ssa.Store:
					if fa, ok := x.Addr.(*ssa.FieldAddr); ok {
						note(b, fieldNameOf(fa))
					}
				case ssa.CallInstruction:
					k := Call{Instr: x, Callee: eng.CalleeOf(x)}
					if k.Name() == "pkg/rsl.setHash" || k.Name() == "pkg/rsl.setNumber" {
						if fa, ok := k.Arg(0).(*ssa.FieldAddr); ok {
							note(b, fieldNameOf(fa))
						}
					}
				}
			}
		}
		keys := make([]string, 0, len(table))
		for k := range table {
			keys = append(keys, k)
		}
		sort.Strings(keys)
		for _, k := range keys {
			r.Site(1)
			f := table[k]
			var others []string
			for g := range got[k] {
				if g != f {
					others = append(others, g)
				}
			}
			sort.Strings(others)
			r.Check(got[k][f] && len(others) == 0, "stored:"+short+":"+k, fn.Pos(), "key "+k+" → field "+f,
				"the value of key '"+k+"' is not stored into "+f+" (and nothing else) in "+short+" (fields written in that case: "+strings.Join(append(others, ""), " ")+")")
		}
	}
}
