package rules

import (
	"go/token"
	"strings"

	"golang.org/x/tools/go/ssa"

	"verif/checker/eng"
)

func init() {
	reg(&eng.Rule{ID: "C04.stepper-table", Prop: "C04", Floor: 2,
		Doc: "GetParentForEntry's two decisions equal their definition on every truth assignment: after the storage read — no parents → ErrRSLEntryNotFound, more than one → ErrRSLBranchDetected, otherwise the parent is loaded; after the parent parsed — entry number 0 or 1 requires parent number 0, any other number n requires parent number n-1, a mismatch → ErrInvalidRSLEntry, and only a match reaches cache.setParent and the success return.",
		Run: stepperTable})
	reg(&eng.Rule{ID: "C12.apply-table", Prop: "C12", Floor: 1,
		Doc: "Apply's reference/log consistency decision equals its definition on every truth assignment of {policy reference found, log entry found, entry target equals the reference tip}: both found and equal, or neither found → proceed; both found and different, or exactly one found → ErrInvalidPolicy.",
		Run: applyTable})
}

func stepperTable(c *Ctx, r *R) {
	fn := r.Fn("pkg/rsl.GetParentForEntry")
	if fn == nil {
		return
	}
	ids := eng.PCall("GetCommitParentIDs", 0)
	eNum := eng.PMethod("GetNumber", eng.PParam("entry"))
	pNum := eng.PMethod("GetNumber", eng.PCall("pkg/rsl.GetEntry", 0))
	atoms := func(v ssa.Value) (string, bool, bool) {
		if op, ok := eng.CmpAtom(v, ids, eng.PNil()); ok {
			switch op {
			case token.EQL:
				return "noParents", true, true
			case token.NEQ:
				return "noParents", false, true
			}
		}
		if op, ok := eng.CmpAtom(v, eng.PLen(ids), eng.PInt(1)); ok {
			switch op {
			case token.GTR:
				return "manyParents", true, true
			case token.LEQ:
				return "manyParents", false, true
			}
		}
		if op, ok := eng.CmpAtom(v, eng.PLen(ids), eng.PInt(2)); ok {
			switch op {
			case token.GEQ:
				return "manyParents", true, true
			case token.LSS:
				return "manyParents", false, true
			}
		}
		for n, name := range map[int64]string{0: "entry0", 1: "entry1"} {
			if op, ok := eng.CmpAtom(v, eNum, eng.PInt(n)); ok {
				switch op {
				case token.EQL:
					return name, true, true
				case token.NEQ:
					return name, false, true
				}
			}
		}
		if n, p, ok := cmpAtomNE(v, pNum, eng.PInt(0), "parentNot0"); ok {
			return n, p, ok
		}
		if n, p, ok := cmpAtomNE(v, pNum, eng.PBin(token.SUB, eNum, eng.PInt(1)), "parentNotPred"); ok {
			return n, p, ok
		}
		return "", false, false
	}
	r.Site(2)
	reads := eng.CallsToMethod(fn, false, "GetCommitParentIDs", "Storer", "Repository")
	ges := eng.CallsTo(fn, false, "pkg/rsl.GetEntry")
	if len(reads) != 1 || len(ges) != 2 {
		r.Undecided("anchors", fn.Pos(), "expected one GetCommitParentIDs and two GetEntry calls (cached path, validated path)")
		return
	}
	load := ges[0]
	if ges[1].Pos() > load.Pos() {
		load = ges[1]
	}
	if ev, _ := reads[0].ErrResult(); ev != nil {
		if u := eng.UsesOfErr(ev); len(u.NilEdges) == 1 {
			runTable(c, r, dtable{key: "parents", fn: fn, start: u.NilEdges[0].To(), what: "number of parents", names: []string{"noParents", "manyParents"}, atoms: atoms,
				consistent: func(a map[string]bool) bool { return !(a["noParents"] && a["manyParents"]) },
				outcome: func(in ssa.Instruction) string {
					if in == load.Instr {
						return "load"
					}
					return retLabel(in)
				},
				spec: func(a map[string]bool) string {
					switch {
					case a["noParents"]:
						return "err:ErrRSLEntryNotFound"
					case a["manyParents"]:
						return "err:ErrRSLBranchDetected"
					}
					return "load"
				}})
		}
	}
	if ev, _ := load.ErrResult(); ev != nil {
		if u := eng.UsesOfErr(ev); len(u.NilEdges) == 1 {
			runTable(c, r, dtable{key: "continuity", fn: fn, start: u.NilEdges[0].To(), what: "number continuity", names: []string{"entry0", "entry1", "parentNot0", "parentNotPred"}, atoms: atoms,
				consistent: func(a map[string]bool) bool { return !(a["entry0"] && a["entry1"]) },
				outcome: func(in ssa.Instruction) string {
					if ci, ok := in.(ssa.CallInstruction); ok {
						if k := (Call{Instr: ci, Callee: eng.CalleeOf(ci)}); k.Method() == "setParent" {
							return "memoise"
						}
					}
					return retLabel(in)
				},
				spec: func(a map[string]bool) string {
					if a["entry0"] || a["entry1"] {
						if a["parentNot0"] {
							return "err:ErrInvalidRSLEntry"
						}
						return "memoise"
					}
					if a["parentNotPred"] {
						return "err:ErrInvalidRSLEntry"
					}
					return "memoise"
				}})
		}
	}
}

func applyTable(c *Ctx, r *R) {
	fn := r.Fn("internal/policy.Apply")
	if fn == nil {
		return
	}
	r.Site(1)
	// the two flags: bool phis whose `false` assignment sits behind the handled not-found sentinel
	flagOf := func(v ssa.Value) string {
		phi, ok := v.(*ssa.Phi)
		if !ok || phi.Type().String() != "bool" {
			return ""
		}
		for i, e := range phi.Edges {
			if b, isC := eng.ConstBool(e); isC && !b {
				for _, g := range eng.GuardsAt(phi.Block().Preds[i]) {
					if k, _, ok := eng.RootCall(g.Cond); ok && k.Name() == "errors.Is" && g.Pol {
						if gl := eng.GlobalLoad(k.Arg(1)); gl != nil {
							switch gl.Name() {
							case "ErrReferenceNotFound":
								return "refFound"
							case "ErrRSLEntryNotFound":
								return "entryFound"
							}
						}
					}
				}
				// the assignment may sit in the guarded block itself
				pb := phi.Block().Preds[i]
				for _, g := range eng.GuardsAt(pb) {
					_ = g
				}
			}
		}
		return ""
	}
	atoms := func(v ssa.Value) (string, bool, bool) {
		if n := flagOf(v); n != "" {
			return n, true, true
		}
		if k, _, ok := eng.RootCall(v); ok && k.Method() == "Equal" && eng.PMethod("GetTargetID", nil)(k.Recv()) {
			return "tipEq", true, true
		}
		return "", false, false
	}
	var start *ssa.BasicBlock
	for _, b := range fn.Blocks {
		if len(b.Instrs) == 0 {
			continue
		}
		if iff, ok := b.Instrs[len(b.Instrs)-1].(*ssa.If); ok && flagOf(iff.Cond) == "refFound" {
			start = b
			break
		}
	}
	var stagingRead ssa.Instruction
	for _, k := range eng.Calls(fn, false) {
		if k.Method() == "GetReference" {
			if s, isC := eng.ConstString(k.Arg(0)); isC && s == refStaging {
				stagingRead = k.Instr
			}
		}
	}
	if stagingRead == nil {
		r.Undecided("consistency", fn.Pos(), "GetReference(PolicyStagingRef) not found (anchor)")
		return
	}
	idx := 0
	if start != nil {
		idx = len(start.Instrs) - 1
	}
	runTable(c, r, dtable{key: "consistency", fn: fn, start: start, idx: idx, what: "policy reference vs. log entry", names: []string{"refFound", "entryFound", "tipEq"}, atoms: atoms,
		outcome: func(in ssa.Instruction) string {
			if in == stagingRead {
				return "proceed"
			}
			return retLabel(in)
		},
		spec: func(a map[string]bool) string {
			switch {
			case a["refFound"] && a["entryFound"]:
				if a["tipEq"] {
					return "proceed"
				}
				return "err:ErrInvalidPolicy"
			case a["refFound"] != a["entryFound"]:
				return "err:ErrInvalidPolicy"
			}
			return "proceed"
		}})
	_ = strings.HasPrefix
}

func init() {
	reg(&eng.Rule{ID: "C09.validate-table", Prop: "C09", Floor: 2,
		Doc: "authorizations/v01.Validate and v02.Validate accept a decoded statement exactly when: it has a non-nil first subject; the subject's tree digest (v02: the tree digest, or — only for tag references — the commit digest when no tree digest is present) equals the expected target; a predicate is present; and the predicate's target, from and reference fields each equal the corresponding parameter. Every other truth assignment of these comparisons → ErrInvalidAuthorization. Decided as a decision table over the CFG after the payload was parsed.",
		Run: validateTable})
}

func validateTable(c *Ctx, r *R) {
	type spec struct {
		fn                    string
		pTarget, pFrom, pRef  string
		kTarget, kFrom, kRef  string
		v02                   bool
	}
	for _, sp := range []spec{
		{"internal/attestations/authorizations/v01.Validate", "targetTreeID", "fromRevisionID", "targetRef", "targetTreeID", "fromRevisionID", "targetRef", false},
		{"internal/attestations/authorizations/v02.Validate", "targetID", "fromID", "targetRef", "targetID", "fromID", "targetRef", true},
	} {
		fn := r.Fn(sp.fn)
		if fn == nil {
			continue
		}
		r.Site(1)
		short := "v01"
		if sp.v02 {
			short = "v02"
		}
		// lookupKey: v is (an interface-boxed / comma-ok) map lookup with a constant key
		lookupKey := func(v ssa.Value) (string, bool) {
			for _, root := range eng.Roots(v) {
				var lk *ssa.Lookup
				switch x := root.(type) {
				case *ssa.Lookup:
					lk = x
				case *ssa.Extract:
					lk, _ = x.Tuple.(*ssa.Lookup)
					if x.Index != 0 {
						lk = nil
					}
				}
				if lk != nil {
					if s, isC := eng.ConstString(lk.Index); isC {
						return s, true
					}
				}
			}
			return "", false
		}
		hasKey := func(v ssa.Value) (string, bool) {
			ex, ok := v.(*ssa.Extract)
			if !ok || ex.Index != 1 {
				return "", false
			}
			lk, ok := ex.Tuple.(*ssa.Lookup)
			if !ok || !lk.CommaOk {
				return "", false
			}
			s, isC := eng.ConstString(lk.Index)
			return s, isC
		}
		atoms := func(v ssa.Value) (string, bool, bool) {
			if op, ok := eng.CmpAtom(v, eng.PLen(eng.PField("Subject", nil)), eng.PInt(0)); ok {
				switch op {
				case token.EQL:
					return "noSubject", true, true
				case token.NEQ, token.GTR:
					return "noSubject", false, true
				}
			}
			if bo, ok := v.(*ssa.BinOp); ok && (bo.Op == token.EQL || bo.Op == token.NEQ) {
				pos := bo.Op == token.NEQ
				for _, pair := range [][2]ssa.Value{{bo.X, bo.Y}, {bo.Y, bo.X}} {
					a, b := pair[0], pair[1]
					if eng.IsNilConst(b) {
						if n, _, isF := eng.FieldLoad(a); isF && n == "Predicate" {
							return "predNil", !pos, true
						}
						if u, ok := eng.Strip(a).(*ssa.UnOp); ok {
							if ia, ok := u.X.(*ssa.IndexAddr); ok && eng.PField("Subject", nil)(ia.X) {
								return "subjNil", !pos, true
							}
						}
					}
					if k, ok := lookupKey(a); ok {
						for name, want := range map[string][2]string{
							"treeNe": {"gitTree", sp.pTarget}, "commitNe": {"gitCommit", sp.pTarget},
							"pTargetNe": {sp.kTarget, sp.pTarget}, "pFromNe": {sp.kFrom, sp.pFrom}, "pRefNe": {sp.kRef, sp.pRef}} {
							if k == want[0] && eng.PParam(want[1])(eng.Strip(b)) {
								return name, pos, true
							}
						}
					}
				}
			}
			if k, ok := hasKey(v); ok {
				switch k {
				case "gitTree":
					return "hasTree", true, true
				case "gitCommit":
					return "hasCommit", true, true
				}
			}
			if k, _, ok := eng.RootCall(v); ok && k.Name() == "strings.HasPrefix" && eng.PParam(sp.pRef)(k.Arg(0)) {
				if s, isC := eng.ConstString(k.Arg(1)); isC && s == "refs/tags/" {
					return "isTagRef", true, true
				}
			}
			return "", false, false
		}
		// start: after json.Unmarshal succeeded
		um := eng.CallsTo(fn, false, "encoding/json.Unmarshal")
		if len(um) != 1 {
			r.Undecided("table:"+short, fn.Pos(), "expected one json.Unmarshal call in %s", sp.fn)
			continue
		}
		ev, _ := um[0].ErrResult()
		if ev == nil {
			r.Bad("table:"+short, um[0].Pos(), "the result of parsing the statement is dropped")
			continue
		}
		u := eng.UsesOfErr(ev)
		if len(u.NilEdges) != 1 {
			r.Undecided("table:"+short, um[0].Pos(), "cannot locate the success edge of json.Unmarshal")
			continue
		}
		names := []string{"noSubject", "subjNil", "treeNe", "predNil", "pTargetNe", "pFromNe", "pRefNe"}
		if sp.v02 {
			names = append(names, "hasTree", "hasCommit", "commitNe", "isTagRef")
		}
		v02 := sp.v02
		runTable(c, r, dtable{key: "table:" + short, fn: fn, start: u.NilEdges[0].To(), what: short + ".Validate", names: names, atoms: atoms, outcome: retLabel,
			spec: func(a map[string]bool) string {
				bad := a["noSubject"] || a["subjNil"] || a["predNil"] || a["pTargetNe"] || a["pFromNe"] || a["pRefNe"]
				if !v02 {
					bad = bad || a["treeNe"]
				} else if a["hasTree"] {
					bad = bad || a["treeNe"]
				} else {
					bad = bad || !a["hasCommit"] || a["commitNe"] || !a["isTagRef"]
				}
				if bad {
					return "err:ErrInvalidAuthorization"
				}
				return "ok"
			}})
	}
}
