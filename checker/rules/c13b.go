package rules

import (
	"fmt"
	"go/ast"
	"go/token"
	"go/types"
	"sort"
	"strings"

	"golang.org/x/tools/go/packages"
	"golang.org/x/tools/go/ssa"

	"verif/checker/eng"
)

func init() {
	reg(&eng.Rule{ID: "C13.unmarshal-copy", Prop: "C13", Floor: 40,
		Doc: "Every hand-written UnmarshalJSON in the schema packages that decodes into a local shadow struct: shadow fields ↔ receiver fields is a bijection on (name, JSON tag); every receiver field is assigned and every shadow field read; a direct copy r.F = temp.G has F == G; every concrete principal / global-rule type of the schema is constructed, and an unrecognised principal or global rule type is an error.",
		Run: c13UnmarshalCopy})
	reg(&eng.Rule{ID: "C13.migration-complete", Prop: "C13", Floor: 20,
		Doc: "MigrateRootMetadataV01ToV02 / MigrateTargetsMetadataV01ToV02 read every field of every legacy struct they visit (frozen exceptions with reasons: Type is a constant, Targets must be empty) and set every field of every current-schema struct they build (Type/SchemaVersion come from the constructor).",
		Run: c13MigrationComplete})
	reg(&eng.Rule{ID: "C13.refuse-unchanged", Prop: "C13", Floor: 30,
		Doc: "In every mutator of the rule / role / principal tables (methods of TargetsMetadata, RootMetadata, Delegations in both schemas that write Roles, Delegations, Principals/Keys or a role's principal set or threshold): no write to receiver-reachable memory is followed on any CFG path by a return of a non-nil error (helpers summarised one level: a helper's own error is attributed to the helper, which is checked itself). Lazy initialisation `if x.F == nil { x.F = empty }` changes no query answer and is not a write.",
		Run: c13RefuseUnchanged})
}

// ---------------------------------------------------------------- unmarshal-copy

type structField struct {
	Name string
	Tag  string
	Type types.Type
}

func fieldsOf(st *types.Struct) []structField {
	var out []structField
	for i := 0; i < st.NumFields(); i++ {
		out = append(out, structField{st.Field(i).Name(), st.Tag(i), st.Field(i).Type()})
	}
	return out
}

func schemaImplementers(c *Ctx, ifaceSpec string) []*types.Named {
	io := c.Object(ifaceSpec)
	if io == nil {
		return nil
	}
	iface, ok := io.Type().Underlying().(*types.Interface)
	if !ok {
		return nil
	}
	seen := map[*types.Named]bool{}
	var out []*types.Named
	for _, p := range c.Pkgs {
		if !inTufSchemaPkg(p.Types) {
			continue
		}
		sc := p.Types.Scope()
		for _, n := range sc.Names() {
			tn, ok := sc.Lookup(n).(*types.TypeName)
			if !ok {
				continue
			}
			nt, ok := types.Unalias(tn.Type()).(*types.Named)
			if !ok || seen[nt] {
				continue
			}
			if _, isStruct := nt.Underlying().(*types.Struct); !isStruct {
				continue
			}
			if types.Implements(types.NewPointer(nt), iface) || types.Implements(nt, iface) {
				seen[nt] = true
				out = append(out, nt)
			}
		}
	}
	sort.Slice(out, func(i, j int) bool { return out[i].Obj().Name() < out[j].Obj().Name() })
	return out
}

// refersTo reports whether type t mentions the named interface (directly, as
// element, map value, slice element).
func mentionsType(t types.Type, target types.Type, depth int) bool {
	if depth > 4 {
		return false
	}
	t = types.Unalias(t)
	if types.Identical(t, target) {
		return true
	}
	switch x := t.(type) {
	case *types.Pointer:
		return mentionsType(x.Elem(), target, depth+1)
	case *types.Slice:
		return mentionsType(x.Elem(), target, depth+1)
	case *types.Array:
		return mentionsType(x.Elem(), target, depth+1)
	case *types.Map:
		return mentionsType(x.Elem(), target, depth+1) || mentionsType(x.Key(), target, depth+1)
	}
	return false
}

func c13UnmarshalCopy(c *Ctx, r *R) {
	principalT := c.Object("internal/tuf.Principal")
	globalRuleT := c.Object("internal/tuf.GlobalRule")
	if principalT == nil || globalRuleT == nil {
		r.Undecided("anchor", token.NoPos, "tuf.Principal / tuf.GlobalRule not found")
		return
	}
	principalImpls := schemaImplementers(c, "internal/tuf.Principal")
	var globalImpls []*types.Named
	for _, n := range schemaImplementers(c, "internal/tuf.GlobalRule") {
		// tuf.GlobalRule only demands GetName(), which other schema types have too;
		// the global rule kinds are the implementers named GlobalRule*
		if strings.HasPrefix(n.Obj().Name(), "GlobalRule") {
			globalImpls = append(globalImpls, n)
		}
	}
	if len(globalImpls) < 2 || len(principalImpls) < 2 {
		r.Undecided("anchor:implementers", token.NoPos, "found %d global rule kinds and %d principal kinds in the schema packages; expected at least 2 of each", len(globalImpls), len(principalImpls))
	}
	nFuncs := 0
	c.ModuleFuncs(func(fn *ssa.Function) {
		if fn.Name() != "UnmarshalJSON" || fn.Pkg == nil || !inTufSchemaPkg(fn.Pkg.Pkg) || fn.Signature.Recv() == nil {
			return
		}
		fd, pkg := c.FuncDecl(fn)
		if fd == nil || fd.Body == nil {
			return
		}
		recvNamed := namedOf(fn.Signature.Recv().Type())
		if recvNamed == nil {
			return
		}
		recvStruct, ok := recvNamed.Underlying().(*types.Struct)
		if !ok {
			return
		}
		// local shadow struct
		var shadow *types.Struct
		var shadowObj types.Object
		ast.Inspect(fd.Body, func(n ast.Node) bool {
			ts, ok := n.(*ast.TypeSpec)
			if !ok {
				return true
			}
			if o := pkg.TypesInfo.Defs[ts.Name]; o != nil {
				if st, ok := o.Type().Underlying().(*types.Struct); ok && shadow == nil {
					shadow, shadowObj = st, o
				}
			}
			return true
		})
		if shadow == nil {
			return
		}
		nFuncs++
		r.Funcs[fname(fn)] = true
		tname := recvNamed.Obj().Pkg().Name() + "." + recvNamed.Obj().Name()
		recvName := ""
		if len(fd.Recv.List) > 0 && len(fd.Recv.List[0].Names) > 0 {
			recvName = fd.Recv.List[0].Names[0].Name
		}
		rf, sf := fieldsOf(recvStruct), fieldsOf(shadow)
		sIdx := map[string]structField{}
		for _, f := range sf {
			sIdx[f.Name] = f
		}
		rIdx := map[string]structField{}
		for _, f := range rf {
			rIdx[f.Name] = f
		}
		// who is assigned / read
		assigned := map[string]bool{}
		read := map[string]bool{}
		crossCopy := map[string]string{}
		isRecvSel := func(e ast.Expr) (string, bool) {
			for {
				switch x := e.(type) {
				case *ast.IndexExpr:
					e = x.X
					continue
				case *ast.ParenExpr:
					e = x.X
					continue
				}
				break
			}
			se, ok := e.(*ast.SelectorExpr)
			if !ok {
				return "", false
			}
			id, ok := se.X.(*ast.Ident)
			if !ok || id.Name != recvName {
				return "", false
			}
			return se.Sel.Name, true
		}
		isShadowSel := func(e ast.Expr) (string, bool) {
			se, ok := e.(*ast.SelectorExpr)
			if !ok {
				return "", false
			}
			tv, ok := pkg.TypesInfo.Types[se.X]
			if !ok {
				return "", false
			}
			t := tv.Type
			if p, ok := t.(*types.Pointer); ok {
				t = p.Elem()
			}
			if n, ok := t.(*types.Named); ok && n.Obj() == shadowObj {
				return se.Sel.Name, true
			}
			return "", false
		}
		ast.Inspect(fd.Body, func(n ast.Node) bool {
			switch x := n.(type) {
			case *ast.AssignStmt:
				for i, lhs := range x.Lhs {
					if f, ok := isRecvSel(lhs); ok {
						assigned[f] = true
						if i < len(x.Rhs) {
							if g, ok := isShadowSel(x.Rhs[i]); ok && g != f {
								crossCopy[f] = g
							}
						}
					}
				}
			case *ast.SelectorExpr:
				if g, ok := isShadowSel(x); ok {
					read[g] = true
				}
			}
			return true
		})
		for _, f := range rf {
			r.Site(1)
			s, has := sIdx[f.Name]
			switch {
			case !has:
				r.Bad("shadow-field:"+tname+"."+f.Name, fd.Pos(), "%s.UnmarshalJSON: the shadow struct has no field %s (json %s): the value is silently dropped whenever this metadata is reloaded, so %s answers differently after serialize+reload", tname, f.Name, f.Tag, f.Name)
				continue
			case s.Tag != f.Tag:
				r.Bad("shadow-field:"+tname+"."+f.Name, fd.Pos(), "%s.UnmarshalJSON: field %s is tagged %q in the shadow struct but %q in %s: it is written under one key and read under another", tname, f.Name, s.Tag, f.Tag, tname)
				continue
			default:
				r.Ok("shadow-field:"+tname+"."+f.Name, fd.Pos(), "shadow field with the same name and tag")
			}
			r.Check(assigned[f.Name], "assigned:"+tname+"."+f.Name, fd.Pos(), "receiver field is assigned", fmt.Sprintf("%s.UnmarshalJSON never assigns %s.%s: the decoded value is dropped on reload", tname, recvName, f.Name))
			r.Check(read[f.Name], "read:"+tname+"."+f.Name, fd.Pos(), "shadow field is read", fmt.Sprintf("%s.UnmarshalJSON never reads the decoded %s: it cannot reach the receiver", tname, f.Name))
			if g, bad := crossCopy[f.Name]; bad {
				r.Bad("copy-same-field:"+tname+"."+f.Name, fd.Pos(), "%s.UnmarshalJSON assigns %s from the shadow's %s", tname, f.Name, g)
			}
		}
		for _, f := range sf {
			if _, has := rIdx[f.Name]; !has {
				r.Bad("shadow-extra:"+tname+"."+f.Name, fd.Pos(), "%s.UnmarshalJSON: shadow field %s has no counterpart in %s", tname, f.Name, tname)
			}
		}
		// concrete types constructed
		constructed := map[*types.Named]bool{}
		ast.Inspect(fd.Body, func(n ast.Node) bool {
			cl, ok := n.(*ast.CompositeLit)
			if !ok {
				return true
			}
			if tv, ok := pkg.TypesInfo.Types[cl]; ok {
				if nt, ok := types.Unalias(tv.Type).(*types.Named); ok {
					constructed[nt] = true
				}
			}
			return true
		})
		needs := func(iface types.Object, impls []*types.Named, what string) {
			uses := false
			for _, f := range rf {
				if mentionsType(f.Type, iface.Type(), 0) {
					uses = true
				}
			}
			if !uses {
				return
			}
			for _, im := range impls {
				// the legacy schema only ever stored keys
				if what == "principal" && strings.HasSuffix(recvNamed.Obj().Pkg().Path(), "v01") {
					continue
				}
				r.Site(1)
				r.Check(constructed[im], "decodes:"+tname+":"+im.Obj().Name(), fd.Pos(), "constructs "+im.Obj().Name()+" when decoding a "+what,
					fmt.Sprintf("%s.UnmarshalJSON never constructs %s: a stored %s of that kind cannot be reloaded", tname, im.Obj().Name(), what))
			}
		}
		needs(principalT, principalImpls, "principal")
		needs(globalRuleT, globalImpls, "global rule")
		// unrecognised kinds are errors: every switch over the global rule type has an error default;
		// the principal ladder ends in an error return inside its loop
		ast.Inspect(fd.Body, func(n ast.Node) bool {
			sw, ok := n.(*ast.SwitchStmt)
			if !ok || sw.Tag == nil {
				return true
			}
			isKindSwitch := false
			hasDefaultErr := false
			for _, cc := range sw.Body.List {
				cl := cc.(*ast.CaseClause)
				if cl.List == nil {
					for _, s := range cl.Body {
						if ret, ok := s.(*ast.ReturnStmt); ok && len(ret.Results) == 1 {
							if id, ok := ret.Results[0].(*ast.Ident); !ok || id.Name != "nil" {
								hasDefaultErr = true
							}
						}
					}
				}
				for _, e := range cl.List {
					if se, ok := e.(*ast.SelectorExpr); ok && strings.HasPrefix(se.Sel.Name, "GlobalRule") {
						isKindSwitch = true
					}
				}
			}
			if isKindSwitch {
				r.Site(1)
				r.Check(hasDefaultErr, "unknown-global-rule-is-error:"+tname, sw.Pos(), "default → error", tname+".UnmarshalJSON accepts a global rule of unknown type silently")
			}
			return true
		})
	})
	if nFuncs < 4 {
		r.Undecided("anchor:count", token.NoPos, "found %d shadow-struct UnmarshalJSON methods in the schema packages, expected at least 4 (v01 root; v02 root, Delegations, OtherRepository)", nFuncs)
	}
}

// ---------------------------------------------------------------- migration-complete

// frozen exceptions: legacy fields the migration need not read.
var migrationUnread = map[string]string{
	"v01.RootMetadata.Type":       "constant \"root\"; the constructor sets it",
	"v01.TargetsMetadata.Type":    "constant \"targets\"; the constructor sets it",
	"v01.TargetsMetadata.Targets": "must be empty (Validate refuses anything else)",
}

// fields of current-schema structs the migration need not set explicitly.
var migrationUnset = map[string]string{
	"v02.RootMetadata.Type":             "set by NewRootMetadata",
	"v02.RootMetadata.SchemaVersion":    "set by NewRootMetadata",
	"v02.TargetsMetadata.Type":          "set by NewTargetsMetadata",
	"v02.TargetsMetadata.SchemaVersion": "set by NewTargetsMetadata",
	"v02.TargetsMetadata.Targets":       "must stay empty",
}

func c13MigrationComplete(c *Ctx, r *R) {
	for _, name := range []string{"MigrateRootMetadataV01ToV02", "MigrateTargetsMetadataV01ToV02"} {
		fn := r.Fn("internal/tuf/migrations." + name)
		if fn == nil {
			continue
		}
		fd, pkg := c.FuncDecl(fn)
		if fd == nil {
			r.Undecided("anchor:"+name, token.NoPos, "no syntax for %s", name)
			continue
		}
		migrationSets(c, r, name, fd, pkg)
	}
}

func schemaStruct(t types.Type, ver string) (*types.Named, *types.Struct) {
	n := namedOf(t)
	if n == nil || n.Obj().Pkg() == nil || !strings.HasSuffix(n.Obj().Pkg().Path(), "internal/tuf/"+ver) {
		return nil, nil
	}
	st, ok := n.Underlying().(*types.Struct)
	if !ok {
		return nil, nil
	}
	return n, st
}

func migrationSets(c *Ctx, r *R, fname string, fd *ast.FuncDecl, pkg *packages.Package) {
	readF := map[string]bool{} // "v01.T.F"
	visited := map[string]*types.Struct{}
	setF := map[string]bool{} // "v02.T.F"
	built := map[string]*types.Struct{}
	qual := func(n *types.Named) string { return n.Obj().Pkg().Name() + "." + n.Obj().Name() }
	markSel := func(se *ast.SelectorExpr, into map[string]bool, ver string, seen map[string]*types.Struct) {
		sel := pkg.TypesInfo.Selections[se]
		if sel == nil {
			return
		}
		switch sel.Kind() {
		case types.FieldVal:
			// walk the embedding path
			t := sel.Recv()
			for _, idx := range sel.Index() {
				n, st := schemaStruct(t, ver)
				if st == nil {
					break
				}
				seen[qual(n)] = st
				into[qual(n)+"."+st.Field(idx).Name()] = true
				t = st.Field(idx).Type()
			}
		case types.MethodVal:
			// getters count as reading the field they are named after
			n, st := schemaStruct(sel.Recv(), ver)
			if st == nil {
				return
			}
			seen[qual(n)] = st
			m := sel.Obj().Name()
			for _, pre := range []string{"Get", "Is"} {
				if strings.HasPrefix(m, pre) {
					f := strings.TrimPrefix(m, pre)
					for i := 0; i < st.NumFields(); i++ {
						if st.Field(i).Name() == f {
							into[qual(n)+"."+f] = true
						}
					}
				}
			}
		}
	}
	lhsSels := map[*ast.SelectorExpr]bool{}
	ast.Inspect(fd.Body, func(n ast.Node) bool {
		switch x := n.(type) {
		case *ast.AssignStmt:
			for _, lhs := range x.Lhs {
				e := lhs
				for {
					if ix, ok := e.(*ast.IndexExpr); ok {
						e = ix.X
						continue
					}
					break
				}
				if se, ok := e.(*ast.SelectorExpr); ok {
					lhsSels[se] = true
					markSel(se, setF, "v02", built)
				}
			}
		case *ast.CompositeLit:
			tv, ok := pkg.TypesInfo.Types[x]
			if !ok {
				return true
			}
			nt, st := schemaStruct(tv.Type, "v02")
			if st == nil {
				return true
			}
			built[qual(nt)] = st
			for _, el := range x.Elts {
				if kv, ok := el.(*ast.KeyValueExpr); ok {
					if id, ok := kv.Key.(*ast.Ident); ok {
						setF[qual(nt)+"."+id.Name] = true
					}
				}
			}
		}
		return true
	})
	ast.Inspect(fd.Body, func(n ast.Node) bool {
		if se, ok := n.(*ast.SelectorExpr); ok && !lhsSels[se] {
			markSel(se, readF, "v01", visited)
		}
		return true
	})
	// obligations
	var vn []string
	for k := range visited {
		vn = append(vn, k)
	}
	sort.Strings(vn)
	for _, tn := range vn {
		st := visited[tn]
		for i := 0; i < st.NumFields(); i++ {
			f := tn + "." + st.Field(i).Name()
			r.Site(1)
			if why, ex := migrationUnread[f]; ex {
				r.Ok("reads:"+fname+":"+f, fd.Pos(), "not read by design: %s", why)
				continue
			}
			r.Check(readF[f], "reads:"+fname+":"+f, fd.Pos(), "legacy field is read", fmt.Sprintf("%s never reads %s: whatever the legacy metadata holds there is lost by the migration, and queries that depend on it answer differently afterwards", fname, f))
		}
	}
	var bn []string
	for k := range built {
		bn = append(bn, k)
	}
	sort.Strings(bn)
	for _, tn := range bn {
		st := built[tn]
		for i := 0; i < st.NumFields(); i++ {
			f := tn + "." + st.Field(i).Name()
			r.Site(1)
			if why, ex := migrationUnset[f]; ex {
				r.Ok("sets:"+fname+":"+f, fd.Pos(), "not set by design: %s", why)
				continue
			}
			r.Check(setF[f], "sets:"+fname+":"+f, fd.Pos(), "current-schema field is set", fmt.Sprintf("%s never sets %s in the metadata it builds: the migrated metadata has the zero value there", fname, f))
		}
	}
	if len(vn) == 0 || len(bn) == 0 {
		r.Undecided("anchor:"+fname, fd.Pos(), "%s visits %d legacy struct types and builds %d current ones; the rule expects both to be non-zero", fname, len(vn), len(bn))
	}
}

// ---------------------------------------------------------------- refuse-unchanged

// tables whose mutators are in scope: a function is in scope when it (or a
// helper it calls) writes one of these fields of the schema structs.
var c13ScopedFields = map[string]bool{
	"Roles": true, "Delegations": true, "Principals": true, "Keys": true,
	"PrincipalIDs": true, "KeyIDs": true, "Threshold": true,
	"Paths": true, "Terminating": true, "Role": true, "Name": true,
}

type mutation struct {
	in    ssa.Instruction
	what  string
	field string
	call  *Call // when the mutation is a call to a mutating helper
}

// reachesRecv: the value is (or is loaded through) the method receiver.
func reachesRecv(v ssa.Value, recv *ssa.Parameter, depth int) bool {
	if v == nil || depth > 12 {
		return false
	}
	v = eng.Strip(v)
	switch x := v.(type) {
	case *ssa.Parameter:
		return x == recv
	case *ssa.FieldAddr:
		return reachesRecv(x.X, recv, depth+1)
	case *ssa.Field:
		return reachesRecv(x.X, recv, depth+1)
	case *ssa.IndexAddr:
		return reachesRecv(x.X, recv, depth+1)
	case *ssa.Index:
		return reachesRecv(x.X, recv, depth+1)
	case *ssa.Lookup:
		return reachesRecv(x.X, recv, depth+1)
	case *ssa.Slice:
		return reachesRecv(x.X, recv, depth+1)
	case *ssa.UnOp:
		if x.Op == token.MUL {
			if al, ok := x.X.(*ssa.Alloc); ok {
				for _, st := range eng.StoresToAlloc(al) {
					if reachesRecv(st.Val, recv, depth+1) {
						return true
					}
				}
				return false
			}
			return reachesRecv(x.X, recv, depth+1)
		}
	case *ssa.Alloc:
		// a local copy of a struct loaded from the receiver shares its pointers (role := r.Roles[x])
		for _, st := range eng.StoresToAlloc(x) {
			if reachesRecv(st.Val, recv, depth+1) {
				return true
			}
		}
	case *ssa.Phi:
		for _, e := range x.Edges {
			if reachesRecv(e, recv, depth+1) {
				return true
			}
		}
	case *ssa.Extract:
		switch t := x.Tuple.(type) {
		case *ssa.Next:
			if rg, ok := t.Iter.(*ssa.Range); ok {
				return reachesRecv(rg.X, recv, depth+1)
			}
		case *ssa.Lookup:
			return reachesRecv(t.X, recv, depth+1)
		}
	case *ssa.Call:
		// getters returning shared pointers (GetPrincipalIDs)
		k := Call{Fn: x.Parent(), Instr: x, Callee: eng.CalleeOf(x)}
		if rv := k.Recv(); rv != nil && strings.HasPrefix(k.Method(), "Get") {
			return reachesRecv(rv, recv, depth+1)
		}
	}
	return false
}

// isLazyInit: `if x.F == nil { x.F = <empty> }`.
func isLazyInit(st *ssa.Store) bool {
	empty := false
	switch v := eng.Strip(st.Val).(type) {
	case *ssa.MakeMap:
		empty = true
	case *ssa.Slice:
		empty = isEmptySlice(v)
	case *ssa.Alloc:
		// &T{} with no or only empty-collection fields
		empty = true
		for _, sv := range allocStores(v) {
			if !isEmptySlice(sv) {
				if _, isMk := eng.Strip(sv).(*ssa.MakeMap); !isMk {
					empty = false
				}
			}
		}
	}
	if !empty {
		return false
	}
	for _, g := range eng.GuardsAt(st.Block()) {
		b, ok := g.Cond.(*ssa.BinOp)
		if !ok || !((b.Op == token.EQL && g.Pol) || (b.Op == token.NEQ && !g.Pol)) {
			continue
		}
		var x ssa.Value
		switch {
		case eng.IsNilConst(b.Y):
			x = b.X
		case eng.IsNilConst(b.X):
			x = b.Y
		default:
			continue
		}
		if u, ok := eng.Strip(x).(*ssa.UnOp); ok && u.Op == token.MUL && samePath(u.X, st.Addr) {
			return true
		}
	}
	return false
}

func addrField(a ssa.Value) string {
	for {
		switch x := a.(type) {
		case *ssa.FieldAddr:
			return fieldNameOf(x)
		case *ssa.IndexAddr:
			a = x.X
		default:
			return ""
		}
	}
}

// lastFieldOnPath: the innermost named field through which v is reached.
func lastFieldOnPath(v ssa.Value, depth int) string {
	if v == nil || depth > 8 {
		return ""
	}
	v = eng.Strip(v)
	switch x := v.(type) {
	case *ssa.FieldAddr:
		return fieldNameOf(x)
	case *ssa.Field:
		f, _, _ := eng.FieldLoad(x)
		return f
	case *ssa.UnOp:
		if al, ok := x.X.(*ssa.Alloc); ok {
			for _, st := range eng.StoresToAlloc(al) {
				if f := lastFieldOnPath(st.Val, depth+1); f != "" {
					return f
				}
			}
			return ""
		}
		return lastFieldOnPath(x.X, depth+1)
	case *ssa.IndexAddr:
		return lastFieldOnPath(x.X, depth+1)
	case *ssa.Lookup:
		return lastFieldOnPath(x.X, depth+1)
	case *ssa.Alloc:
		for _, st := range eng.StoresToAlloc(x) {
			if f := lastFieldOnPath(st.Val, depth+1); f != "" {
				return f
			}
		}
	case *ssa.Extract:
		if lk, ok := x.Tuple.(*ssa.Lookup); ok {
			return lastFieldOnPath(lk.X, depth+1)
		}
		if nx, ok := x.Tuple.(*ssa.Next); ok {
			if rg, ok := nx.Iter.(*ssa.Range); ok {
				return lastFieldOnPath(rg.X, depth+1)
			}
		}
	case *ssa.Call:
		k := Call{Fn: x.Parent(), Instr: x, Callee: eng.CalleeOf(x)}
		if m := k.Method(); strings.HasPrefix(m, "Get") {
			return strings.TrimPrefix(m, "Get")
		}
	}
	return ""
}

var setMutators = map[string]bool{"Add": true, "Remove": true, "Extend": true}

// directMutations lists the instructions of fn that write receiver-reachable memory.
func directMutations(fn *ssa.Function) []mutation {
	if len(fn.Params) == 0 || fn.Signature.Recv() == nil {
		return nil
	}
	recv := fn.Params[0]
	var out []mutation
	for _, b := range fn.Blocks {
		for _, in := range b.Instrs {
			switch x := in.(type) {
			case *ssa.Store:
				if _, isAl := x.Addr.(*ssa.Alloc); isAl {
					continue
				}
				if addrIsLocal(x.Addr) && !reachesRecv(x.Addr, recv, 0) {
					continue
				}
				if !reachesRecv(x.Addr, recv, 0) {
					continue
				}
				// a store into a local struct copy is not a write to the metadata
				if base := baseAlloc(x.Addr); base != nil {
					continue
				}
				if isLazyInit(x) {
					continue
				}
				out = append(out, mutation{in: in, what: "store", field: addrField(x.Addr)})
			case *ssa.MapUpdate:
				if reachesRecv(x.Map, recv, 0) {
					out = append(out, mutation{in: in, what: "map update", field: lastFieldOnPath(x.Map, 0)})
				}
			case *ssa.Call:
				k := Call{Fn: fn, Instr: x, Callee: eng.CalleeOf(x)}
				if bi, ok := x.Call.Value.(*ssa.Builtin); ok && bi.Name() == "delete" {
					if reachesRecv(x.Call.Args[0], recv, 0) {
						out = append(out, mutation{in: in, what: "delete", field: lastFieldOnPath(x.Call.Args[0], 0)})
					}
					continue
				}
				if k.RecvTypeName() == "Set" && setMutators[k.Method()] {
					if rv := k.Recv(); rv != nil && reachesRecv(rv, recv, 0) {
						out = append(out, mutation{in: in, what: "set." + k.Method(), field: lastFieldOnPath(rv, 0)})
					}
				}
			}
		}
	}
	return out
}

// baseAlloc: the address is a field/element of a local variable (not through a pointer load).
func baseAlloc(a ssa.Value) *ssa.Alloc {
	for {
		switch x := a.(type) {
		case *ssa.Alloc:
			return x
		case *ssa.FieldAddr:
			a = x.X
		case *ssa.IndexAddr:
			if _, isPtrToArr := x.X.Type().Underlying().(*types.Pointer); isPtrToArr {
				a = x.X
			} else {
				return nil
			}
		default:
			return nil
		}
	}
}

func c13RefuseUnchanged(c *Ctx, r *R) {
	// candidate functions: methods of the schema structs
	var fns []*ssa.Function
	c.ModuleFuncs(func(fn *ssa.Function) {
		if fn.Pkg == nil || !inTufSchemaPkg(fn.Pkg.Pkg) || fn.Signature.Recv() == nil || fn.Parent() != nil {
			return
		}
		n := namedOf(fn.Signature.Recv().Type())
		if n == nil {
			return
		}
		if fn.Name() == "UnmarshalJSON" {
			return // decoding fills a fresh object that the caller discards on error; it is not an edit
		}
		switch n.Obj().Name() {
		case "TargetsMetadata", "RootMetadata", "Delegations":
			fns = append(fns, fn)
		}
	})
	direct := map[*ssa.Function][]mutation{}
	for _, fn := range fns {
		direct[fn] = directMutations(fn)
	}
	// helper summaries (one level is enough on this code; computed to a fixpoint anyway)
	mutates := map[*ssa.Function]map[string]bool{}
	for _, fn := range fns {
		mutates[fn] = map[string]bool{}
		for _, m := range direct[fn] {
			mutates[fn][m.field] = true
		}
	}
	byObj := map[*types.Func]*ssa.Function{}
	for _, fn := range fns {
		if o, ok := fn.Object().(*types.Func); ok {
			byObj[o] = fn
		}
	}
	helperCalls := func(fn *ssa.Function) []Call {
		var out []Call
		recv := fn.Params[0]
		for _, k := range eng.Calls(fn, false) {
			if k.Callee == nil {
				continue
			}
			callee := byObj[k.Callee]
			if callee == nil || callee == fn {
				continue
			}
			if rv := k.Recv(); rv != nil && reachesRecv(rv, recv, 0) {
				out = append(out, k)
			}
		}
		return out
	}
	for changed := true; changed; {
		changed = false
		for _, fn := range fns {
			for _, k := range helperCalls(fn) {
				for f := range mutates[byObj[k.Callee]] {
					if !mutates[fn][f] {
						mutates[fn][f] = true
						changed = true
					}
				}
			}
		}
	}
	sort.Slice(fns, func(i, j int) bool { return fname(fns[i]) < fname(fns[j]) })
	for _, fn := range fns {
		if !eng.IsErrorType(lastResult(fn)) {
			continue
		}
		scoped := false
		for f := range mutates[fn] {
			if c13ScopedFields[f] {
				scoped = true
			}
		}
		if !scoped {
			continue
		}
		r.Site(1)
		r.Funcs[fname(fn)] = true
		muts := append([]mutation(nil), direct[fn]...)
		for _, k := range helperCalls(fn) {
			if len(mutates[byObj[k.Callee]]) > 0 {
				kk := k
				muts = append(muts, mutation{in: k.Instr.(ssa.Instruction), what: "call to " + k.Method(), call: &kk})
			}
		}
		key := "no-error-after-write:" + fname(fn)
		bad := false
		for _, m := range muts {
			target := func(in ssa.Instruction) bool {
				ret, ok := in.(*ssa.Return)
				if !ok {
					return false
				}
				ev := eng.RetErr(ret)
				if eng.ClassifyErr(ev, ret.Block()) == eng.ErrNil {
					return false
				}
				if m.call != nil {
					// the helper's own error: attributed to the helper (checked on its own)
					if hv, has := m.call.ErrResult(); has && hv != nil {
						all := true
						for _, root := range eng.Roots(ev) {
							if root != hv && !eng.IsNilConst(root) {
								all = false
							}
						}
						if all {
							return false
						}
					}
				}
				return true
			}
			b, i := eng.After(m.in)
			if p := eng.FindPath(b, i, target, nil); p != nil {
				bad = true
				r.Bad(key, pos(m.in), "%s can return an error after it has already changed the metadata (%s at %s, then the error return at %s): a refused edit leaves the metadata modified; witness: %s", fname(fn), m.what, c.Rel(pos(m.in)), c.Rel(pos(p.Target)), c.DescribePath(p))
				break
			}
		}
		if !bad {
			r.Ok(key, fn.Pos(), "%d write(s) / mutating helper call(s); none is followed by an error return", len(muts))
		}
	}
}

func lastResult(fn *ssa.Function) types.Type {
	rs := fn.Signature.Results()
	if rs.Len() == 0 {
		return nil
	}
	return rs.At(rs.Len() - 1).Type()
}
