package rules

import (
	"fmt"
	"go/ast"
	"go/parser"
	"go/token"
	"path/filepath"
	"sort"
	"strconv"
	"strings"

	"golang.org/x/tools/go/ssa"

	"verif/checker/eng"
)

func init() {
	Meta["C20"] = PropMeta{
		Explanation: "Static over-approximation of what a hook script's environment can contain, computed on every run from gittuf's sandbox setup AND the pinned gopher-lua source in the module cache: the interpreter is created without default libraries and only the six pure libraries are opened; the set G of names those libraries register is extracted from gopher-lua's own tables; every name of G is classified in a frozen table as capability (filesystem, process, environment, code loading, metatable, raw access, GC, unbounded allocation) or closed (hands out / accepts only values already reachable) — an unclassified name (library upgrade) is undecided; every capability name must be set to nil by a constant SetGlobal / RawSetString in enableOnlySafeFunctions, which runs before the APIs are registered and before any user script; the retained library tables are made read-only; the registered API names equal each implementation's name and no Go API implementation reaches a reference mutator or a process/network/file-writing call; the timeout is bound to the interpreter's context on every path that returns a usable environment, from the hook's own timeout; a script result that is not a number yields a non-zero code; hooks run are those of the applied policy whose principal set contains the principal owning the signer's key. The run-time reachability closure of the Lua environment graph and the wall-clock bound for time spent inside Go library calls (gopher-lua polls the context only between VM instructions) are NOT decided.",
		Decides:     []string{"libraries opened", "capability names of the opened libraries are all disabled (table extracted from gopher-lua)", "library tables protected", "API name/implementation agreement and effect-freedom of Go APIs", "timeout binding and hook timeout flow", "non-number result → failure", "hook selection by principal from the applied policy"},
		NotDecided:  []string{"reachability closure at run time (metatables/upvalues/function environments)", "wall-clock bound for scripts that spend time inside library calls", "behaviour of concrete escape scripts"},
		Assumptions: []string{"the classification of gopher-lua names in rules/c20.go (one reason per name) is correct", "gopher-lua's library tables are the map literals and constant SetGlobal/RawSetString/SetField calls in its Open* functions"},
	}
	reg(&eng.Rule{ID: "C20.libs-opened", Prop: "C20", Floor: 3,
		Doc: "lua.NewState is called with Options{SkipOpenLibs: true}; the openers used by NewLuaEnvironment ⊆ {OpenPackage, OpenBase, OpenTable, OpenString, OpenMath, OpenCoroutine}; OpenOs/OpenIo/OpenDebug/OpenChannel/OpenLibs are not referenced anywhere in the package.",
		Run: c20LibsOpened})
	reg(&eng.Rule{ID: "C20.name-table", Prop: "C20", Floor: 60,
		Doc: "For every name registered by the opened gopher-lua libraries (extracted from the pinned source): it is classified; if classified 'capability' it is set to nil by a constant SetGlobal / RawSetString in enableOnlySafeFunctions; enableOnlySafeFunctions runs before registerAPIFunctions and before RunScript can execute user code.",
		Run: c20NameTable})
	reg(&eng.Rule{ID: "C20.tables-protected", Prop: "C20", Floor: 5,
		Doc: "protectModule is applied to the string, math, coroutine and table library tables and installs both __newindex (raising) and __metatable.",
		Run: c20TablesProtected})
	reg(&eng.Rule{ID: "C20.api-set", Prop: "C20", Floor: 13,
		Doc: "The keys of the registered API map equal the Name of the implementation built by the same-named constructor; no Go API implementation reaches a reference mutator, os/exec, net or file-writing call; Lua-implemented APIs contain none of the capability names.",
		Run: c20APISet})
	reg(&eng.Rule{ID: "C20.timeout-bound", Prop: "C20", Floor: 6,
		Doc: "setTimeOut is called on every path of NewLuaEnvironment that returns an environment, with the option value when non-zero else LuaTimeOut; it binds context.WithTimeout(ctx, timeOut*time.Second) through LState.SetContext; executeHook passes hook.GetTimeout() and defers Cleanup; AddHook/UpdateHook reject timeouts below 1.",
		Run: c20Timeout})
	reg(&eng.Rule{ID: "C20.exit-code", Prop: "C20", Floor: 2,
		Doc: "Every nil-error return of RunScript returns either an integer derived from a value whose lua.LNumber type assertion succeeded, or a non-zero constant.",
		Run: c20ExitCode})
	reg(&eng.Rule{ID: "C20.hook-selection", Prop: "C20", Floor: 5,
		Doc: "InvokeHooksForStage loads LoadCurrentState(ctx, repo, PolicyRef) without options; hooks reach executeHook only from appends guarded by hook.GetPrincipalIDs().Has(selectedPrincipal.ID()); selectedPrincipal is found by matching the signer's KeyID against state.GetAllPrincipals(); no match → ErrPrincipalNotFound.",
		Run: c20HookSelection})
}

const luaPkg = "github.com/yuin/gopher-lua"

// c20Class is the frozen classification of names gopher-lua's pure libraries
// register. "cap:<why>" must be disabled; "closed:<why>" may stay.
var c20Class = map[string]string{
	// ---- globals (base library, registered into the global table)
	"_G":                  "cap:handle on the global table under a well-known name (sandbox escape recipes start here)",
	"_VERSION":            "closed:string constant",
	"_GOPHER_LUA_VERSION": "closed:string constant",
	"assert":              "closed:raises or returns its arguments",
	"collectgarbage":      "cap:controls the host's garbage collector",
	"dofile":              "cap:reads and executes a file",
	"error":               "closed:raises",
	"getfenv":             "closed:returns a function environment, which is the already-filtered global table",
	"getmetatable":        "cap:metatable access (string metatable, protected tables)",
	"load":                "cap:code loading",
	"loadfile":            "cap:reads and compiles a file",
	"loadstring":          "cap:code loading",
	"next":                "closed:table traversal",
	"pcall":               "closed:protected call of a reachable function",
	"print":               "closed:writes to stdout only",
	"rawequal":            "cap:raw access (bypasses metamethods)",
	"rawget":              "cap:raw access (bypasses __index / protection)",
	"rawset":              "cap:raw access (bypasses __newindex protection of library tables)",
	"select":              "closed:argument selection",
	"_printregs":          "closed:debug print of VM registers to stdout",
	"setfenv":             "closed:replaces a function environment with a reachable table",
	"setmetatable":        "cap:metatable manipulation",
	"tonumber":            "closed:conversion",
	"tostring":            "closed:conversion (calls __tostring of reachable values)",
	"type":                "closed:type name",
	"unpack":              "closed:table to values",
	"xpcall":              "closed:protected call",
	"module":              "cap:module system (creates globals, package.loaded)",
	"require":             "cap:module loading from the filesystem",
	"newproxy":            "closed:creates an empty userdata; its metatable is unreachable without getmetatable",
	"ipairs":              "closed:iteration",
	"pairs":               "closed:iteration",
	// ---- library tables as globals
	"package":   "cap:module search paths / loaders / loadlib",
	"string":    "closed:pure string functions (members classified below)",
	"math":      "closed:pure math functions (members classified below)",
	"table":     "closed:pure table functions",
	"coroutine": "closed:coroutines over reachable functions",
	"os":        "cap:process / environment / filesystem",
	"io":        "cap:file I/O",
	"debug":     "cap:introspection of the VM",
	"channel":   "cap:go channels",
	// ---- string members
	"string.byte": "closed:", "string.char": "closed:", "string.find": "closed:", "string.format": "closed:", "string.gsub": "closed:",
	"string.len": "closed:", "string.lower": "closed:", "string.match": "closed:", "string.reverse": "closed:", "string.sub": "closed:",
	"string.upper": "closed:", "string.gmatch": "closed:", "string.gfind": "closed:", "string.__index": "closed:self reference used as string metatable",
	"string.rep":  "cap:allocates count×len bytes in one call",
	"string.dump": "cap:serialises function implementations",
	// ---- math members
	"math.abs": "closed:", "math.acos": "closed:", "math.asin": "closed:", "math.atan": "closed:", "math.atan2": "closed:", "math.ceil": "closed:",
	"math.cos": "closed:", "math.cosh": "closed:", "math.deg": "closed:", "math.exp": "closed:", "math.floor": "closed:", "math.fmod": "closed:",
	"math.frexp": "closed:", "math.ldexp": "closed:", "math.log": "closed:", "math.log10": "closed:", "math.max": "closed:", "math.min": "closed:",
	"math.mod": "closed:", "math.modf": "closed:", "math.pow": "closed:", "math.rad": "closed:", "math.random": "closed:draws from the shared generator",
	"math.sin": "closed:", "math.sinh": "closed:", "math.sqrt": "closed:", "math.tan": "closed:", "math.tanh": "closed:", "math.pi": "closed:", "math.huge": "closed:",
	"math.randomseed": "cap:reseeds the process-wide generator",
	// ---- table members
	"table.getn": "closed:", "table.concat": "closed:", "table.insert": "closed:", "table.maxn": "closed:", "table.remove": "closed:", "table.sort": "closed:",
	// ---- coroutine members
	"coroutine.create": "closed:", "coroutine.yield": "closed:", "coroutine.resume": "closed:", "coroutine.running": "closed:", "coroutine.status": "closed:", "coroutine.wrap": "closed:",
	// ---- package members (whole table is disabled)
	"package.loadlib": "cap:loads native code", "package.seeall": "cap:sets metatable with __index = _G",
	"package.preload": "cap:", "package.loaders": "cap:", "package.loaded": "cap:", "package.path": "cap:", "package.cpath": "cap:", "package.config": "cap:",
}

var c20Openers = map[string]struct{ file, table, funcs string }{
	"OpenPackage":   {"loadlib.go", "package", "loFuncs"},
	"OpenBase":      {"baselib.go", "", "baseFuncs"},
	"OpenTable":     {"tablelib.go", "table", "tableFuncs"},
	"OpenString":    {"stringlib.go", "string", "strFuncs"},
	"OpenMath":      {"mathlib.go", "math", "mathFuncs"},
	"OpenCoroutine": {"coroutinelib.go", "coroutine", "coFuncs"},
}

// luaLibNames extracts from gopher-lua's source the names an opener registers.
func luaLibNames(c *Ctx, opener string) (names []string, err error) {
	p := c.All[luaPkg]
	if p == nil || len(p.GoFiles) == 0 {
		return nil, fmt.Errorf("package %s not loaded", luaPkg)
	}
	dir := filepath.Dir(p.GoFiles[0])
	info, ok := c20Openers[opener]
	if !ok {
		return nil, fmt.Errorf("opener %s not in the table", opener)
	}
	fset := token.NewFileSet()
	f, perr := parser.ParseFile(fset, filepath.Join(dir, info.file), nil, 0)
	if perr != nil {
		return nil, perr
	}
	prefix := ""
	if info.table != "" {
		prefix = info.table + "."
		names = append(names, info.table)
	}
	found := false
	for _, d := range f.Decls {
		switch x := d.(type) {
		case *ast.GenDecl:
			for _, sp := range x.Specs {
				vs, ok := sp.(*ast.ValueSpec)
				if !ok || len(vs.Names) != 1 || vs.Names[0].Name != info.funcs || len(vs.Values) != 1 {
					continue
				}
				cl, ok := vs.Values[0].(*ast.CompositeLit)
				if !ok {
					continue
				}
				found = true
				for _, e := range cl.Elts {
					kv := e.(*ast.KeyValueExpr)
					if bl, ok := kv.Key.(*ast.BasicLit); ok {
						s, _ := strconv.Unquote(bl.Value)
						names = append(names, prefix+s)
					}
				}
			}
		case *ast.FuncDecl:
			if x.Name.Name != opener {
				continue
			}
			ast.Inspect(x.Body, func(n ast.Node) bool {
				call, ok := n.(*ast.CallExpr)
				if !ok {
					return true
				}
				sel, ok := call.Fun.(*ast.SelectorExpr)
				if !ok {
					return true
				}
				argIdx := -1
				switch sel.Sel.Name {
				case "SetGlobal", "RawSetString":
					argIdx = 0
				case "SetField":
					argIdx = 1
				}
				if argIdx < 0 || len(call.Args) <= argIdx {
					return true
				}
				bl, ok := call.Args[argIdx].(*ast.BasicLit)
				if !ok {
					return true
				}
				s, _ := strconv.Unquote(bl.Value)
				if strings.HasPrefix(s, "_LOAD") { // registry fields, not reachable from scripts
					return true
				}
				if sel.Sel.Name == "SetGlobal" || (opener == "OpenBase" && sel.Sel.Name == "RawSetString") {
					names = append(names, s)
				} else {
					names = append(names, prefix+s)
				}
				return true
			})
		}
	}
	if !found {
		return nil, fmt.Errorf("table %s not found in %s (gopher-lua layout changed)", info.funcs, info.file)
	}
	sort.Strings(names)
	return names, nil
}

func c20LibsOpened(c *Ctx, r *R) {
	fn := r.Fn("internal/luasandbox.NewLuaEnvironment")
	if fn == nil {
		return
	}
	ns := eng.CallsTo(fn, false, luaPkg+".NewState")
	if k, ok := oneCall(r, "new-state", fn, ns, "lua.NewState"); ok {
		r.Site(1)
		okS := false
		for _, e := range eng.VariadicElems(k.Arg(0)) {
			for _, root := range eng.Roots(e) {
				al, isAl := root.(*ssa.Alloc)
				if u, isU := root.(*ssa.UnOp); isU && !isAl {
					al, isAl = u.X.(*ssa.Alloc)
				}
				if isAl {
					if v, has := allocStores(al)["SkipOpenLibs"]; has {
						if b, isC := eng.ConstBool(v); isC && b {
							okS = true
						}
					}
				}
			}
		}
		r.Check(okS, "skip-open-libs", k.Pos(), "lua.NewState(Options{SkipOpenLibs: true})", "the interpreter is not created with SkipOpenLibs: true — os, io, debug and channel libraries would be opened")
	}
	allowed := map[string]bool{}
	for o := range c20Openers {
		allowed[o] = true
	}
	used := map[string]bool{}
	sp := c.SSA[eng.Module+"/internal/luasandbox"]
	c.ModuleFuncs(func(f *ssa.Function) {
		if f.Pkg != sp {
			return
		}
		for _, b := range f.Blocks {
			for _, in := range b.Instrs {
				for _, op := range in.Operands(nil) {
					if op == nil || *op == nil {
						continue
					}
					if fv, ok := (*op).(*ssa.Function); ok && fv.Pkg != nil && fv.Pkg.Pkg.Path() == luaPkg && strings.HasPrefix(fv.Name(), "Open") {
						used[fv.Name()] = true
					}
				}
			}
		}
	})
	names := make([]string, 0, len(used))
	for n := range used {
		names = append(names, n)
	}
	sort.Strings(names)
	for _, n := range names {
		r.Site(1)
		r.Check(allowed[n], "opener:"+n, fn.Pos(), "lua."+n+" is one of the six pure libraries", "the sandbox references lua."+n+", which is not one of the allowed pure libraries (package, base, table, string, math, coroutine)")
	}
	r.Check(len(names) >= 5, "openers-found", fn.Pos(), fmt.Sprintf("%d library openers referenced", len(names)), "fewer library openers than on the reference tree (anchor changed)")
}

// disabledNames collects the names set to LNil in enableOnlySafeFunctions.
func disabledNames(c *Ctx, r *R) map[string]bool {
	fn := r.Fn("(*internal/luasandbox.LuaEnvironment).enableOnlySafeFunctions")
	out := map[string]bool{}
	if fn == nil {
		return out
	}
	isNil := func(v ssa.Value) bool {
		for _, root := range eng.Roots(v) {
			if g := eng.GlobalLoad(root); g != nil && g.Name() == "LNil" {
				return true
			}
			if mi, ok := root.(*ssa.MakeInterface); ok {
				if g := eng.GlobalLoad(mi.X); g != nil && g.Name() == "LNil" {
					return true
				}
			}
		}
		// MakeInterface(load LNil)
		if mi, ok := v.(*ssa.MakeInterface); ok {
			if g := eng.GlobalLoad(mi.X); g != nil && g.Name() == "LNil" {
				return true
			}
		}
		return false
	}
	for _, k := range eng.Calls(fn, false) {
		switch k.Method() {
		case "SetGlobal":
			if s, ok := eng.ConstString(k.Arg(0)); ok && isNil(k.Arg(1)) {
				out[s] = true
			}
		case "RawSetString":
			if s, ok := eng.ConstString(k.Arg(0)); ok && isNil(k.Arg(1)) {
				// which table: receiver comes from GetGlobal(<const>)
				tbl := ""
				for _, root := range eng.Roots(k.Recv()) {
					if g, _, isCall := eng.RootCall(root); isCall && g.Method() == "GetGlobal" {
						tbl, _ = eng.ConstString(g.Arg(0))
					}
				}
				if tbl != "" {
					out[tbl+"."+s] = true
				}
			}
		}
	}
	return out
}

func c20NameTable(c *Ctx, r *R) {
	dis := disabledNames(c, r)
	opened := []string{}
	if fn := r.Fn("internal/luasandbox.NewLuaEnvironment"); fn != nil {
		sp := c.SSA[eng.Module+"/internal/luasandbox"]
		seen := map[string]bool{}
		c.ModuleFuncs(func(f *ssa.Function) {
			if f.Pkg != sp {
				return
			}
			for _, b := range f.Blocks {
				for _, in := range b.Instrs {
					for _, op := range in.Operands(nil) {
						if op == nil || *op == nil {
							continue
						}
						if fv, ok := (*op).(*ssa.Function); ok && fv.Pkg != nil && fv.Pkg.Pkg.Path() == luaPkg && strings.HasPrefix(fv.Name(), "Open") && !seen[fv.Name()] {
							seen[fv.Name()] = true
							opened = append(opened, fv.Name())
						}
					}
				}
			}
		})
	}
	sort.Strings(opened)
	total := 0
	for _, o := range opened {
		names, err := luaLibNames(c, o)
		if err != nil {
			r.Undecided("extract:"+o, token.NoPos, "cannot extract the names registered by lua.%s: %v", o, err)
			continue
		}
		for _, n := range names {
			total++
			r.Site(1)
			cls, known := c20Class[n]
			key := "name:" + n
			// members of a table that is itself removed are unreachable
			parentRemoved := false
			if i := strings.Index(n, "."); i > 0 && dis[n[:i]] {
				parentRemoved = true
			}
			switch {
			case !known:
				r.Undecided(key, token.NoPos, "gopher-lua registers %q (lua.%s) which the checker's classification table does not know: classify it as capability or closed in rules/c20.go", n, o)
			case strings.HasPrefix(cls, "cap:"):
				if dis[n] || parentRemoved {
					r.Ok(key, token.NoPos, "capability (%s) — disabled", strings.TrimPrefix(cls, "cap:"))
				} else {
					r.Bad(key, token.NoPos, "%q is reachable from hook scripts: gopher-lua's %s registers it, it is a capability (%s), and enableOnlySafeFunctions does not set it to nil", n, o, strings.TrimPrefix(cls, "cap:"))
				}
			default:
				r.Ok(key, token.NoPos, "closed")
			}
		}
	}
	r.Check(total >= 90, "names-extracted", token.NoPos, fmt.Sprintf("%d names extracted from gopher-lua's library tables", total), fmt.Sprintf("only %d names extracted from gopher-lua (expected ≥ 90): extraction is broken", total))
	// ordering: enableOnlySafeFunctions before registerAPIFunctions; both before returning the environment
	if fn := r.Fn("internal/luasandbox.NewLuaEnvironment"); fn != nil {
		en := eng.CallsTo(fn, false, "(*internal/luasandbox.LuaEnvironment).enableOnlySafeFunctions")
		rg := eng.CallsTo(fn, false, "(*internal/luasandbox.LuaEnvironment).registerAPIFunctions")
		if len(en) == 1 && len(rg) == 1 {
			mustPass(c, r, "disable-before-apis", fn, isInstr(rg[0].Instr), eng.NewCut().AddInstrs(en[0].Instr), "unsafe names are removed before the APIs are registered", "registerAPIFunctions can run before enableOnlySafeFunctions")
			mustPass(c, r, "disable-before-use", fn, func(in ssa.Instruction) bool {
				ret, ok := in.(*ssa.Return)
				return ok && !eng.IsNilConst(ret.Results[0])
			}, eng.NewCut().AddInstrs(en[0].Instr), "an environment is returned only after unsafe names were removed", "NewLuaEnvironment can return an environment without having removed the unsafe names")
			// libraries are opened before disabling (otherwise a later open would re-add names)
			for _, k := range eng.Calls(fn, false) {
				if k.Method() == "CallByParam" {
					mustPassFrom(c, r, "open-before-disable", en[0].Instr, isInstr(k.Instr), nil, "no library is opened after the unsafe names were removed", "a library can be opened after enableOnlySafeFunctions (its names come back)")
				}
			}
		} else {
			r.Bad("disable-before-apis", fn.Pos(), "NewLuaEnvironment does not call enableOnlySafeFunctions / registerAPIFunctions exactly once")
		}
	}
	// user code runs only through RunScript on an environment from NewLuaEnvironment
	sp := c.SSA[eng.Module+"/internal/luasandbox"]
	c.ModuleFuncs(func(f *ssa.Function) {
		for _, k := range eng.Calls(f, false) {
			if k.Name() == "(*"+luaPkg+".LState).DoString" || k.Name() == "(*"+luaPkg+".LState).DoFile" {
				n := fname(rootFn(f))
				okS := f.Pkg == sp && (n == "(*internal/luasandbox.LuaEnvironment).RunScript" || n == "(*internal/luasandbox.LuaEnvironment).registerAPIFunctions")
				r.Check(okS, "script-entry:"+n, k.Pos(), "Lua code is executed only by RunScript / API registration", n+" executes Lua code outside the sandbox entry points")
			}
			if k.Name() == luaPkg+".NewState" {
				n := fname(rootFn(f))
				r.Check(n == "internal/luasandbox.NewLuaEnvironment", "state-creator:"+n, k.Pos(), "interpreters are created only by NewLuaEnvironment", n+" creates a Lua interpreter outside the sandbox")
			}
		}
	})
}

func c20TablesProtected(c *Ctx, r *R) {
	fn := r.Fn("(*internal/luasandbox.LuaEnvironment).enableOnlySafeFunctions")
	if fn == nil {
		return
	}
	prot := map[string]bool{}
	for _, k := range eng.CallsTo(fn, false, "(*internal/luasandbox.LuaEnvironment).protectModule") {
		for _, root := range eng.Roots(k.Arg(0)) {
			if g, _, isCall := eng.RootCall(root); isCall && g.Method() == "GetGlobal" {
				if s, ok := eng.ConstString(g.Arg(0)); ok {
					prot[s] = true
				}
			}
		}
	}
	for _, t := range []string{"string", "math", "coroutine", "table"} {
		r.Site(1)
		r.Check(prot[t], "protected:"+t, fn.Pos(), "library table "+t+" is made read-only", "library table '"+t+"' is not passed to protectModule: scripts can replace its functions for later hooks in the same state")
	}
	if pm := r.Fn("(*internal/luasandbox.LuaEnvironment).protectModule"); pm != nil {
		fields := map[string]bool{}
		for _, k := range eng.Calls(pm, false) {
			if k.Method() == "SetField" {
				if s, ok := eng.ConstString(k.Arg(1)); ok {
					fields[s] = true
				}
			}
		}
		r.Check(fields["__newindex"] && fields["__metatable"], "metatable-shape", pm.Pos(), "__newindex and __metatable installed", "protectModule no longer installs both __newindex and __metatable")
		setmt := false
		for _, k := range eng.Calls(pm, false) {
			if k.Method() == "SetMetatable" && eng.PParam("tbl")(k.Arg(0)) {
				setmt = true
			}
		}
		r.Check(setmt, "metatable-installed", pm.Pos(), "the metatable is installed on the module table", "protectModule does not install the metatable on the table it was given")
		// __newindex handler raises
		raises := false
		for _, an := range pm.AnonFuncs {
			for _, k := range eng.Calls(an, false) {
				if k.Method() == "RaiseError" {
					raises = true
				}
			}
		}
		r.Check(raises, "newindex-raises", pm.Pos(), "__newindex raises an error", "the __newindex handler no longer raises")
	}
}

func c20APISet(c *Ctx, r *R) {
	fn := r.Fn("(*internal/luasandbox.LuaEnvironment).registerAPIFunctions")
	if fn == nil {
		return
	}
	// map literal: key constant → value = call to l.api<X>()
	n := 0
	var apiCtors []*ssa.Function
	for _, b := range fn.Blocks {
		for _, in := range b.Instrs {
			mu, ok := in.(*ssa.MapUpdate)
			if !ok {
				continue
			}
			key, isC := eng.ConstString(mu.Key)
			if !isC {
				continue
			}
			k, _, isCall := eng.RootCall(eng.Roots(mu.Value)[0])
			if !isCall {
				continue
			}
			n++
			r.Site(1)
			ctor := k.Instr.Common().StaticCallee()
			if ctor == nil {
				r.Undecided("api:"+key, mu.Pos(), "API constructor not static")
				continue
			}
			apiCtors = append(apiCtors, ctor)
			// the constructor stores Name: <const>
			nameOK := false
			for _, al := range append(allocsOf(ctor, "GoAPI"), allocsOf(ctor, "LuaAPI")...) {
				if v, has := allocStores(al)["Name"]; has {
					if s, ok := eng.ConstString(v); ok && s == key {
						nameOK = true
					}
				}
			}
			r.Check(nameOK, "api-name:"+key, mu.Pos(), "registered name equals the implementation's Name", "API registered as "+key+" but its implementation declares a different Name")
		}
	}
	r.Check(n >= 12, "api-count", fn.Pos(), fmt.Sprintf("%d APIs registered", n), "fewer than 12 registered APIs found (anchor changed)")
	// the run-time check also exists
	ne := eng.RelEdges(fn, token.NEQ, eng.PAny(), eng.PMethod("GetName", nil))
	okR := len(ne) > 0
	for _, e := range ne {
		if p := eng.LeadsOnlyToErr(e, "ErrMismatchedAPINames"); p != nil {
			okR = false
		}
	}
	r.Check(okR, "api-name-runtime-check", fn.Pos(), "name mismatch → ErrMismatchedAPINames", "the run-time name check disappeared")
	// effects of Go API implementations (closures inside the constructors)
	g := c.CG()
	for _, ctor := range apiCtors {
		var impls []*ssa.Function
		impls = append(impls, ctor.AnonFuncs...)
		if len(impls) == 0 {
			continue
		}
		name := fname(ctor)
		bad := ""
		g.Reach(impls, func(f *ssa.Function) bool { return false }, func(chain []*ssa.Function, e eng.CGEdge) {
			k := e.Site
			if k.Instr == nil {
				return
			}
			if k.Callee != nil {
				rt := k.RecvTypeName()
				if rt == "Storer" || rt == "Repository" {
					if _, mut := refMutators[k.Callee.Name()]; mut {
						bad = fmt.Sprintf("%s → %s", eng.ChainString(chain), k.Name())
					}
					if refTransfers[k.Callee.Name()] || k.Callee.Name() == "WriteBlob" || k.Callee.Name() == "WriteTree" || k.Callee.Name() == "SetGitConfig" || k.Callee.Name() == "AddRemote" || k.Callee.Name() == "RemoveRemote" {
						bad = fmt.Sprintf("%s → %s", eng.ChainString(chain), k.Name())
					}
				}
			}
			switch {
			case strings.HasPrefix(e.Leaf, "os.WriteFile"), strings.HasPrefix(e.Leaf, "os.Remove"), strings.HasPrefix(e.Leaf, "os.Create"), strings.HasPrefix(e.Leaf, "os.OpenFile"),
				strings.HasPrefix(e.Leaf, "os.Setenv"), strings.HasPrefix(e.Leaf, "os.Getenv"), strings.HasPrefix(e.Leaf, "net."), strings.HasPrefix(e.Leaf, "net/http."):
				bad = fmt.Sprintf("%s → %s", eng.ChainString(chain), e.Leaf)
			}
		})
		r.Site(1)
		if bad == "" {
			r.Ok("api-effects:"+name, ctor.Pos(), "implementation reaches no reference mutator / object writer / network / file-writing call")
		} else {
			r.Bad("api-effects:"+name, ctor.Pos(), "the Go implementation of a sandbox API can change state outside the sandbox: %s", bad)
		}
	}
	// Lua-implemented APIs: constant implementation strings without capability names
	for _, ctor := range apiCtors {
		for _, al := range allocsOf(ctor, "LuaAPI") {
			if v, has := allocStores(al)["Implementation"]; has {
				s, ok := eng.ConstString(v)
				if !ok {
					r.Undecided("lua-api:"+fname(ctor), al.Pos(), "Lua API implementation is not a constant string")
					continue
				}
				for n, cls := range c20Class {
					if !strings.HasPrefix(cls, "cap:") || strings.Contains(n, ".") {
						continue
					}
					if containsWord(s, n) {
						r.Bad("lua-api:"+fname(ctor), al.Pos(), "Lua-implemented API uses capability name %q", n)
					}
				}
				r.Ok("lua-api:"+fname(ctor), al.Pos(), "constant Lua implementation free of capability names")
			}
		}
	}
}

func containsWord(s, w string) bool {
	idx := 0
	for {
		i := strings.Index(s[idx:], w)
		if i < 0 {
			return false
		}
		i += idx
		before := i == 0 || !isIdent(s[i-1])
		after := i+len(w) >= len(s) || !isIdent(s[i+len(w)])
		if before && after {
			return true
		}
		idx = i + len(w)
	}
}

func isIdent(b byte) bool {
	return b == '_' || (b >= 'a' && b <= 'z') || (b >= 'A' && b <= 'Z') || (b >= '0' && b <= '9')
}

func c20Timeout(c *Ctx, r *R) {
	fn := r.Fn("internal/luasandbox.NewLuaEnvironment")
	if fn == nil {
		return
	}
	sts := eng.CallsTo(fn, false, "(*internal/luasandbox.LuaEnvironment).setTimeOut")
	r.Check(len(sts) >= 1, "timeout-set", fn.Pos(), "setTimeOut is called", "NewLuaEnvironment never sets a timeout")
	cut := eng.NewCut()
	for _, s := range sts {
		cut.AddInstrs(s.Instr)
		r.Site(1)
		v := s.Arg(1)
		okV := false
		if n, _, isF := eng.FieldLoad(v); isF && n == "LuaTimeout" {
			okV = true
			// only under LuaTimeout != 0
			nz := eng.RelEdges(fn, token.NEQ, eng.PField("LuaTimeout", nil), eng.PInt(0))
			mustPass(c, r, "option-only-if-nonzero", fn, isInstr(s.Instr), eng.NewCut().AddEdges(nz...), "the caller's timeout is used only when non-zero", "a zero timeout option can be passed to setTimeOut (context would expire immediately / never)")
		}
		if i, isC := eng.ConstInt(v); isC && i == 100 {
			okV = true
		}
		r.Check(okV, "timeout-value", s.Pos(), "timeout = option or LuaTimeOut", "setTimeOut is given a value that is neither the option nor LuaTimeOut")
		r.Check(eng.PParam("ctx")(s.Arg(0)), "timeout-parent-ctx", s.Pos(), "derived from the caller's context", "the timeout context is not derived from the caller's context")
	}
	mustPass(c, r, "timeout-before-use", fn, func(in ssa.Instruction) bool {
		ret, ok := in.(*ssa.Return)
		return ok && !eng.IsNilConst(ret.Results[0])
	}, cut, "an environment is returned only after a timeout was bound", "NewLuaEnvironment can return an environment with no timeout bound")
	if st := r.Fn("(*internal/luasandbox.LuaEnvironment).setTimeOut"); st != nil {
		wt := eng.CallsTo(st, false, "context.WithTimeout")
		if k, ok := oneCall(r, "with-timeout", st, wt, "context.WithTimeout"); ok {
			d := k.Arg(1)
			okD := eng.PBin(token.MUL, func(v ssa.Value) bool { return dependsOn(v, eng.PParam("timeOut")) }, func(v ssa.Value) bool { i, ok := eng.ConstInt(v); return ok && i == 1000000000 })(d)
			r.Check(okD, "duration", k.Pos(), "duration = timeOut * time.Second", "the timeout duration is not timeOut*time.Second")
			bound := false
			for _, s := range eng.Calls(st, false) {
				if s.Method() == "SetContext" && sameObjVal(s.Arg(0), k.Result(0)) {
					bound = true
				}
			}
			r.Check(bound, "bound-to-state", k.Pos(), "the timeout context is installed with LState.SetContext", "the timeout context is not installed on the interpreter (scripts would never be interrupted)")
			// cancel func kept for Cleanup
			kept := false
			for _, b := range st.Blocks {
				for _, in := range b.Instrs {
					if s, ok := in.(*ssa.Store); ok {
						if fa, ok := s.Addr.(*ssa.FieldAddr); ok && fieldNameOf(fa) == "contextCancel" && sameObjVal(s.Val, k.Result(1)) {
							kept = true
						}
					}
				}
			}
			r.Check(kept, "cancel-kept", k.Pos(), "cancel function kept for Cleanup", "the cancel function is dropped")
		}
	}
	if eh := r.Fn("(*experimental/gittuf.Repository).executeHook"); eh != nil {
		ne := eng.CallsTo(eh, false, "internal/luasandbox.NewLuaEnvironment")
		if k, ok := oneCall(r, "hook-env", eh, ne, "NewLuaEnvironment"); ok {
			names, ctors, okb := optionNames(k)
			okT := false
			if okb {
				for i, n := range names {
					if n == "WithLuaTimeout" && eng.PMethod("GetTimeout", eng.PParam("hook"))(ctors[i].Arg(0)) {
						okT = true
					}
				}
			}
			r.Check(okT, "hook-timeout-flows", k.Pos(), "the hook's own timeout is passed to the sandbox", "executeHook does not pass hook.GetTimeout() to the sandbox")
			errPropagates(c, r, "hook-env-error", k)
			def := false
			for _, d := range eng.Calls(eh, false) {
				if _, isDefer := d.Instr.(*ssa.Defer); isDefer && d.Method() == "Cleanup" {
					def = true
				}
			}
			r.Check(def, "hook-cleanup", k.Pos(), "Cleanup deferred", "executeHook no longer defers Cleanup")
		}
		// the script run is the blob the hook names
		for _, k := range eng.Calls(eh, false) {
			if k.Method() == "RunScript" {
				okS := dependsOn(k.Arg(0), func(v ssa.Value) bool {
					rk, _, ok := eng.RootCall(v)
					return ok && rk.Method() == "ReadBlob" && eng.PMethod("GetBlobID", eng.PParam("hook"))(rk.Arg(0))
				})
				r.Check(okS, "runs-hook-blob", k.Pos(), "the script run is the blob the hook names", "the script executed is not the blob recorded for the hook")
			}
		}
	}
	for _, spec := range []string{"(*experimental/gittuf.Repository).AddHook", "(*experimental/gittuf.Repository).UpdateHook"} {
		f := r.Fn(spec)
		if f == nil {
			continue
		}
		short := spec[strings.LastIndex(spec, ".")+1:]
		lt := append(eng.RelEdges(f, token.LSS, eng.PParam("timeout"), eng.PInt(1)), eng.RelEdges(f, token.LEQ, eng.PParam("timeout"), eng.PInt(0))...)
		okT := len(lt) > 0
		for _, e := range lt {
			if p := eng.LeadsOnlyToErr(e, "ErrInvalidHookTimeout"); p != nil {
				okT = false
			}
		}
		r.Check(okT, "min-timeout:"+short, f.Pos(), "timeout < 1 → ErrInvalidHookTimeout", short+" no longer rejects hook timeouts below 1 second (a zero timeout selects the 100 s default)")
	}
}

func c20ExitCode(c *Ctx, r *R) {
	fn := r.Fn("(*internal/luasandbox.LuaEnvironment).RunScript")
	if fn == nil {
		return
	}
	// comma-ok assertion to LNumber
	var okVal ssa.Value
	for _, b := range fn.Blocks {
		for _, in := range b.Instrs {
			if ta, ok := in.(*ssa.TypeAssert); ok && ta.CommaOk && strings.HasSuffix(ta.AssertedType.String(), "LNumber") {
				for _, ref := range *ta.Referrers() {
					if ex, ok := ref.(*ssa.Extract); ok && ex.Index == 1 {
						okVal = ex
					}
				}
			}
		}
	}
	if okVal == nil {
		r.Bad("number-test", fn.Pos(), "RunScript does not test whether the script's result is a number")
		return
	}
	isNum := eng.BoolEdges(fn, eng.PSame(okVal), true)
	for _, ret := range eng.Returns(fn) {
		if eng.ClassifyErr(eng.RetErr(ret), ret.Block()) == eng.ErrNonNil {
			continue
		}
		r.Site(1)
		v := ret.Results[0]
		if i, isC := eng.ConstInt(v); isC {
			r.Check(i != 0, "constant-exit", pos(ret), "a non-number result yields a non-zero code", "RunScript returns exit code 0 for a script result that is not a number (treated as success)")
			continue
		}
		p := eng.FindPathFromEntry(fn, isInstr(ret), eng.NewCut().AddEdges(isNum...))
		r.Check(p == nil, "derived-exit", pos(ret), "a computed exit code is returned only when the result was a number", "RunScript can return a computed exit code without the LNumber test having succeeded")
	}
	// DoString error → returned
	for _, k := range eng.Calls(fn, false) {
		if k.Method() == "DoString" {
			errPropagates(c, r, "script-error", k)
			r.Check(eng.PParam("script")(k.Arg(0)), "runs-given-script", k.Pos(), "runs the script it was given", "RunScript does not execute its script parameter")
		}
	}
}

func c20HookSelection(c *Ctx, r *R) {
	fn := r.Fn("(*experimental/gittuf.Repository).InvokeHooksForStage")
	if fn == nil {
		return
	}
	ls := eng.CallsTo(fn, false, "internal/policy.LoadCurrentState")
	if k, ok := oneCall(r, "policy-load", fn, ls, "LoadCurrentState"); ok {
		r.Site(1)
		s, isC := eng.ConstString(k.Arg(2))
		names, _, _ := optionNames(k)
		r.Check(isC && s == refPolicy && len(names) == 0, "applied-policy", k.Pos(), "hooks come from LoadCurrentState(PolicyRef) with no bypass", "hooks are not taken from the applied, log-verified policy (LoadCurrentState(PolicyRef) without options)")
		errPropagates(c, r, "policy-load-error", k)
	}
	eh := eng.CallsTo(fn, false, "(*experimental/gittuf.Repository).executeHook")
	ek, ok := oneCall(r, "execute", fn, eh, "executeHook")
	if !ok {
		return
	}
	// the hook executed is an element of the selected slice; appends to it are guarded by Has(selectedPrincipal.ID())
	has := eng.BoolEdges(fn, func(v ssa.Value) bool {
		k, _, ok := eng.RootCall(v)
		return ok && k.Method() == "Has" && eng.PMethod("GetPrincipalIDs", nil)(derefVal(k.Recv())) && eng.PMethod("ID", nil)(k.Arg(0))
	}, true)
	var sel []Call
	for _, k := range eng.Calls(fn, false) {
		if k.Name() == "builtin.append" && strings.HasSuffix(k.Instr.Common().Args[0].Type().String(), "tuf.Hook") {
			sel = append(sel, k)
		}
	}
	if len(has) == 0 || len(sel) != 1 {
		r.Bad("principal-filter", ek.Pos(), "hooks are not filtered by hook.GetPrincipalIDs().Has(selectedPrincipal.ID())")
	} else {
		mustPass(c, r, "principal-filter", fn, isInstr(sel[0].Instr), eng.NewCut().AddEdges(has...), "a hook is selected only if the policy assigns it to the selected principal", "a hook can be selected for a principal it is not assigned to")
		okH := false
		for _, root := range eng.Roots(ek.Arg(1)) {
			if u, ok := root.(*ssa.UnOp); ok {
				if ia, ok := u.X.(*ssa.IndexAddr); ok {
					for _, rr := range eng.Roots(ia.X) {
						if rr == ssa.Value(sel[0].Value()) {
							okH = true
						}
					}
				}
			}
		}
		r.Check(okH, "executes-selected", ek.Pos(), "only selected hooks are executed", "executeHook is applied to hooks outside the selected list")
	}
	// selectedPrincipal from key id match over GetAllPrincipals
	kid := eng.PMethod("KeyID", eng.PParam("signer"))
	eq := eng.RelEdges(fn, token.EQL, func(v ssa.Value) bool { n, _, ok := eng.FieldLoad(v); return ok && n == "KeyID" }, kid)
	r.Check(len(eq) > 0, "principal-by-signer-key", fn.Pos(), "the principal is the one owning the signer's key id", "the selected principal is not determined by matching the signer's key id")
	// the principal whose ID() filters the hooks is assigned only on the matching edge, and is one of
	// the policy's principals; a nil (no match) selection is refused before any hook is selected
	var selected ssa.Value
	for _, b := range fn.Blocks {
		for _, in := range b.Instrs {
			ci, ok := in.(ssa.CallInstruction)
			if !ok {
				continue
			}
			k := Call{Fn: fn, Instr: ci, Callee: eng.CalleeOf(ci)}
			if k.Method() == "Has" && eng.PMethod("GetPrincipalIDs", nil)(derefVal(k.Recv())) {
				if ik, _, ok := eng.RootCall(eng.Strip(k.Arg(0))); ok && ik.Method() == "ID" {
					selected = ik.Recv()
				}
			}
		}
	}
	if selected == nil {
		r.Bad("selected-on-match-edge", fn.Pos(), "cannot identify the principal whose ID() filters the hooks")
	} else {
		bad := ""
		n := 0
		for _, a := range eng.Assignments(selected) {
			if eng.IsNilConst(a.Val) {
				continue
			}
			n++
			dom := false
			for _, e := range eq {
				if a.At != nil && eng.EdgeDominates(e, a.At) {
					dom = true
				}
			}
			if !dom {
				bad = "the selected principal is assigned on a path that does not pass the `key.KeyID == signer key id` test"
			}
			fromPolicy := false
			for _, root := range eng.Roots(a.Val) {
				eng.WalkOperands(root, 6, func(v ssa.Value) {
					if ck, _, ok := eng.RootCall(v); ok && ck.Method() == "GetAllPrincipals" {
						fromPolicy = true
					}
				})
			}
			if !fromPolicy {
				bad = "the selected principal is not an element of state.GetAllPrincipals()"
			}
		}
		r.Check(bad == "" && n > 0, "selected-on-match-edge", fn.Pos(), "the principal used to filter hooks is assigned only where its key id equals the signer's, from the policy's principals", orStr(bad, "no assignment of the selected principal found"))
		nilEdges := eng.RelEdges(fn, token.EQL, func(v ssa.Value) bool { return sameWeb(v, selected) }, eng.PNil())
		okNil := len(nilEdges) > 0
		for _, e := range nilEdges {
			if pth := eng.LeadsOnlyToErr(e, "ErrPrincipalNotFound"); pth != nil {
				okNil = false
			}
		}
		if okNil && len(sel) == 1 {
			var pass []eng.Edge
			for _, e := range nilEdges {
				pass = append(pass, eng.Edge{From: e.From, Idx: 1 - e.Idx})
			}
			okNil = eng.FindPathFromEntry(fn, isInstr(sel[0].Instr), eng.NewCut().AddEdges(pass...)) == nil
		}
		r.Check(okNil, "no-match-refused-first", fn.Pos(), "selectedPrincipal == nil → ErrPrincipalNotFound before any hook is selected", "the `no principal matched` case does not return ErrPrincipalNotFound before hooks are selected (polarity or placement of the nil test changed)")
	}
	all := false
	for _, k := range eng.Calls(fn, false) {
		if k.Method() == "GetAllPrincipals" {
			all = true
		}
	}
	r.Check(all, "principals-from-policy", fn.Pos(), "principals are taken from the loaded policy state", "principals are not taken from state.GetAllPrincipals()")
	nf := false
	for _, ret := range eng.Returns(fn) {
		if eng.Sentinels(eng.RetErr(ret))["ErrPrincipalNotFound"] {
			nf = true
		}
	}
	r.Check(nf, "unknown-signer-refused", fn.Pos(), "no matching principal → ErrPrincipalNotFound", "an unknown signer is no longer refused")
	// hooks list comes from rootMetadata.GetHooks(stage)
	okS := false
	for _, k := range eng.Calls(fn, false) {
		if k.Method() == "GetHooks" && eng.PParam("stage")(k.Arg(0)) {
			okS = true
			errPropagates(c, r, "hooks-error", k)
		}
	}
	r.Check(okS, "hooks-for-stage", fn.Pos(), "hooks of the requested stage", "hooks are not read for the requested stage")
}

// derefVal strips one load.
func derefVal(v ssa.Value) ssa.Value {
	if v == nil {
		return nil
	}
	rs := eng.Roots(v)
	if len(rs) == 1 {
		return derefRoot(rs[0])
	}
	return v
}
