package rules

import (
	"fmt"
	"go/token"
	"strings"

	"golang.org/x/tools/go/ssa"

	"verif/checker/eng"
)

func init() {
	Meta["C02"] = PropMeta{
		Explanation: "Static necessary conditions of 'policy takes effect only via an unbroken, rollback-free chain of trust', as a typestate discipline over *policy.State values plus the structure of the checks themselves: a state loaded from the log (loadStateForEntry) may be used to judge an entry only after prev.VerifyNewState(it) (or being the first policy) and it.Verify() succeeded on every path; LoadState chains every intermediate policy entry through VerifyNewState and self-verifies the state it returns, pinning the first root to caller-supplied principals when given; VerifyNewState uses the receiver's root verifier on the argument's root envelope and propagates the rollback checks, which compare new<current versions for root, primary and every delegated rule file of the current state and treat a disappearing rule file as rollback; State.Verify verifies root, primary rule file (root-named principals) and every reachable delegated rule file with the delegating rule's principals/threshold and rejects unreachable ones; every verification mode obtains its first policy through LoadState. Signature validity itself (run-time crypto) is NOT decided.",
		Decides:     []string{"typestate Loaded→Chained→Effective at every consumer in VerifyRelativeForRef / verifyMergeable / VerifyNetwork", "LoadState chain loop and self-verification, initial-root pinning", "VerifyNewState receiver/argument roles and error propagation", "rollback comparisons and missing-file detection", "State.Verify structure incl. dangling delegation", "all modes start from LoadState"},
		NotDecided:  []string{"whether concrete signatures verify", "verdicts for concrete sequences of policy entries"},
	}
	reg(&eng.Rule{ID: "C02.effective-only", Prop: "C02", Floor: 3,
		Doc: "Every *State that reaches verifyEntry / verifyGitObjectAndAttestations / getApproverAttestationAndKeyIDsForIndex in VerifyRelativeForRef and verifyMergeable originates from LoadState (Effective by C02.chain-loop) or from loadStateForEntry followed, on every path to the use, by (prev.VerifyNewState(ctx, it) succeeded ∨ no previous policy) and it.Verify(ctx) succeeded.",
		Run: c02EffectiveOnly})
	reg(&eng.Rule{ID: "C02.chain-loop", Prop: "C02", Floor: 6,
		Doc: "In LoadState: verifiedState advances to underTestState only on the nil edge of verifiedState.VerifyNewState(ctx, underTestState); the state returned for a PolicyRef request passed Verify; with InitialRootPrincipals a SignatureVerifier{principals: those, threshold: len(those)} verified the first root envelope on every returning path.",
		Run: c02ChainLoop})
	reg(&eng.Rule{ID: "C02.new-state", Prop: "C02", Floor: 5,
		Doc: "In State.VerifyNewState: the verifier is the receiver's getRootVerifier(), applied to the argument's Metadata.RootEnvelope; VerifyNewStateMetadata(receiver → argument) and the per-controller check are made; all errors propagate.",
		Run: c02NewState})
	reg(&eng.Rule{ID: "C02.rollback", Prop: "C02", Floor: 7,
		Doc: "In StateMetadata.VerifyNewStateMetadata: three comparisons new.GetVersion() < current.GetVersion() (root, primary rule file, each delegated rule file) return ErrMetadataRollbackDetected; a rule file missing from the new state returns ErrMetadataRollbackDetected; the delegated loop ranges over the receiver's DelegationEnvelopes.",
		Run: c02Rollback})
	reg(&eng.Rule{ID: "C02.self-verify", Prop: "C02", Floor: 8,
		Doc: "In State.Verify: the root envelope is verified by the own root verifier; a present primary rule file by getTargetsVerifier(); every dequeued delegated envelope by a SignatureVerifier whose principals/threshold come from the delegating rule; all Verify errors propagate; an unreached delegated rule file returns ErrDanglingDelegationMetadata.",
		Run: c02SelfVerify})
	reg(&eng.Rule{ID: "C02.all-modes", Prop: "C02", Floor: 4,
		Doc: "VerifyRelativeForRef, verifyMergeable, VerifyNetwork and LoadCurrentState (non-bypass) obtain their initial policy through LoadState with the entry returned by the searcher / latest-entry lookup, and propagate its error.",
		Run: c02AllModes})
}

const (
	fnVRFR      = "(*internal/policy.PolicyVerifier).VerifyRelativeForRef"
	fnVM        = "(*internal/policy.PolicyVerifier).verifyMergeable"
	fnLoadState = "internal/policy.LoadState"
	fnLSFE      = "internal/policy.loadStateForEntry"
	fnVNS       = "(*internal/policy.State).VerifyNewState"
	fnSV        = "(*internal/policy.State).Verify"
)

// policy consumers: callee name → index of the *State argument
var policyConsumers = map[string]int{
	"internal/policy.verifyEntry":                             2,
	"internal/policy.verifyTagEntry":                          2,
	"internal/policy.verifyGitObjectAndAttestations":          1,
	"internal/policy.getApproverAttestationAndKeyIDs":         2,
	"internal/policy.getApproverAttestationAndKeyIDsForIndex": 2,
}

func c02EffectiveOnly(c *Ctx, r *R) {
	for _, spec := range []string{fnVRFR, fnVM} {
		fn := r.Fn(spec)
		if fn == nil {
			continue
		}
		short := spec[strings.LastIndex(spec, ".")+1:]
		var consumers []Call
		for _, k := range eng.Calls(fn, false) {
			if idx, ok := policyConsumers[k.Name()]; ok {
				_ = idx
				consumers = append(consumers, k)
			}
		}
		if len(consumers) == 0 {
			r.Bad("consumers:"+short, fn.Pos(), "no policy consumer (verifyEntry / verifyGitObjectAndAttestations) in %s", short)
			continue
		}
		for _, k := range consumers {
			r.Site(1)
			arg := k.Arg(policyConsumers[k.Name()])
			ck := callKey(fn, k)
			for _, root := range eng.Roots(arg) {
				if eng.IsNilConst(root) {
					continue // guarded by currentPolicy == nil → ErrPolicyNotFound (C01.policy-in-force)
				}
				src, idx, ok := eng.RootCall(root)
				if !ok || idx != 0 {
					r.Bad("origin:"+ck, k.Pos(), "the policy state used by %s has an origin that is neither LoadState nor loadStateForEntry (%s)", k.Name(), root.String())
					continue
				}
				switch src.Name() {
				case fnLoadState:
					r.Ok("origin:"+ck+":LoadState", src.Pos(), "policy from LoadState (chain-verified and self-verified)")
				case fnLSFE:
					// Loaded: needs Chained ∧ Effective on every path from the load to the consumer
					loaded := src.Result(0)
					var chainEdges, tofu, effEdges []eng.Edge
					for _, v := range eng.CallsTo(fn, false, fnVNS) {
						if sameObjVal(v.Arg(1), loaded) {
							cut := eng.NewCut()
							if v.OKPoints(cut) {
								for e := range cut.Edges {
									chainEdges = append(chainEdges, e)
								}
							}
						}
					}
					// "no previous policy": the edge on which the receiver slot is nil
					for _, v := range eng.CallsTo(fn, false, fnVNS) {
						tofu = append(tofu, eng.RelEdges(fn, token.EQL, exactly(v.Recv()), eng.PNil())...)
					}
					for _, v := range eng.CallsTo(fn, false, fnSV) {
						if sameObjVal(v.Recv(), loaded) {
							cut := eng.NewCut()
							if v.OKPoints(cut) {
								for e := range cut.Edges {
									effEdges = append(effEdges, e)
								}
							}
						}
					}
					ok1 := mustPassFrom(c, r, "chained:"+ck, src.Instr, isInstr(k.Instr), eng.NewCut().AddEdges(chainEdges...).AddEdges(tofu...),
						"an in-range policy state is used only after the previous policy's VerifyNewState accepted it (or there was no previous policy)",
						"a policy state loaded from an in-range log entry can judge entries without prev.VerifyNewState(it) having succeeded")
					_ = ok1
					if len(effEdges) == 0 {
						r.Bad("self-verified:"+ck, src.Pos(), "the policy state loaded from an in-range policy entry (loadStateForEntry) takes effect in %s without it.Verify(ctx): its rule files (primary and delegated) are never checked against the signers its own root / delegating rules name, so forged rule files recorded under a validly signed root are enforced", short)
					} else {
						mustPassFrom(c, r, "self-verified:"+ck, src.Instr, isInstr(k.Instr), eng.NewCut().AddEdges(effEdges...),
							"an in-range policy state is used only after its own Verify succeeded",
							"a policy state loaded from an in-range log entry can judge entries without its Verify having succeeded")
					}
				default:
					r.Bad("origin:"+ck, src.Pos(), "the policy state used by %s comes from %s, which gives no chain-of-trust guarantee", k.Name(), src.Name())
				}
			}
		}
	}
}

func c02ChainLoop(c *Ctx, r *R) {
	fn := r.Fn(fnLoadState)
	if fn == nil {
		return
	}
	vns := eng.CallsTo(fn, false, fnVNS)
	vk, ok := oneCall(r, "anchor-vns", fn, vns, "VerifyNewState")
	if !ok {
		return
	}
	r.Site(1)
	// argument is the state just loaded for the loop's entry
	under := eng.PCall(fnLSFE, 0)
	r.Check(under(vk.Arg(1)), "under-test-arg", vk.Pos(), "VerifyNewState judges the state just loaded for the next policy entry", "VerifyNewState's argument is not the freshly loaded next policy state")
	errPropagates(c, r, "vns-error", vk)
	// receiver: phi of (initial state, previous under-test) — every root is a loadStateForEntry result
	okRecv := true
	for _, root := range eng.Roots(vk.Recv()) {
		if k, _, isCall := eng.RootCall(root); !isCall || k.Name() != fnLSFE {
			okRecv = false
		}
	}
	r.Check(okRecv, "receiver-is-verified-state", vk.Pos(), "VerifyNewState's receiver is the previously verified state", "VerifyNewState's receiver is not the previously verified policy state")
	// advancing only on nil edge: the phi of the receiver takes the under-test value only via the nil edge — checked as:
	// from the loadStateForEntry(entry) call inside the loop, the loop back-edge is reachable only via the nil edge
	cut := eng.NewCut()
	vk.OKPoints(cut)
	under1 := vk.Arg(1)
	if src, _, isCall := eng.RootCall(eng.Roots(under1)[0]); isCall {
		// next iteration = reaching the same load call again, or a success return
		mustPassFrom(c, r, "advance-only-if-accepted", src.Instr, func(in ssa.Instruction) bool {
			return in == src.Instr || isSuccessReturn(in)
		}, cut, "the chain advances (and LoadState returns) only after VerifyNewState accepted the next state", "LoadState can advance past / return after a policy entry whose VerifyNewState did not succeed")
	}
	// the chain covers every policy entry after the first: the loop ranges over
	// FindPolicyEntriesInRange(first, requested)[1:], the state under test is loaded for the loop's
	// own element, the only filter in front of it is `entry.GetRefName() == PolicyRef`, and the
	// verified state advances to the accepted one
	if src, _, isCall := eng.RootCall(eng.Roots(under1)[0]); isCall {
		elemOK, rangeOK := false, false
		var elem ssa.Value
		for _, root := range eng.Roots(src.Arg(1)) {
			u, ok := root.(*ssa.UnOp)
			if !ok {
				continue
			}
			ia, ok := u.X.(*ssa.IndexAddr)
			if !ok {
				continue
			}
			elem = root
			for _, sr := range eng.Roots(ia.X) {
				sl, ok := sr.(*ssa.Slice)
				if !ok {
					continue
				}
				elemOK = true
				lo, isC := eng.ConstInt(sl.Low)
				if !isC || lo != 1 || sl.High != nil {
					continue
				}
				for _, rr := range eng.Roots(sl.X) {
					if k, idx, ok := eng.RootCall(rr); ok && idx == 0 && k.Method() == "FindPolicyEntriesInRange" &&
						eng.PCall("(internal/policy.searcher).FindFirstPolicyEntry", 0)(k.Arg(0)) && eng.PParam("requestedEntry")(k.Arg(1)) {
						rangeOK = true
					}
				}
			}
		}
		r.Check(elemOK && rangeOK, "chain-covers-range", src.Pos(), "the chain loop ranges over FindPolicyEntriesInRange(first, requested)[1:] and loads each element",
			"the chain loop does not load every element of FindPolicyEntriesInRange(firstPolicyEntry, requestedEntry)[1:] (bounds or arguments changed): some policy state would be skipped by the chain of trust")
		if elem != nil {
			isPolicy := eng.RelEdges(fn, token.EQL, eng.PMethod("GetRefName", func(v ssa.Value) bool { return sameObj(elem)(v) }), eng.PStr(refPolicy))
			allowed := 0
			var extra []string
			hdrLen := eng.PLen(eng.PAny())
			for _, g := range eng.GuardsAt(src.Block()) {
				// guards inside the loop: those evaluated in blocks dominated by the loop test
				inLoop := false
				for _, e := range eng.RelEdges(fn, token.LSS, eng.PAny(), hdrLen) {
					if eng.EdgeDominates(e, g.Edge.From) {
						inLoop = true
					}
				}
				if !inLoop {
					continue
				}
				ok := false
				for _, e := range isPolicy {
					if e == g.Edge {
						ok = true
						allowed++
					}
				}
				if !ok {
					extra = append(extra, c.Rel(eng.InstrPos(g.Edge.From.Instrs[len(g.Edge.From.Instrs)-1])))
				}
			}
			r.Check(allowed >= 1 && len(extra) == 0, "chain-filter", src.Pos(), "inside the loop the only condition in front of the load is entry.GetRefName() == PolicyRef",
				"the chained load is not guarded by exactly `entry.GetRefName() == PolicyRef` (polarity changed or another filter added at "+strings.Join(extra, ", ")+"): policy entries can be skipped by the chain of trust")
		}
		if elem != nil {
			// a skipped (non-policy) entry moves on to the next element: it never ends the walk
			done := rangeDoneEdges(fn, eng.PAny())
			okSkip := true
			for _, e := range eng.RelEdges(fn, token.NEQ, eng.PMethod("GetRefName", func(v ssa.Value) bool { return sameObj(elem)(v) }), eng.PStr(refPolicy)) {
				if p := eng.FindPath(e.To(), 0, isSuccessReturn, eng.NewCut().AddEdges(done...)); p != nil {
					okSkip = false
				}
			}
			r.Check(okSkip && len(done) > 0, "chain-skip-continues", src.Pos(), "skipping a non-policy entry continues with the next element",
				"after skipping a non-policy entry LoadState can return without the loop having been exhausted (break instead of continue): later policy entries escape the chain of trust")
		}
		adv := false
		for _, root := range eng.Roots(vk.Recv()) {
			if k, _, ok := eng.RootCall(root); ok && k.Instr == src.Instr {
				adv = true
			}
		}
		r.Check(adv, "chain-advances", vk.Pos(), "the verified state advances to the accepted state (each state is checked against its predecessor)",
			"VerifyNewState's receiver never becomes the accepted state: every policy state is checked against the first root of trust only, so a rotated-out root can still sign new policy")
	}
	// the first-entry shortcut (no chain) is taken only when the requested entry IS the first policy entry
	same := eng.BoolEdges(fn, func(v ssa.Value) bool {
		k, _, ok := eng.RootCall(v)
		if !ok || k.Method() != "Equal" {
			return false
		}
		a := eng.PMethod("GetID", eng.PCall("(internal/policy.searcher).FindFirstPolicyEntry", 0))
		b := func(v ssa.Value) bool {
			for _, root := range eng.Roots(v) {
				if bk, _, ok := eng.RootCall(root); ok && bk.Method() == "Bytes" {
					return eng.PMethod("GetID", eng.PParam("requestedEntry"))(bk.Recv())
				}
			}
			return eng.PMethod("GetID", eng.PParam("requestedEntry"))(v)
		}
		return (a(k.Recv()) && b(k.Arg(0))) || (b(k.Recv()) && a(k.Arg(0)))
	}, true)
	for _, ret := range eng.Returns(fn) {
		if !isSuccessReturn(ret) {
			continue
		}
		k, _, isCall := eng.RootCall(eng.Roots(eng.RetVal(ret, 0))[0])
		if !isCall || k.Name() != fnLSFE || !eng.PParam("requestedEntry")(k.Arg(1)) || k.Block() == ret.Block() {
			continue
		}
		dom := false
		for _, e := range same {
			if eng.EdgeDominates(e, ret.Block()) {
				dom = true
			}
		}
		r.Check(dom, "shortcut-only-for-first", pos(ret), "the requested state is returned without the chain walk only when it is the first policy entry",
			"LoadState returns the requested state after self-verification only, without the chain walk, on a path where the requested entry is not known to be the first policy entry")
	}
	// returned state for PolicyRef requests passed Verify
	sv := eng.CallsTo(fn, false, fnSV)
	r.Check(len(sv) >= 2, "self-verify-sites", fn.Pos(), "LoadState self-verifies the returned state in both places (first entry, later entry)", "LoadState has fewer than two State.Verify calls (first-entry path and chained path)")
	for _, ret := range eng.Returns(fn) {
		if eng.ClassifyErr(eng.RetErr(ret), ret.Block()) == eng.ErrNonNil {
			continue
		}
		v0 := eng.RetVal(ret, 0)
		// returns of a direct loadStateForEntry(...) tail call: staging / pre-policy states — not "taking effect" by themselves
		if k, _, isCall := eng.RootCall(eng.Roots(v0)[0]); isCall && k.Name() == fnLSFE && k.Block() == ret.Block() {
			r.Ok("return-staging", pos(ret), "returns an unverified staging / pre-first-policy state (only after the applied chain was verified; callers must Verify before use — C12.apply-gates)")
			continue
		}
		r.Site(1)
		var eff []eng.Edge
		for _, s := range sv {
			if sameObjVal(s.Recv(), v0) || overlapsRoots(s.Recv(), v0) {
				cutS := eng.NewCut()
				s.OKPoints(cutS)
				for e := range cutS.Edges {
					eff = append(eff, e)
				}
			}
		}
		p := eng.FindPathFromEntry(fn, isInstr(ret), eng.NewCut().AddEdges(eff...))
		if p != nil {
			r.Bad("returned-is-self-verified", pos(ret), "LoadState can return a policy state for a policy entry without that state's Verify having succeeded; witness %s", c.DescribePath(p))
		} else {
			r.Ok("returned-is-self-verified", pos(ret), "returned policy state passed its own Verify")
		}
	}
	// initial root pinning: SignatureVerifier literals with principals = options.InitialRootPrincipals, threshold = len(same)
	pins := 0
	for _, al := range allocsOf(fn, "SignatureVerifier") {
		st := allocStores(al)
		pr, th := st["principals"], st["threshold"]
		if pr == nil || th == nil {
			continue
		}
		isIRP := eng.PField("InitialRootPrincipals", nil)
		if isIRP(pr) && eng.PLen(isIRP)(th) {
			pins++
			// its Verify is applied to a RootEnvelope and the error is used
			used := false
			for _, v := range eng.CallsTo(fn, false, sigVerify) {
				for _, root := range eng.Roots(v.Recv()) {
					if root == ssa.Value(al) {
						n, _, isF := eng.FieldLoad(v.Arg(2))
						if isF && n == "RootEnvelope" && v.ErrChecked() {
							used = true
						}
					}
				}
			}
			r.Check(used, "pin-verifies-root", al.Pos(), "pinned verifier checks the first policy's root envelope and its error is used", "the pinned initial-root verifier is not applied to the first root envelope (or its error is dropped)")
		} else {
			r.Bad("pin-shape", al.Pos(), "initial-root verifier is not {principals: InitialRootPrincipals, threshold: len(InitialRootPrincipals)}: a subset of the pinned principals could vouch for the first root")
		}
	}
	r.Check(pins == 2, "pin-sites", fn.Pos(), "both LoadState paths pin the first root when InitialRootPrincipals are given", "expected two pinned-root verifications in LoadState (first-entry path and chained path)")
	// pinning is skipped only when no principals were given
	skip := eng.RelEdges(fn, token.EQL, eng.PLen(eng.PField("InitialRootPrincipals", nil)), eng.PInt(0))
	r.Check(len(skip) == 2, "pin-skipped-only-if-none", fn.Pos(), "pinning skipped only when len(InitialRootPrincipals) == 0", "the test that decides whether to pin the first root is not len(InitialRootPrincipals) == 0")
	// polarity and placement: every success return lies behind either the `no principals given`
	// edge or the nil edge of a pinned verification (the bypass option has its own return)
	pinCut := eng.NewCut().AddEdges(skip...)
	for _, al := range allocsOf(fn, "SignatureVerifier") {
		for _, v := range eng.CallsTo(fn, false, sigVerify) {
			for _, root := range eng.Roots(v.Recv()) {
				if root == ssa.Value(al) {
					v.OKPoints(pinCut)
				}
			}
		}
	}
	// Exits that hand back loadStateForEntry's result directly (tail calls) carry no verification of
	// the returned state. They exist only where documented: no applied policy yet
	// (errors.Is(err, ErrPolicyNotFound) of FindFirstPolicyEntry), the requested entry is an ancestor
	// of the first policy entry (KnowsCommit(first.GetID(), requested.GetID()) true edge), or — after
	// the applied chain was verified — the request is not for PolicyRef (a staging state).
	notFound := eng.BoolEdges(fn, func(v ssa.Value) bool {
		k, _, ok := eng.RootCall(v)
		if !ok || k.Name() != "errors.Is" {
			return false
		}
		g := eng.GlobalLoad(k.Arg(1))
		return g != nil && g.Name() == "ErrPolicyNotFound" && eng.AnyRootFromCall(k.Arg(0), 1, "(internal/policy.searcher).FindFirstPolicyEntry")
	}, true)
	isFirst := eng.PCall("(internal/policy.searcher).FindFirstPolicyEntry", 0)
	predates := eng.BoolEdges(fn, func(v ssa.Value) bool {
		k, _, ok := eng.RootCall(v)
		return ok && k.Method() == "KnowsCommit" && eng.PMethod("GetID", isFirst)(k.Arg(0)) && eng.PMethod("GetID", eng.PParam("requestedEntry"))(k.Arg(1))
	}, true)
	notPolicyRef := eng.RelEdges(fn, token.NEQ, eng.PMethod("GetRefName", eng.PParam("requestedEntry")), eng.PStr(refPolicy))
	domBy := func(es []eng.Edge, b *ssa.BasicBlock) bool {
		for _, e := range es {
			if eng.EdgeDominates(e, b) {
				return true
			}
		}
		return false
	}
	isTail := func(ret *ssa.Return) bool {
		if k, _, isCall := eng.RootCall(eng.RetVal(ret, 0)); isCall && k.Name() == "internal/policy.loadStateForEntry" {
			if ek, _, isC := eng.RootCall(eng.Strip(eng.RetErr(ret))); isC && ek.Instr == k.Instr {
				return true
			}
		}
		return false
	}
	nEarly, nStaging := 0, 0
	for _, ret := range eng.Returns(fn) {
		if !isTail(ret) {
			continue
		}
		switch {
		case domBy(notFound, ret.Block()) || domBy(predates, ret.Block()):
			nEarly++
			r.Ok("unverified-exit-documented", pos(ret), "an unverified state is handed back early only when no policy was applied yet or the requested entry predates the first applied policy")
		case domBy(notPolicyRef, ret.Block()):
			nStaging++
			r.Ok("unverified-exit-documented", pos(ret), "after the chain walk an unverified state is handed back only for a request that is not for the policy reference")
		default:
			r.Bad("unverified-exit-documented", pos(ret), "LoadState returns loadStateForEntry's state without verification on a path that is none of: no applied policy yet; requested entry is an ancestor of the first policy entry (KnowsCommit(first, requested) true edge); request not for the policy reference")
		}
	}
	r.Check(nEarly+nStaging >= 1, "unverified-exits", fn.Pos(), fmt.Sprintf("%d early and %d staging unverified exits, all documented", nEarly, nStaging), "no unverified exit recognised in LoadState (the rule matches nothing; re-anchor)")
	verifiedReturn := func(in ssa.Instruction) bool {
		ret, ok := in.(*ssa.Return)
		if !ok || !isSuccessReturn(in) {
			return false
		}
		return !(isTail(ret) && (domBy(notFound, ret.Block()) || domBy(predates, ret.Block())))
	}
	mustPass(c, r, "pin-before-use", fn, verifiedReturn, pinCut,
		"a verified policy state is returned only after the pinned-root verification succeeded or no principals were pinned",
		"LoadState can return a verified state although InitialRootPrincipals were given and the first root was not verified against them (test inverted or verification bypassed)")
}

func overlapsRoots(a, b ssa.Value) bool {
	ra, rb := eng.Roots(a), eng.Roots(b)
	for _, x := range ra {
		for _, y := range rb {
			if derefRoot(x) == derefRoot(y) {
				return true
			}
		}
	}
	return false
}

func c02NewState(c *Ctx, r *R) {
	fn := r.Fn(fnVNS)
	if fn == nil {
		return
	}
	recv := eng.PParam(fn.Params[0].Name())
	newP := eng.PParam(fn.Params[2].Name())
	grv := eng.CallsTo(fn, false, "(*internal/policy.State).getRootVerifier")
	if g, ok := oneCall(r, "root-verifier", fn, grv, "getRootVerifier"); ok {
		r.Check(recv(g.Recv()), "verifier-from-current", g.Pos(), "root verifier comes from the current (receiver) state", "the root verifier is taken from the NEW state: a new policy would vouch for itself")
		errPropagates(c, r, "root-verifier-error", g)
	}
	vs := eng.CallsTo(fn, false, sigVerify)
	if v, ok := oneCall(r, "verify-root", fn, vs, "SignatureVerifier.Verify"); ok {
		r.Site(1)
		r.Check(eng.PCall("(*internal/policy.State).getRootVerifier", 0)(v.Recv()), "verify-uses-current-root", v.Pos(), "Verify runs on the receiver's root verifier", "Verify does not run on getRootVerifier()'s result")
		okEnv := false
		if n, base, isF := eng.FieldLoad(v.Arg(2)); isF && n == "RootEnvelope" {
			if n2, b2, isF2 := eng.FieldLoad(base); isF2 && n2 == "Metadata" && newP(b2) {
				okEnv = true
			}
		}
		r.Check(okEnv, "verify-new-root-envelope", v.Pos(), "the envelope verified is newPolicy.Metadata.RootEnvelope", "the envelope verified is not the new policy's root envelope")
		errPropagates(c, r, "verify-root-error", v)
	}
	md := eng.CallsTo(fn, false, "(*internal/policy.StateMetadata).VerifyNewStateMetadata")
	r.Check(len(md) == 2, "rollback-calls", fn.Pos(), "rollback check for own metadata and for each controller", "expected two VerifyNewStateMetadata calls (own metadata, controllers)")
	for i, m := range md {
		errPropagates(c, r, "rollback-error:"+itoa(i), m)
	}
	if len(md) >= 1 {
		m := md[0]
		n1, b1, f1 := eng.FieldLoad(m.Recv())
		n2, b2, f2 := eng.FieldLoad(m.Arg(1))
		r.Check(f1 && f2 && n1 == "Metadata" && n2 == "Metadata" && recv(b1) && newP(b2), "rollback-direction", m.Pos(), "current.Metadata.VerifyNewStateMetadata(new.Metadata)", "rollback check is not applied from the current state's metadata to the new state's metadata (direction swapped?)")
	}
}

func c02Rollback(c *Ctx, r *R) {
	fn := r.Fn("(*internal/policy.StateMetadata).VerifyNewStateMetadata")
	if fn == nil {
		return
	}
	recv := eng.PParam(fn.Params[0].Name())
	newS := eng.PParam(fn.Params[2].Name())
	verOf := func(state Pat, getter string) Pat {
		return eng.PMethod("GetVersion", eng.PCall(getter, 0, nil))
	}
	_ = verOf
	isRecvCall := func(getter string) Pat {
		return func(v ssa.Value) bool {
			for _, root := range eng.Roots(v) {
				k, _, ok := eng.RootCall(root)
				if !ok || k.Method() != getter || !recv(k.Recv()) {
					return false
				}
			}
			return len(eng.Roots(v)) > 0
		}
	}
	isNewCall := func(getter string) Pat {
		return func(v ssa.Value) bool {
			for _, root := range eng.Roots(v) {
				k, _, ok := eng.RootCall(root)
				if !ok || k.Method() != getter || !newS(k.Recv()) {
					return false
				}
			}
			return len(eng.Roots(v)) > 0
		}
	}
	type cmp struct {
		name, getter string
	}
	n := 0
	for _, cm := range []cmp{{"root", "GetRootMetadata"}, {"rule-file", "GetTargetsMetadata"}} {
		newV := eng.PMethod("GetVersion", isNewCall(cm.getter))
		curV := eng.PMethod("GetVersion", isRecvCall(cm.getter))
		fails := eng.RelEdges(fn, token.LSS, newV, curV)
		want := 1
		if cm.getter == "GetTargetsMetadata" {
			want = 2
		}
		n += len(fails)
		r.Site(len(fails))
		if len(fails) != want {
			r.Bad("version-compare:"+cm.name, fn.Pos(), "expected %d comparison(s) new.%s().GetVersion() < current.%s().GetVersion(), found %d (operands swapped, or the check was dropped: a lower version would be accepted)", want, cm.getter, cm.getter, len(fails))
			continue
		}
		ok := true
		for _, e := range fails {
			if p := eng.LeadsOnlyToErr(e, "ErrMetadataRollbackDetected"); p != nil {
				ok = false
				r.Bad("version-compare:"+cm.name, pos(p.Target), "a lower %s version does not always return ErrMetadataRollbackDetected; witness %s", cm.name, c.DescribePath(p))
			}
		}
		if ok {
			r.Ok("version-compare:"+cm.name, fn.Pos(), "new < current %s version → ErrMetadataRollbackDetected (%d site(s))", cm.name, want)
		}
	}
	// missing rule file in new state → rollback: GetTargetsMetadata on new with errors.Is(err, ErrMetadataNotFound) true edge → rollback error
	miss := 0
	for _, k := range eng.Calls(fn, false) {
		if k.Method() != "GetTargetsMetadata" || !newS(k.Recv()) {
			continue
		}
		ev, _ := k.ErrResult()
		nf := eng.BoolEdges(fn, eng.PCall("errors.Is", 0, eng.PSame(ev), eng.PGlobal("ErrMetadataNotFound")), true)
		okm := len(nf) > 0
		for _, e := range nf {
			if p := eng.LeadsOnlyToErr(e, "ErrMetadataRollbackDetected"); p != nil {
				okm = false
			}
		}
		miss++
		r.Check(okm, "missing-file-is-rollback:"+itoa(miss), k.Pos(), "a rule file missing from the new state → ErrMetadataRollbackDetected", "a rule file that disappears from the new policy state is not reported as rollback")
		errPropagates(c, r, "new-targets-error:"+itoa(miss), k)
	}
	r.Check(miss == 2, "missing-file-sites", fn.Pos(), "primary and delegated rule files are both looked up in the new state", "expected GetTargetsMetadata on the new state for the primary and for each delegated rule file")
	// delegated loop ranges over the receiver's DelegationEnvelopes
	done := rangeDoneEdges(fn, eng.PField("DelegationEnvelopes", recv))
	r.Check(len(done) > 0, "delegated-loop-over-current", fn.Pos(), "the delegated rule-file loop ranges over the CURRENT state's DelegationEnvelopes", "the delegated rule-file loop does not range over the current (receiver) state's DelegationEnvelopes: removed rule files would go unnoticed")
	// success only after the loop completed, or current has no primary rule file
	noPrimary := []eng.Edge{}
	for _, k := range eng.Calls(fn, false) {
		if k.Method() == "GetTargetsMetadata" && recv(k.Recv()) {
			if s, isC := eng.ConstString(k.Arg(0)); isC && s == "targets" {
				ev, _ := k.ErrResult()
				noPrimary = append(noPrimary, eng.BoolEdges(fn, eng.PCall("errors.Is", 0, eng.PSame(ev), eng.PGlobal("ErrMetadataNotFound")), true)...)
			}
		}
	}
	for _, ret := range eng.Returns(fn) {
		if eng.ClassifyErr(eng.RetErr(ret), ret.Block()) == eng.ErrNonNil {
			continue
		}
		p := eng.FindPathFromEntry(fn, isInstr(ret), eng.NewCut().AddEdges(done...).AddEdges(noPrimary...))
		if p != nil {
			r.Bad("success-after-all-files", pos(ret), "VerifyNewStateMetadata can succeed before every delegated rule file of the current state was compared; witness %s", c.DescribePath(p))
		} else {
			r.Ok("success-after-all-files", pos(ret), "success only after all rule files were compared (or the current state has no primary rule file)")
		}
	}
	_ = n
}

func c02SelfVerify(c *Ctx, r *R) {
	fn := r.Fn(fnSV)
	if fn == nil {
		return
	}
	recv := eng.PParam(fn.Params[0].Name())
	vs := eng.CallsTo(fn, false, sigVerify)
	r.Check(len(vs) == 3, "verify-sites", fn.Pos(), "three signature verifications: root, primary rule file, delegated rule files", "expected exactly three SignatureVerifier.Verify calls in State.Verify (root, primary, delegated)")
	for i, v := range vs {
		r.Site(1)
		errPropagates(c, r, "verify-error:"+itoa(i), v)
	}
	var sawRoot, sawTargets, sawDeleg bool
	for _, v := range vs {
		switch {
		case eng.PCall("(*internal/policy.State).getRootVerifier", 0)(v.Recv()):
			n, _, isF := eng.FieldLoad(v.Arg(2))
			sawRoot = isF && n == "RootEnvelope"
		case eng.PCall("(*internal/policy.State).getTargetsVerifier", 0)(v.Recv()):
			n, _, isF := eng.FieldLoad(v.Arg(2))
			sawTargets = isF && n == "TargetsEnvelope"
		default:
			// delegated: receiver is a local literal with principals from delegation.GetPrincipalIDs(), threshold delegation.GetThreshold()
			for _, root := range eng.Roots(v.Recv()) {
				al, ok := root.(*ssa.Alloc)
				if !ok {
					continue
				}
				st := allocStores(al)
				th := st["threshold"]
				okT := th != nil && eng.PMethod("GetThreshold", nil)(th)
				// envelope = DelegationEnvelopes[delegation.ID()]
				okE := false
				for _, er := range eng.Roots(v.Arg(2)) {
					if lk, ok := er.(*ssa.Lookup); ok {
						if n, _, isF := eng.FieldLoad(lk.X); isF && n == "DelegationEnvelopes" && eng.PMethod("ID", nil)(lk.Index) {
							// same delegation as threshold's receiver
							if tk, _, ok := eng.RootCall(eng.Roots(th)[0]); ok {
								if ik, _, ok := eng.RootCall(eng.Roots(lk.Index)[0]); ok && sameObjVal(tk.Recv(), ik.Recv()) {
									okE = true
								}
							}
						}
					}
				}
				_, hasEx := st["verifyExhaustively"]
				sawDeleg = okT && okE && !hasEx
				if !okT {
					r.Bad("delegated-threshold", al.Pos(), "the verifier for a delegated rule file does not use the delegating rule's GetThreshold()")
				}
				if !okE {
					r.Bad("delegated-envelope", v.Pos(), "the delegated verifier is not applied to DelegationEnvelopes[delegation.ID()] of the same delegation")
				}
			}
		}
	}
	r.Check(sawRoot, "root-by-own-root", fn.Pos(), "root envelope verified by own root verifier", "the root envelope is not verified by getRootVerifier()")
	r.Check(sawTargets, "primary-by-root-named", fn.Pos(), "primary rule file verified by getTargetsVerifier()", "the primary rule file is not verified by getTargetsVerifier()")
	r.Check(sawDeleg, "delegated-by-delegating-rule", fn.Pos(), "delegated rule files verified with the delegating rule's principals/threshold", "delegated rule files are not verified with a verifier built from the delegating rule")
	for _, spec := range []string{"(*internal/policy.State).getRootVerifier", "(*internal/policy.State).getTargetsVerifier"} {
		g := r.Fn(spec)
		if g == nil {
			continue
		}
		short := spec[strings.LastIndex(spec, ".")+1:]
		want := map[string][2]string{"getRootVerifier": {"GetRootPrincipals", "GetRootThreshold"}, "getTargetsVerifier": {"GetPrimaryRuleFilePrincipals", "GetPrimaryRuleFileThreshold"}}[short]
		okb := false
		for _, al := range allocsOf(g, "SignatureVerifier") {
			st := allocStores(al)
			if st["principals"] != nil && st["threshold"] != nil && eng.PMethod(want[0], nil)(st["principals"]) && eng.PMethod(want[1], nil)(st["threshold"]) {
				okb = true
			}
		}
		r.Check(okb, "verifier-shape:"+short, g.Pos(), short+" = {"+want[0]+"(), "+want[1]+"()}", short+" does not build its verifier from "+want[0]+"()/"+want[1]+"()")
		for _, k := range eng.Calls(g, false) {
			if k.Method() == want[0] || k.Method() == want[1] || k.Method() == "GetRootMetadata" {
				errPropagates(c, r, "verifier-error:"+short+":"+k.Method(), k)
			}
		}
	}
	// primary rule file verified whenever present
	present := eng.RelEdges(fn, token.NEQ, eng.PField("TargetsEnvelope", nil), eng.PNil())
	r.Check(len(present) > 0, "primary-iff-present", fn.Pos(), "primary rule file is verified whenever TargetsEnvelope != nil", "no TargetsEnvelope != nil test guarding the primary rule-file verification")
	// dangling
	dang := false
	for _, ret := range eng.Returns(fn) {
		if eng.Sentinels(eng.RetErr(ret))["ErrDanglingDelegationMetadata"] {
			dang = true
		}
	}
	r.Check(dang, "dangling-rejected", fn.Pos(), "an unreached delegated rule file → ErrDanglingDelegationMetadata", "unreachable delegated rule files are no longer rejected")
	// reached map initialised from DelegationEnvelopes and marked true only for visited delegations
	doneD := rangeDoneEdges(fn, eng.PField("DelegationEnvelopes", nil))
	r.Check(len(doneD) > 0, "dangling-over-all-files", fn.Pos(), "reachability is tracked for every member of DelegationEnvelopes", "reachability is not initialised from every member of DelegationEnvelopes")
	// polarity and placement, not mere presence:
	// (a) success is reached only with the primary rule file verified, or absent
	absent := eng.RelEdges(fn, token.EQL, eng.PField("TargetsEnvelope", nil), eng.PNil())
	cutP := eng.NewCut().AddEdges(absent...)
	for _, v := range vs {
		if eng.PCall("(*internal/policy.State).getTargetsVerifier", 0)(v.Recv()) {
			v.OKPoints(cutP)
		}
	}
	mustPass(c, r, "primary-verified-or-absent", fn, isSuccessReturn, cutP,
		"State.Verify succeeds only with the primary rule file's signatures verified, or no primary rule file",
		"State.Verify can succeed with a primary rule file present whose signatures were not verified (presence test inverted or verification bypassed)")
	// (b) and the root envelope verified, unconditionally
	cutR := eng.NewCut()
	for _, v := range vs {
		if eng.PCall("(*internal/policy.State).getRootVerifier", 0)(v.Recv()) {
			v.OKPoints(cutR)
		}
	}
	mustPass(c, r, "root-verified", fn, isSuccessReturn, cutR, "State.Verify succeeds only with the root envelope verified by its own root principals", "State.Verify can succeed without the root envelope having been verified")
	// (c) a delegated rule file that exists is verified before it is marked reached and before its
	// rules are followed: from the true edge of HasTargetsRole(delegation.ID()) the next rule / success
	// is reached only through the delegated Verify's nil edge
	has := eng.BoolEdges(fn, func(v ssa.Value) bool {
		k, _, ok := eng.RootCall(v)
		return ok && k.Method() == "HasTargetsRole" && eng.PMethod("ID", nil)(k.Arg(0))
	}, true)
	cutD := eng.NewCut()
	for _, v := range vs {
		if !eng.PCall("(*internal/policy.State).getTargetsVerifier", 0)(v.Recv()) && !eng.PCall("(*internal/policy.State).getRootVerifier", 0)(v.Recv()) {
			v.OKPoints(cutD)
		}
	}
	heads := map[ssa.Instruction]bool{}
	for in := range loopHeads(fn) {
		// the walk's own loop: `for len(delegationsQueue) > 1`
		if _, ok := eng.CmpAtom(in.(*ssa.If).Cond, eng.PLen(eng.PAny()), eng.PInt(1)); ok {
			heads[in] = true
		}
	}
	okD := len(has) > 0 && len(heads) == 1
	for _, e := range has {
		if p := eng.FindPath(e.To(), 0, func(in ssa.Instruction) bool { return heads[in] || isSuccessReturn(in) }, cutD); p != nil {
			okD = false
		}
	}
	r.Check(okD, "delegated-verified-when-present", fn.Pos(), "an existing delegated rule file is verified before the walk moves on", "a delegated rule file that exists can be passed over without its signatures being verified against the delegating rule")
	// (d) dangling: the error is returned exactly on the not-reached edge of the scan over the reachability map
	reachedVal := func(v ssa.Value) bool {
		ex, ok := v.(*ssa.Extract)
		if !ok {
			return false
		}
		nx, ok := ex.Tuple.(*ssa.Next)
		if !ok || ex.Index != 2 {
			return false
		}
		rg, ok := nx.Iter.(*ssa.Range)
		return ok && strings.HasSuffix(rg.X.Type().String(), "map[string]bool")
	}
	notReached := eng.BoolEdges(fn, reachedVal, false)
	okDang := len(notReached) > 0
	for _, e := range notReached {
		if p := eng.LeadsOnlyToErr(e, "ErrDanglingDelegationMetadata"); p != nil {
			okDang = false
		}
	}
	r.Check(okDang, "dangling-polarity", fn.Pos(), "a rule file that was not reached → ErrDanglingDelegationMetadata", "an unreached delegated rule file does not lead to ErrDanglingDelegationMetadata (test inverted or removed)")
	for _, h := range eng.LoopsOver(fn, func(v ssa.Value) bool { return strings.HasSuffix(v.Type().String(), "map[string]bool") }) {
		scanExhaustive(c, r, "dangling-all-checked", h, nil, "reachability map")
	}
	// (e) the reachability mark is set to true only for a file that was verified (behind the delegated Verify… or, as on the
	// reference tree, immediately on the HasTargetsRole edge whose continuation must pass that Verify: covered by (c))
	_ = recv
}

func c02AllModes(c *Ctx, r *R) {
	type mode struct {
		spec   string
		finder []string
	}
	modes := []mode{
		{fnVRFR, []string{"FindPolicyEntryFor"}},
		{fnVM, []string{"FindLatestPolicyEntry"}},
		{"(*internal/policy.PolicyVerifier).VerifyNetwork", []string{"FindLatestPolicyEntry", "GetLatestReferenceUpdaterEntry"}},
		{"internal/policy.LoadCurrentState", []string{"GetLatestReferenceUpdaterEntry"}},
	}
	for _, m := range modes {
		fn := r.Fn(m.spec)
		if fn == nil {
			continue
		}
		short := m.spec[strings.LastIndex(m.spec, ".")+1:]
		ls := eng.CallsTo(fn, false, fnLoadState)
		if len(ls) == 0 {
			r.Bad("uses-loadstate:"+short, fn.Pos(), "%s does not obtain its policy through LoadState", short)
			continue
		}
		for i, k := range ls {
			r.Site(1)
			errPropagates(c, r, "loadstate-error:"+short+":"+itoa(i), k)
			okArg := false
			for _, root := range eng.Roots(k.Arg(2)) {
				if src, _, isCall := eng.RootCall(root); isCall {
					for _, f := range m.finder {
						if src.Method() == f {
							okArg = true
						}
					}
				}
			}
			r.Check(okArg, "loadstate-entry:"+short+":"+itoa(i), k.Pos(), "LoadState is given the entry found by "+strings.Join(m.finder, "/"), "LoadState's entry argument in "+short+" does not come from "+strings.Join(m.finder, "/"))
		}
	}
	// FindPolicyEntryFor is asked about firstEntry
	if fn := r.Fn(fnVRFR); fn != nil {
		for _, k := range eng.Calls(fn, false) {
			if k.Method() == "FindPolicyEntryFor" || k.Method() == "FindAttestationsEntryFor" {
				r.Check(eng.PParam("firstEntry")(k.Arg(0)), "state-for-first-entry:"+k.Method(), k.Pos(), k.Method()+"(firstEntry)", k.Method()+" is not asked about firstEntry: the initial state would belong to a different point of the log")
			}
		}
	}
}

// exactly matches the very same SSA value (e.g. a phi) modulo conversions.
func exactly(w ssa.Value) Pat {
	return func(v ssa.Value) bool { return eng.Strip(v) == eng.Strip(w) }
}
