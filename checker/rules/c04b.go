package rules

import (
	"go/token"
	"strings"

	"golang.org/x/tools/go/ssa"

	"verif/checker/eng"
)

func init() {
	reg(&eng.Rule{ID: "C04.annotation-predicates", Prop: "C04", Floor: 10,
		Doc: "The predicates through which every reader and the verifier decide 'which annotations refer to an entry' and 'is it skipped' are exact existence scans: AnnotationEntry.RefersTo returns true only where some id of RSLEntryIDs equals the argument and false only after all were compared; ReferenceEntry.SkippedBy returns true only where an annotation both RefersTo(e.ID) and has Skip, false only after all annotations were examined; filterAnnotationsForRelevantAnnotations keeps exactly the annotations with RefersTo(entryID); the range reader's annotation map receives (id → annotation) for every id of every annotation that is in the range (no early exit from either loop).",
		Run: c04AnnotationPredicates})
}

// existsScan checks a bool function of the form `for x in over { if conj… { return true } } return false`.
func existsScan(c *Ctx, r *R, key string, fn *ssa.Function, over eng.Pat, conj []eng.Pat, what string) {
	existsScanT(c, r, key, fn, over, conj, what, nil)
}

// existsScanT additionally requires that each element is put to the test: from the loop body's
// entry the next element is reached only through one of the instructions in tests.
func existsScanT(c *Ctx, r *R, key string, fn *ssa.Function, over eng.Pat, conj []eng.Pat, what string, tests []ssa.Instruction) {
	heads := eng.LoopsOver(fn, over)
	if len(heads) != 1 {
		r.Bad(key+":scan", fn.Pos(), "%s: expected exactly one loop over the scanned collection, found %d", what, len(heads))
		return
	}
	head := heads[0]
	loop := eng.NaturalLoop(head)
	okT, okF, nT, nF := true, true, 0, 0
	for _, ret := range eng.Returns(fn) {
		if len(ret.Results) != 1 {
			continue
		}
		val, isC := eng.ConstBool(ret.Results[0])
		if !isC {
			// a phi of constants (single return block): look at each incoming edge
			if phi, ok := ret.Results[0].(*ssa.Phi); ok && phi.Block() == ret.Block() {
				for i, e := range phi.Edges {
					v, isC := eng.ConstBool(e)
					pred := phi.Block().Preds[i]
					if !isC {
						okT, okF = false, false
						continue
					}
					if v {
						nT++
						for _, cj := range conj {
							dom := false
							for _, te := range eng.BoolEdges(fn, cj, true) {
								if eng.EdgeDominates(te, pred) || (te.From == pred && te.To() == phi.Block() && len(phi.Block().Preds) >= 1) {
									dom = true
								}
							}
							if !dom {
								okT = false
							}
						}
					} else {
						nF++
						if loop[pred] && pred != head {
							okF = false
						}
					}
				}
				continue
			}
			okT, okF = false, false
			continue
		}
		if val {
			nT++
			for _, cj := range conj {
				dom := false
				for _, te := range eng.BoolEdges(fn, cj, true) {
					if eng.EdgeDominates(te, ret.Block()) {
						dom = true
					}
				}
				if !dom {
					okT = false
				}
			}
		} else {
			nF++
			// false only after exhaustion: the block is outside the loop and every loop exit other than the header's leads to a `true` return
			if loop[ret.Block()] {
				okF = false
			}
		}
	}
	for _, e := range eng.LoopExits(head) {
		if e.From == head {
			continue
		}
		// leaving the loop early is allowed only towards a `return true`
		p := eng.FindPath(e.To(), 0, func(in ssa.Instruction) bool {
			ret, ok := in.(*ssa.Return)
			if !ok || len(ret.Results) != 1 {
				return false
			}
			v, isC := eng.ConstBool(ret.Results[0])
			return !(isC && v)
		}, nil)
		if p != nil {
			okF = false
		}
	}
	if tests != nil {
		okE := true
		hd := head.Instrs[len(head.Instrs)-1]
		for i, s := range head.Succs {
			if !loop[s] {
				continue
			}
			_ = i
			if p := eng.FindPath(s, 0, func(in ssa.Instruction) bool { return in == hd }, eng.NewCut().AddInstrs(tests...)); p != nil {
				okE = false
			}
		}
		r.Check(okE, key+":every-element-tested", fn.Pos(), what+": every element is put to the test", what+": an element can be passed over without being tested (a filter sits in front of the test)")
	}
	r.Check(okT && nT >= 1, key+":true-only-if", fn.Pos(), what+": true is returned only where the condition holds for an element", what+": `true` can be returned without the element condition holding (condition dropped, weakened or inverted)")
	r.Check(okF && nF >= 1, key+":false-only-after-all", fn.Pos(), what+": false is returned only after every element was examined", what+": `false` can be returned (or the scan left) before every element was examined")
}

func c04AnnotationPredicates(c *Ctx, r *R) {
	// RefersTo
	if fn := r.Fn("(*pkg/rsl.AnnotationEntry).RefersTo"); fn != nil {
		r.Site(1)
		idEq := func(v ssa.Value) bool {
			k, _, ok := eng.RootCall(v)
			if !ok || k.Method() != "Equal" {
				return false
			}
			// element of RSLEntryIDs compared with the parameter (either order, Bytes() allowed)
			mentions := func(x ssa.Value, p eng.Pat) bool {
				hit := false
				eng.WalkOperands(x, 4, func(w ssa.Value) {
					if p(w) {
						hit = true
					}
				})
				return hit
			}
			elem := func(w ssa.Value) bool {
				if u, ok := w.(*ssa.UnOp); ok {
					if ia, ok := u.X.(*ssa.IndexAddr); ok {
						return eng.PField("RSLEntryIDs", nil)(ia.X)
					}
				}
				return false
			}
			a, b := k.Recv(), k.Arg(0)
			return (mentions(a, elem) && mentions(b, eng.PParam("entryID"))) || (mentions(b, elem) && mentions(a, eng.PParam("entryID")))
		}
		existsScan(c, r, "refers-to", fn, eng.PField("RSLEntryIDs", nil), []eng.Pat{idEq}, "AnnotationEntry.RefersTo")
	}
	// SkippedBy
	if fn := r.Fn("(*pkg/rsl.ReferenceEntry).SkippedBy"); fn != nil {
		r.Site(1)
		refers := func(v ssa.Value) bool {
			k, _, ok := eng.RootCall(v)
			if !ok || k.Method() != "RefersTo" {
				return false
			}
			n, base, isF := eng.FieldLoad(k.Arg(0))
			return isF && n == "ID" && eng.PParam("e")(base)
		}
		skip := func(v ssa.Value) bool { n, _, isF := eng.FieldLoad(v); return isF && n == "Skip" }
		existsScan(c, r, "skipped-by", fn, eng.PParam("annotations"), []eng.Pat{refers, skip}, "ReferenceEntry.SkippedBy")
		// both conditions are about the same annotation (the loop element)
		same := true
		var recvs []ssa.Value
		for _, k := range eng.Calls(fn, false) {
			if k.Method() == "RefersTo" {
				recvs = append(recvs, k.Recv())
			}
		}
		for _, b := range fn.Blocks {
			for _, in := range b.Instrs {
				if u, ok := in.(*ssa.UnOp); ok {
					if fa, ok := u.X.(*ssa.FieldAddr); ok && fieldNameOf(fa) == "Skip" {
						for _, rv := range recvs {
							if !sameObjVal(fa.X, rv) {
								same = false
							}
						}
					}
				}
			}
		}
		r.Check(same && len(recvs) == 1, "skipped-by:same-annotation", fn.Pos(), "RefersTo and Skip are read from the same annotation", "RefersTo and Skip are not read from the same annotation")
	}
	// filterAnnotationsForRelevantAnnotations
	if fn := r.Fn("pkg/rsl.filterAnnotationsForRelevantAnnotations"); fn != nil {
		r.Site(1)
		heads := eng.LoopsOver(fn, eng.PParam("allAnnotations"))
		if len(heads) != 1 {
			r.Bad("filter:scan", fn.Pos(), "expected one loop over allAnnotations")
		} else {
			scanExhaustive(c, r, "filter:scan", heads[0], nil, "filterAnnotationsForRelevantAnnotations")
			refers := eng.BoolEdges(fn, func(v ssa.Value) bool {
				k, _, ok := eng.RootCall(v)
				return ok && k.Method() == "RefersTo" && eng.PParam("entryID")(k.Arg(0))
			}, true)
			n, okA := 0, true
			for _, k := range eng.Calls(fn, false) {
				if k.Name() != "builtin.append" {
					continue
				}
				n++
				dom := false
				for _, e := range refers {
					if eng.EdgeDominates(e, k.Block()) {
						dom = true
					}
				}
				okA = okA && dom
			}
			r.Check(okA && n == 1 && len(refers) == 1, "filter:kept-iff-refers", fn.Pos(), "an annotation is kept exactly on the RefersTo(entryID) edge", "the filter keeps annotations without RefersTo(entryID) holding, or has no such test")
			// the kept edge must actually append: from the RefersTo-true edge the loop header is reached only via the append
			for _, e := range refers {
				var app ssa.Instruction
				for _, k := range eng.Calls(fn, false) {
					if k.Name() == "builtin.append" {
						app = k.Instr
					}
				}
				hs := loopHeads(fn)
				p := eng.FindPath(e.To(), 0, func(in ssa.Instruction) bool { return hs[in] }, eng.NewCut().AddInstrs(app))
				r.Check(p == nil && app != nil, "filter:all-referring-kept", fn.Pos(), "every referring annotation is kept", "an annotation that refers to the entry can be dropped by the filter")
			}
		}
	}
	if fn := r.Fn("pkg/rsl.filterAnnotationsForRelevantAnnotations"); fn != nil {
		// nil is returned only for an empty result
		empty := eng.RelEdges(fn, token.EQL, eng.PLen(eng.PAny()), eng.PInt(0))
		okN := true
		for _, ret := range eng.Returns(fn) {
			if len(ret.Results) == 1 && eng.IsNilConst(ret.Results[0]) {
				dom := false
				for _, e := range empty {
					if eng.EdgeDominates(e, ret.Block()) {
						dom = true
					}
				}
				okN = okN && dom
			}
		}
		r.Check(okN, "filter:nil-only-if-empty", fn.Pos(), "nil is returned only when nothing was kept", "the filter can return nil although annotations were kept")
	}
	// which gittuf references are always in range: refs/gittuf/* except policy-staging
	if fn := r.Fn("pkg/rsl.isRelevantGittufRef"); fn != nil {
		r.Site(1)
		pre := func(v ssa.Value) bool {
			k, _, ok := eng.RootCall(v)
			if !ok || k.Name() != "strings.HasPrefix" || !eng.PParam("refName")(k.Arg(0)) {
				return false
			}
			s, isC := eng.ConstString(k.Arg(1))
			return isC && s == "refs/gittuf/"
		}
		inNS := eng.BoolEdges(fn, pre, true)
		notStaging := eng.RelEdges(fn, token.NEQ, eng.PParam("refName"), eng.PStr(refStaging))
		okT, okF, nT, nF := true, true, 0, 0
		for _, ret := range eng.Returns(fn) {
			if len(ret.Results) != 1 {
				continue
			}
			v, isC := eng.ConstBool(ret.Results[0])
			if !isC {
				okT, okF = false, false
				continue
			}
			d1, d2 := false, false
			for _, e := range inNS {
				d1 = d1 || eng.EdgeDominates(e, ret.Block())
			}
			for _, e := range notStaging {
				d2 = d2 || eng.EdgeDominates(e, ret.Block())
			}
			if v {
				nT++
				okT = okT && d1 && d2
			} else {
				nF++
				okF = okF && !(d1 && d2)
			}
		}
		r.Check(okT && nT >= 1 && okF && nF >= 1 && len(inNS) == 1 && len(notStaging) == 1, "gittuf-refs-in-range", fn.Pos(),
			"a reference is always in range exactly when it is under refs/gittuf/ and is not the policy-staging reference",
			"isRelevantGittufRef no longer answers true exactly for refs/gittuf/* minus policy-staging (policy / attestations entries would drop out of verification ranges, or staging entries enter them)")
	}
	// the range reader's annotation map
	if fn := r.Fn("pkg/rsl.GetReferenceUpdaterEntriesInRangeForRef"); fn != nil {
		r.Site(1)
		annSlice := func(v ssa.Value) bool {
			return strings.HasSuffix(v.Type().String(), "[]*"+eng.Module+"/pkg/rsl.AnnotationEntry")
		}
		outer := eng.LoopsOver(fn, annSlice)
		inner := eng.LoopsOver(fn, eng.PField("RSLEntryIDs", nil))
		if len(outer) != 1 || len(inner) != 1 {
			r.Bad("range-map:loops", fn.Pos(), "expected one loop over the accumulated annotations and one over each annotation's RSLEntryIDs (found %d, %d)", len(outer), len(inner))
			return
		}
		scanExhaustive(c, r, "range-map:all-annotations", outer[0], nil, "annotation map: loop over accumulated annotations")
		scanExhaustive(c, r, "range-map:all-ids", inner[0], nil, "annotation map: loop over an annotation's RSLEntryIDs")
		// every in-range id gets the annotation: from the in-range true edge the next id is reached only via a MapUpdate of the result map
		var inRange []eng.Edge
		for _, b := range fn.Blocks {
			for _, in := range b.Instrs {
				lk, ok := in.(*ssa.Lookup)
				if !ok || !strings.HasSuffix(lk.X.Type().String(), "map[string]bool") {
					continue
				}
				if lk.CommaOk {
					for _, ref := range *lk.Referrers() {
						if ex, ok := ref.(*ssa.Extract); ok && ex.Index == 1 {
							inRange = append(inRange, eng.BoolEdges(fn, eng.PSame(ex), true)...)
						}
					}
				} else {
					inRange = append(inRange, eng.BoolEdges(fn, eng.PSame(lk), true)...)
				}
			}
		}
		var upd []ssa.Instruction
		okDom := true
		for _, b := range fn.Blocks {
			for _, in := range b.Instrs {
				mu, ok := in.(*ssa.MapUpdate)
				if !ok || !strings.HasSuffix(mu.Map.Type().String(), "[]*"+eng.Module+"/pkg/rsl.AnnotationEntry") {
					continue
				}
				// only updates that store an appended slice (not the empty initialisation)
				if k, _, isCall := eng.RootCall(eng.Strip(mu.Value)); isCall && k.Name() == "builtin.append" {
					upd = append(upd, in)
					dom := false
					for _, e := range inRange {
						if eng.EdgeDominates(e, b) {
							dom = true
						}
					}
					okDom = okDom && dom
				}
			}
		}
		r.Check(len(inRange) >= 1 && len(upd) >= 1 && okDom, "range-map:only-in-range", fn.Pos(), "an annotation is recorded under an id only if that id is in the range", "the annotation map is filled without the in-range test holding")
		hs := map[ssa.Instruction]bool{inner[0].Instrs[len(inner[0].Instrs)-1]: true}
		okAll := len(inRange) >= 1
		for _, e := range inRange {
			if p := eng.FindPath(e.To(), 0, func(in ssa.Instruction) bool { return hs[in] }, eng.NewCut().AddInstrs(upd...)); p != nil {
				okAll = false
			}
		}
		r.Check(okAll, "range-map:every-in-range-id", fn.Pos(), "every in-range id an annotation names receives that annotation", "an in-range id named by an annotation can be passed over without the annotation being recorded for it")
	}
}
