package rules

import (
	"fmt"
	"go/constant"
	"go/token"
	"go/types"
	"sort"
	"strings"

	"golang.org/x/tools/go/ssa"

	"verif/checker/eng"
)

func init() {
	Meta["C13"] = PropMeta{
		Explanation: "Static necessary conditions of 'policy metadata stays well formed under edits, serialization and migration', decided as the inductive step of each invariant at every writer: every store to Delegations.Roles (both schemas, constructors, migration, unmarshalling) matches a proof pattern under which 'the allow rule is last and nowhere else' is preserved; every rule mutator starts with the reserved-prefix guard, ReorderRules accepts exactly the current non-allow names, and the repository API / loader refuse duplicate rule names; every non-constant threshold store is guarded by '>0' and 'distinct principals >= threshold', every removal from a role by 'Len() > Threshold'; rule principals are looked up before being stored and a principal still named by a rule cannot be removed; no mutator of the rule/role/principal tables returns an error after it has already changed the metadata; every hand-written UnmarshalJSON shadow struct is a field-for-field copy of its receiver and every field is carried over; the legacy-to-current migration reads every source field and assigns every target field. Extensional equality of query answers after round-trip/migration over all metadata is NOT decided.",
		Decides:     []string{"allow rule last at every Roles writer", "reserved prefix + duplicate-name refusals", "threshold >= 1 and meetable by DISTINCT principals at every writer", "principals defined / still-in-use refusal", "refuse-without-mutation on the rule/role/principal tables", "UnmarshalJSON shadow structs complete", "migration reads/writes every field"},
		NotDecided:  []string{"equality of GetRules/Matches/GetPrincipals/GetThreshold answers after arbitrary edit sequences, round-trips and migration", "well-formedness of metadata that was never produced by these mutators (hand-written JSON)"},
	}
	reg(&eng.Rule{ID: "C13.allow-last", Prop: "C13", Floor: 13,
		Doc: "Every store to Delegations.Roles (v01, v02) matches an accepted proof pattern: A append(allow-free base, non-allow elements…, AllowRule()); B order-preserving filter of the previous roles that can only drop a name without the reserved prefix; C literal [AllowRule()]; D element-wise order-preserving copy (unmarshal, migration). Anything else is undecided.",
		Run: c13AllowLast})
	reg(&eng.Rule{ID: "C13.reserved-prefix", Prop: "C13", Floor: 12,
		Doc: "AddRule/UpdateRule/RemoveRule (both schemas) refuse names with GittufPrefix before anything else; AllowRuleName carries that prefix; ReorderRules succeeds only when the specified names equal the current non-allow names; AddDelegation refuses an existing rule name before AddRule; preprocess refuses duplicates in both scans.",
		Run: c13ReservedPrefix})
	reg(&eng.Rule{ID: "C13.threshold", Prop: "C13", Floor: 14,
		Doc: "Every store of a non-constant Threshold into a Role is reached only after 'threshold <= 0 → ErrInvalidThreshold' and 'count < threshold → ErrCannotMeetThreshold', where count is the number of DISTINCT principals of that role (Len() of the stored set, not len() of the argument slice); constant thresholds are >= 1 with a non-empty principal set (allow rule excepted); every Remove on a role's principal set is reached only after 'Len() <= Threshold → error'; global threshold rules are refused when <= 0.",
		Run: c13Threshold})
	reg(&eng.Rule{ID: "C13.principals-defined", Prop: "C13", Floor: 8,
		Doc: "Add/UpdateRule look every authorised id up in the rule file's principal table (missing → ErrPrincipalNotFound) before the set built from the same slice is stored; removePrincipal/removeKey delete only after scanning every role for the id (→ ErrPrincipalStillInUse); root mutators add the principal to the table before naming it in a role.",
		Run: c13PrincipalsDefined})
}

var tufSchemaPkgs = []string{"internal/tuf/v01", "internal/tuf/v02"}

func inTufSchemaPkg(p *types.Package) bool {
	if p == nil {
		return false
	}
	for _, s := range tufSchemaPkgs {
		if strings.HasSuffix(p.Path(), s) {
			return true
		}
	}
	return false
}

// namedOf returns the named struct type behind t (through one pointer).
func namedOf(t types.Type) *types.Named {
	t = types.Unalias(t)
	if p, ok := t.Underlying().(*types.Pointer); ok {
		t = types.Unalias(p.Elem())
	}
	n, _ := t.(*types.Named)
	return n
}

// fieldAddrOf reports whether v is &x.<field> with x of a struct type named
// typeName declared in one of the tuf schema packages.
func fieldAddrOf(v ssa.Value, typeName, field string) (*ssa.FieldAddr, bool) {
	fa, ok := v.(*ssa.FieldAddr)
	if !ok {
		return nil, false
	}
	n := namedOf(fa.X.Type())
	if n == nil || n.Obj().Name() != typeName || !inTufSchemaPkg(n.Obj().Pkg()) {
		return nil, false
	}
	if fieldName(fa) != field {
		return nil, false
	}
	return fa, true
}

func fieldName(fa *ssa.FieldAddr) string { return fieldNameOf(fa) }

func constStringObj(c *Ctx, spec string) (string, bool) {
	o := c.Object(spec)
	k, ok := o.(*types.Const)
	if !ok || k.Val().Kind() != constant.String {
		return "", false
	}
	return constant.StringVal(k.Val()), true
}

// ---------------------------------------------------------------- allow-last

type rolesProver struct {
	c         *Ctx
	fn        *ssa.Function
	allowName string
	prefix    string
	why       []string
}

func (p *rolesProver) note(format string, a ...any) { p.why = append(p.why, fmt.Sprintf(format, a...)) }

// isAllowCall: v is the result of AllowRule() of a tuf schema package.
func isAllowCall(v ssa.Value) bool {
	rs := eng.Roots(v)
	if len(rs) == 0 {
		return false
	}
	for _, r := range rs {
		k, _, ok := eng.RootCall(r)
		if !ok || k.Callee == nil || k.Callee.Name() != "AllowRule" || !inTufSchemaPkg(k.Callee.Pkg()) {
			return false
		}
	}
	return true
}

// isEmptySlice: nil, []T{}, make([]T, 0, n).
func isEmptySlice(v ssa.Value) bool {
	v = eng.Strip(v)
	if eng.IsNilConst(v) {
		return true
	}
	switch x := v.(type) {
	case *ssa.Slice:
		if al, ok := x.X.(*ssa.Alloc); ok && x.Low == nil && x.High == nil {
			if pt, ok := al.Type().Underlying().(*types.Pointer); ok {
				if at, ok := pt.Elem().Underlying().(*types.Array); ok && at.Len() == 0 {
					return true
				}
			}
		}
	case *ssa.MakeSlice:
		n, ok := eng.ConstInt(x.Len)
		return ok && n == 0
	}
	return false
}

// isRolesLoad: v is a load of the Roles field of a Delegations value.
func isRolesLoad(v ssa.Value) (*ssa.FieldAddr, bool) {
	u, ok := eng.Strip(v).(*ssa.UnOp)
	if !ok || u.Op != token.MUL {
		return nil, false
	}
	return fieldAddrOf(u.X, "Delegations", "Roles")
}

// isOldRolesOrEmpty: every origin of v is a load of Delegations.Roles or an
// empty literal (the `if roles == nil { roles = []T{} }` idiom).
func isOldRolesOrEmpty(v ssa.Value) bool {
	rs := eng.Roots(v)
	if len(rs) == 0 {
		return false
	}
	some := false
	for _, r := range rs {
		if _, ok := isRolesLoad(r); ok {
			some = true
			continue
		}
		if isEmptySlice(r) {
			continue
		}
		return false
	}
	return some
}

// isAllButLast: v is x[:len(x)-1] with x the previous roles.
func isAllButLast(v ssa.Value) bool {
	sl, ok := eng.Strip(v).(*ssa.Slice)
	if !ok || sl.Low != nil || sl.High == nil || sl.Max != nil {
		return false
	}
	if !isOldRolesOrEmpty(sl.X) {
		return false
	}
	b, ok := eng.Strip(sl.High).(*ssa.BinOp)
	if !ok || b.Op != token.SUB {
		return false
	}
	one, ok := eng.ConstInt(b.Y)
	if !ok || one != 1 {
		return false
	}
	return eng.IsLenOf(func(x ssa.Value) bool { return sameValueOrRoots(x, sl.X) })(b.X)
}

func sameValueOrRoots(a, b ssa.Value) bool {
	if eng.Strip(a) == eng.Strip(b) {
		return true
	}
	ra, rb := eng.Roots(a), eng.Roots(b)
	if len(ra) != len(rb) || len(ra) == 0 {
		return false
	}
	for _, x := range ra {
		f := false
		for _, y := range rb {
			if x == y {
				f = true
			}
		}
		if !f {
			return false
		}
	}
	return true
}

// appendParts decomposes a builtin append call.
func appendParts(v ssa.Value) (base ssa.Value, elems []ssa.Value, call *ssa.Call, ok bool) {
	c, isCall := eng.Strip(v).(*ssa.Call)
	if !isCall {
		return nil, nil, nil, false
	}
	b, isB := c.Call.Value.(*ssa.Builtin)
	if !isB || b.Name() != "append" || len(c.Call.Args) != 2 {
		return nil, nil, nil, false
	}
	els := eng.VariadicElems(c.Call.Args[1])
	if els == nil {
		return c.Call.Args[0], nil, c, true // append(a, b...) with a non-literal tail
	}
	return c.Call.Args[0], els, c, true
}

// prefixGuardedParam: p is a string parameter and blk is reached only on the
// false edge of strings.HasPrefix(p, GittufPrefix), whose true edge leads only
// to error returns.
func (p *rolesProver) prefixGuardedParam(v ssa.Value, blk *ssa.BasicBlock) bool {
	rs := eng.Roots(v)
	if len(rs) != 1 {
		return false
	}
	par, ok := rs[0].(*ssa.Parameter)
	if !ok {
		return false
	}
	return prefixGuardDominates(p.fn, par, p.prefix, blk)
}

func prefixGuardDominates(fn *ssa.Function, par *ssa.Parameter, prefix string, blk *ssa.BasicBlock) bool {
	isGuard := func(v ssa.Value) bool {
		k, _, ok := eng.RootCall(v)
		if !ok || k.Name() != "strings.HasPrefix" {
			return false
		}
		a0 := eng.Roots(k.Arg(0))
		s, okS := eng.ConstString(k.Arg(1))
		return len(a0) == 1 && a0[0] == ssa.Value(par) && okS && s == prefix
	}
	for _, e := range eng.BoolEdges(fn, isGuard, true) {
		if eng.LeadsOnlyToErr(e, "") != nil {
			continue
		}
		pass := eng.Edge{From: e.From, Idx: 1 - e.Idx}
		if eng.EdgeDominates(pass, blk) {
			return true
		}
	}
	return false
}

// nameExprOf: v is `x.Name` or `x.ID()` for x the same object as elem.
func nameExprOf(v, elem ssa.Value) bool {
	v = eng.Strip(v)
	if n, base, ok := eng.FieldLoad(v); ok && n == "Name" {
		return sameObj(elem)(base)
	}
	if k, _, ok := eng.RootCall(v); ok && k.Method() == "ID" {
		if rv := k.Recv(); rv != nil {
			return sameObj(elem)(rv)
		}
	}
	return false
}

// knownNotAllowAt: on every path to blk the name of elem was compared with
// AllowRuleName and found different.
func (p *rolesProver) knownNotAllowAt(elem ssa.Value, blk *ssa.BasicBlock) bool {
	for _, g := range eng.GuardsAt(blk) {
		b, ok := g.Cond.(*ssa.BinOp)
		if !ok || (b.Op != token.EQL && b.Op != token.NEQ) {
			continue
		}
		var other ssa.Value
		switch {
		case nameExprOf(b.X, elem):
			other = b.Y
		case nameExprOf(b.Y, elem):
			other = b.X
		default:
			continue
		}
		s, okS := eng.ConstString(other)
		if !okS || s != p.allowName {
			continue
		}
		if (b.Op == token.NEQ && g.Pol) || (b.Op == token.EQL && !g.Pol) {
			return true
		}
	}
	return false
}

// nonAllow: elem cannot be the allow rule when appended in blk.
func (p *rolesProver) nonAllow(elem ssa.Value, blk *ssa.BasicBlock, depth int) bool {
	if depth > 4 {
		return false
	}
	if isAllowCall(elem) {
		p.note("an AllowRule() value is appended before the last position")
		return false
	}
	if p.knownNotAllowAt(elem, blk) {
		return true
	}
	rs := eng.Roots(elem)
	if len(rs) == 0 {
		return false
	}
	for _, r := range rs {
		switch x := r.(type) {
		case *ssa.Alloc:
			// fresh Delegation literal: Name must be a prefix-guarded parameter or a harmless constant
			st := allocStores(x)
			nv, ok := st["Name"]
			if !ok {
				p.note("a Delegation literal without a Name is appended")
				return false
			}
			if s, isC := eng.ConstString(nv); isC {
				if strings.HasPrefix(s, p.prefix) {
					p.note("a Delegation literal named %q (reserved prefix) is appended", s)
					return false
				}
				continue
			}
			if !p.prefixGuardedParam(nv, blk) {
				p.note("the new rule's name is not a parameter guarded by the reserved-prefix test")
				return false
			}
		case *ssa.Lookup:
			// rolesMap[name]: every value put into the map must be non-allow where it is put
			mk, ok := eng.Strip(x.X).(*ssa.MakeMap)
			if !ok {
				p.note("an element looked up in a map that is not local to the function is appended")
				return false
			}
			n := 0
			for _, ref := range *mk.Referrers() {
				if mu, ok := ref.(*ssa.MapUpdate); ok {
					n++
					if !p.nonAllow(mu.Value, mu.Block(), depth+1) {
						p.note("the lookup map can hold the allow rule (update at %s)", p.c.Rel(mu.Pos()))
						return false
					}
				}
			}
			if n == 0 {
				return false
			}
		default:
			if ex, ok := r.(*ssa.Extract); ok {
				if lk, ok := ex.Tuple.(*ssa.Lookup); ok && ex.Index == 0 {
					if !p.nonAllow(lk, blk, depth+1) {
						return false
					}
					continue
				}
			}
			p.note("cannot show that the appended element %s is not the allow rule (no dominating test of its name against AllowRuleName)", r.Name())
			return false
		}
	}
	return true
}

// allowFree: the slice value contains no allow rule.
func (p *rolesProver) allowFree(v ssa.Value, seen map[ssa.Value]bool) bool {
	v = eng.Strip(v)
	if seen[v] {
		return true // coinductive: loop-carried accumulator
	}
	seen[v] = true
	if isEmptySlice(v) {
		return true
	}
	if isAllButLast(v) {
		return true // inductive hypothesis: the previous roles end with the only allow rule
	}
	if ph, ok := v.(*ssa.Phi); ok {
		for _, e := range ph.Edges {
			if !p.allowFree(e, seen) {
				return false
			}
		}
		return true
	}
	if base, elems, call, ok := appendParts(v); ok {
		if elems == nil {
			p.note("append with a non-literal tail")
			return false
		}
		for _, e := range elems {
			if !p.nonAllow(e, call.Block(), 0) {
				return false
			}
		}
		return p.allowFree(base, seen)
	}
	p.note("slice value %s has no recognised allow-free shape", v.Name())
	return false
}

// patternA: append(allow-free base, non-allow…, AllowRule()).
func (p *rolesProver) patternA(v ssa.Value) bool {
	base, elems, call, ok := appendParts(v)
	if !ok || len(elems) == 0 {
		return false
	}
	if !isAllowCall(elems[len(elems)-1]) {
		p.note("the last appended element is not AllowRule()")
		return false
	}
	for _, e := range elems[:len(elems)-1] {
		if !p.nonAllow(e, call.Block(), 0) {
			return false
		}
	}
	return p.allowFree(base, map[ssa.Value]bool{})
}

// patternC: literal []*Delegation{AllowRule()}.
func (p *rolesProver) patternC(v ssa.Value) bool {
	els := eng.VariadicElems(v)
	return len(els) == 1 && isAllowCall(els[0])
}

// rangeElemOf: elem is `xs[i]` loaded with the rangeindex phi of a loop over xs.
func rangeElemOf(elem ssa.Value, isSource func(ssa.Value) bool) bool {
	rs := eng.Roots(elem)
	if len(rs) != 1 {
		return false
	}
	u, ok := rs[0].(*ssa.UnOp)
	if !ok || u.Op != token.MUL {
		return false
	}
	ia, ok := u.X.(*ssa.IndexAddr)
	if !ok || !isSource(ia.X) {
		return false
	}
	idx, ok := eng.Strip(ia.Index).(*ssa.BinOp) // rangeindex: t = phi+1
	if !ok || idx.Op != token.ADD {
		return false
	}
	ph, ok := idx.X.(*ssa.Phi)
	return ok && ph.Comment == "rangeindex"
}

// patternB: filter of the previous roles that preserves order and can only drop
// names equal to a prefix-guarded parameter.
func (p *rolesProver) patternB(v ssa.Value) bool {
	// collect the append sites of the accumulator web
	var sites []*ssa.Call
	seen := map[ssa.Value]bool{}
	okShape := true
	var walk func(x ssa.Value)
	walk = func(x ssa.Value) {
		x = eng.Strip(x)
		if seen[x] {
			return
		}
		seen[x] = true
		if isEmptySlice(x) {
			return
		}
		if ph, ok := x.(*ssa.Phi); ok {
			for _, e := range ph.Edges {
				walk(e)
			}
			return
		}
		if base, elems, call, ok := appendParts(x); ok && len(elems) == 1 {
			sites = append(sites, call)
			walk(base)
			return
		}
		okShape = false
	}
	walk(v)
	if !okShape || len(sites) != 1 {
		return false
	}
	call := sites[0]
	_, elems, _, _ := appendParts(call)
	elem := elems[0]
	if !rangeElemOf(elem, isOldRolesOrEmpty) {
		p.note("the filtered element is not the range element of the previous roles")
		return false
	}
	// every non-loop guard on the append must be `elem.Name != <prefix-guarded parameter>`
	for _, g := range eng.GuardsAt(call.Block()) {
		if k, _, isCall := eng.RootCall(g.Cond); isCall && k.Name() == "strings.HasPrefix" {
			continue
		}
		b, ok := g.Cond.(*ssa.BinOp)
		if !ok {
			p.note("the filter is guarded by a condition the rule does not recognise")
			return false
		}
		if b.Op == token.LSS || b.Op == token.GEQ { // loop condition i < len
			if eng.IsLenOf(eng.Any)(b.Y) || eng.IsLenOf(eng.Any)(b.X) {
				continue
			}
			if _, isLen := eng.Strip(b.Y).(*ssa.Call); isLen {
				continue
			}
		}
		if k, _, isCall := eng.RootCall(g.Cond); isCall && k.Name() == "strings.HasPrefix" {
			continue
		}
		var other ssa.Value
		switch {
		case nameExprOf(b.X, elem):
			other = b.Y
		case nameExprOf(b.Y, elem):
			other = b.X
		default:
			p.note("the filter tests something other than the element's name")
			return false
		}
		keep := (b.Op == token.NEQ && g.Pol) || (b.Op == token.EQL && !g.Pol)
		if !keep {
			p.note("the filter keeps elements whose name EQUALS the argument")
			return false
		}
		if !p.prefixGuardedParam(other, call.Block()) {
			p.note("the name being removed is not guarded by the reserved-prefix test: the allow rule itself could be removed")
			return false
		}
	}
	return true
}

// patternD: element-wise copy. (1) field-to-field copy of a Roles slice decoded
// by encoding/json into a shadow struct; (2) append(load of this same Roles
// field, {fresh element}) inside an unfiltered range loop over another
// Delegations.Roles; (3) the empty initialisation that precedes such a loop.
func (p *rolesProver) patternD(st *ssa.Store, fa *ssa.FieldAddr) bool {
	v := st.Val
	if n, base, ok := eng.FieldLoad(v); ok && n == "Roles" {
		// copy from another struct's Roles field (shadow struct / other schema)
		if bn := namedOf(base.Type()); bn == nil || bn.Obj().Name() != "Delegations" || bn.Obj().Parent() != bn.Obj().Pkg().Scope() {
			return true
		}
	}
	if base, elems, call, ok := appendParts(v); ok && len(elems) == 1 {
		bf, isLoad := isRolesLoad(base)
		if !isLoad || !samePath(fa.X, bf.X) {
			return false
		}
		// element's Name comes from the range element of a *different* Roles slice
		rs := eng.Roots(elems[0])
		if len(rs) != 1 {
			return false
		}
		al, ok := rs[0].(*ssa.Alloc)
		if !ok {
			return false
		}
		nv, ok := allocStores(al)["Name"]
		if !ok {
			return false
		}
		n, src, ok := eng.FieldLoad(nv)
		if !ok || n != "Name" || !rangeElemOf(src, func(x ssa.Value) bool { _, is := isRolesLoad(x); return is }) {
			p.note("the copied element's Name is not the source element's Name")
			return false
		}
		for _, g := range eng.GuardsAt(call.Block()) {
			if ex, ok := g.Cond.(*ssa.Extract); ok {
				if _, isNext := ex.Tuple.(*ssa.Next); isNext {
					continue // an earlier map range ran to completion
				}
			}
			b, ok := g.Cond.(*ssa.BinOp)
			if !ok || !(b.Op == token.LSS || b.Op == token.GEQ) {
				p.note("the copy loop filters elements")
				return false
			}
		}
		return true
	}
	if isEmptySlice(v) {
		// initialisation; accepted only if the same function also performs the copy loop (2)
		for _, b := range p.fn.Blocks {
			for _, in := range b.Instrs {
				if s2, ok := in.(*ssa.Store); ok && s2 != st {
					if fa2, ok := fieldAddrOf(s2.Addr, "Delegations", "Roles"); ok {
						if _, elems, _, ok := appendParts(s2.Val); ok && len(elems) == 1 {
							_ = fa2
							return true
						}
					}
				}
			}
		}
	}
	return false
}

func c13AllowLast(c *Ctx, r *R) {
	allow, ok1 := constStringObj(c, "internal/tuf.AllowRuleName")
	prefix, ok2 := constStringObj(c, "internal/tuf.GittufPrefix")
	if !ok1 || !ok2 {
		r.Undecided("anchor", token.NoPos, "constants tuf.AllowRuleName / tuf.GittufPrefix not found")
		return
	}
	r.Check(strings.HasPrefix(allow, prefix) && allow != prefix, "allow-name-reserved", c.Object("internal/tuf.AllowRuleName").Pos(),
		"AllowRuleName carries the reserved prefix, so the prefix guard protects the allow rule", "AllowRuleName no longer carries GittufPrefix: the reserved-prefix guards no longer protect the allow rule")
	ord := map[string]int{}
	c.ModuleFuncs(func(fn *ssa.Function) {
		for _, b := range fn.Blocks {
			for _, in := range b.Instrs {
				st, ok := in.(*ssa.Store)
				if !ok {
					continue
				}
				fa, ok := fieldAddrOf(st.Addr, "Delegations", "Roles")
				if !ok {
					continue
				}
				r.Site(1)
				r.Funcs[fname(fn)] = true
				ord[fname(fn)]++
				key := fmt.Sprintf("roles-store:%s#%d", fname(fn), ord[fname(fn)])
				p := &rolesProver{c: c, fn: fn, allowName: allow, prefix: prefix}
				switch {
				case p.patternC(st.Val):
					r.Ok(key, st.Pos(), "pattern C: literal [AllowRule()]")
				case p.patternA(st.Val):
					r.Ok(key, st.Pos(), "pattern A: append(allow-free base, non-allow elements, AllowRule())")
				case p.patternB(st.Val):
					r.Ok(key, st.Pos(), "pattern B: order-preserving filter that can only drop a non-reserved name")
				case p.patternD(st, fa):
					r.Ok(key, st.Pos(), "pattern D: element-wise, order-preserving copy")
				default:
					why := "no proof pattern (A append…AllowRule(), B guarded filter, C literal, D copy) matches"
					if len(p.why) > 0 {
						why = strings.Join(dedupStrings(p.why), "; ")
					}
					r.Bad(key, st.Pos(), "%s stores a Delegations.Roles value for which 'the allow rule is last and appears nowhere else' cannot be shown to be preserved: %s. The delegation walk skips the last rule of every file unexamined and relies on this", fname(fn), why)
				}
			}
		}
	})
}

func dedupStrings(xs []string) []string {
	seen := map[string]bool{}
	var out []string
	for _, x := range xs {
		if !seen[x] {
			seen[x] = true
			out = append(out, x)
		}
	}
	return out
}

// ---------------------------------------------------------------- reserved prefix

func schemaMethod(c *Ctx, pkg, recv, name string) *ssa.Function {
	return c.Func(fmt.Sprintf("(*%s.%s).%s", pkg, recv, name))
}

func c13ReservedPrefix(c *Ctx, r *R) {
	prefix, ok := constStringObj(c, "internal/tuf.GittufPrefix")
	if !ok {
		r.Undecided("anchor", token.NoPos, "tuf.GittufPrefix not found")
		return
	}
	for _, pkg := range tufSchemaPkgs {
		for _, m := range []string{"AddRule", "UpdateRule", "RemoveRule"} {
			fn := r.Fn(fmt.Sprintf("(*%s.TargetsMetadata).%s", pkg, m))
			if fn == nil {
				continue
			}
			r.Site(1)
			key := "prefix-guard:" + fname(fn)
			if len(fn.Params) < 2 {
				r.Undecided(key, fn.Pos(), "unexpected signature")
				continue
			}
			par := fn.Params[1] // ruleName
			// every store / map update / success return is reached only past the guard
			bad := ""
			var badPos token.Pos
			for _, b := range fn.Blocks {
				for _, in := range b.Instrs {
					effect := false
					switch x := in.(type) {
					case *ssa.Store:
						if _, isAl := x.Addr.(*ssa.Alloc); !isAl {
							effect = !addrIsLocal(x.Addr)
						}
					case *ssa.MapUpdate:
						effect = true
					case *ssa.Return:
						effect = isSuccessReturn(in)
					}
					if effect && !prefixGuardDominates(fn, par, prefix, b) && bad == "" {
						bad = fmt.Sprintf("%T", in)
						badPos = pos(in)
					}
				}
			}
			if bad == "" {
				r.Ok(key, fn.Pos(), "strings.HasPrefix(%s, GittufPrefix) → error dominates every effect and every success return", par.Name())
			} else {
				r.Bad(key, badPos, "%s can change the rule file or succeed without the reserved-prefix test on %s having failed-closed first (a rule named with the reserved prefix, e.g. a second allow rule, can be added / the allow rule altered or removed)", fname(fn), par.Name())
			}
		}
		// ReorderRules: success only if specified == current non-allow names
		fn := r.Fn(fmt.Sprintf("(*%s.TargetsMetadata).ReorderRules", pkg))
		if fn != nil {
			r.Site(1)
			c13Reorder(c, r, fn)
		}
	}
	// API level
	if fn := r.Fn("(*experimental/gittuf.Repository).AddDelegation"); fn != nil {
		r.Site(1)
		has := eng.CallsTo(fn, false, "(*internal/policy.State).HasRuleName")
		add := eng.CallsToMethod(fn, false, "AddRule", "TargetsMetadata")
		if len(has) == 0 || len(add) == 0 {
			r.Bad("api-duplicate-name", fn.Pos(), "AddDelegation does not test state.HasRuleName(ruleName) before AddRule: rule names are no longer unique across rule files")
		} else {
			okArgs := sameObjVal(has[0].Arg(0), add[0].Arg(0))
			cut := eng.NewCut()
			fail := eng.BoolEdges(fn, eng.PSame(has[0].Result(0)), true)
			okErr := len(fail) > 0
			for _, e := range fail {
				if eng.LeadsOnlyToErr(e, "ErrDuplicatedRuleName") != nil {
					okErr = false
				}
				cut.AddEdges(eng.Edge{From: e.From, Idx: 1 - e.Idx})
			}
			p := eng.FindPathFromEntry(fn, isInstr(add[0].Instr), cut)
			r.Check(okArgs && okErr && p == nil, "api-duplicate-name", has[0].Pos(), "HasRuleName(ruleName) → ErrDuplicatedRuleName precedes AddRule(ruleName, …)", "AddDelegation can reach AddRule without the duplicate-name test on the same name having passed")
		}
	}
	if fn := r.Fn("(*internal/policy.State).preprocess"); fn != nil {
		n := 0
		for _, ret := range eng.Returns(fn) {
			if eng.Sentinels(eng.RetErr(ret))["ErrDuplicatedRuleName"] {
				n++
				r.Site(1)
				// guarded by ruleNames.Has(rule.ID()) true
				okG := false
				for _, g := range eng.GuardsAt(ret.Block()) {
					if k, _, ok := eng.RootCall(g.Cond); ok && k.Method() == "Has" && g.Pol {
						okG = true
					}
				}
				r.Check(okG, fmt.Sprintf("loader-duplicate-name#%d", n), pos(ret), "ruleNames.Has(rule.ID()) → ErrDuplicatedRuleName", "the duplicate-name error of preprocess is no longer tied to ruleNames.Has")
			}
		}
		r.Check(n >= 2, "loader-duplicate-name:both-scans", fn.Pos(), "both scans (primary rule file, delegated rule files) refuse duplicate names", "preprocess refuses duplicate rule names in fewer than two scans")
		// every ruleNames.Add is dominated by !Has
		for i, k := range eng.CallsToMethod(fn, false, "Add", "Set") {
			okG := false
			for _, g := range eng.GuardsAt(k.Block()) {
				if hk, _, ok := eng.RootCall(g.Cond); ok && hk.Method() == "Has" && !g.Pol && samePath(hk.Arg(0), k.Arg(0)) {
					okG = true
				}
			}
			r.Check(okG, fmt.Sprintf("loader-name-recorded#%d", i+1), k.Pos(), "a name is recorded only after it was found absent", "preprocess records a rule name without having tested it for duplication")
		}
	}
}

// addrIsLocal: the address denotes memory allocated in this function
// (composite literal under construction, local variable).
func addrIsLocal(a ssa.Value) bool {
	for {
		switch x := a.(type) {
		case *ssa.Alloc:
			return true
		case *ssa.FieldAddr:
			a = x.X
		case *ssa.IndexAddr:
			a = x.X
		default:
			return false
		}
	}
}

func c13Reorder(c *Ctx, r *R, fn *ssa.Function) {
	key := "reorder-exact-names:" + fname(fn)
	// current set: Add(delegation.Name) dominated by Name != AllowRuleName
	allow, _ := constStringObj(c, "internal/tuf.AllowRuleName")
	var eqCalls []Call
	eqCalls = eng.CallsToMethod(fn, false, "Equal", "Set")
	if len(eqCalls) != 1 {
		r.Bad(key, fn.Pos(), "ReorderRules no longer compares the specified names with the current ones as sets (found %d set.Equal calls)", len(eqCalls))
		return
	}
	eq := eqCalls[0]
	cut := eng.NewCut()
	cut.AddEdges(eng.BoolEdges(fn, eng.PSame(eq.Result(0)), true)...)
	// the inequality branch may fall through only when both differences are empty
	nLen := 0
	for _, k := range eng.CallsToMethod(fn, false, "Len", "Set") {
		if mk, _, ok := eng.RootCall(rootOne(k.Recv())); ok && mk.Method() == "Minus" {
			nLen++
			cut.AddEdges(eng.RelEdges(fn, token.EQL, eng.PSame(k.Result(0)), eng.PInt(0))...)
		}
	}
	p := eng.FindPathFromEntry(fn, isSuccessReturn, cut)
	if p != nil {
		r.Bad(key, pos(p.Target), "ReorderRules can succeed although the specified names differ from the current rule names; witness: %s", c.DescribePath(p))
		return
	}
	// the two operands: one built from Roles skipping the allow rule, one from the argument
	okCur := false
	for _, k := range eng.CallsToMethod(fn, false, "Add", "Set") {
		n, base, isF := eng.FieldLoad(k.Arg(0))
		if !isF || n != "Name" {
			continue
		}
		pr := &rolesProver{c: c, fn: fn, allowName: allow}
		if pr.knownNotAllowAt(base, k.Block()) && rangeElemOf(base, func(x ssa.Value) bool { _, is := isRolesLoad(x); return is }) {
			okCur = true
		}
	}
	r.Check(okCur, key, eq.Pos(), "success requires currentRules (every role except the allow rule) == specifiedRules", "the set of current rule names is not built from every role except the allow rule")
}

func rootOne(v ssa.Value) ssa.Value {
	if v == nil {
		return nil
	}
	rs := eng.Roots(v)
	if len(rs) == 1 {
		return derefRoot(rs[0])
	}
	return v
}

// ---------------------------------------------------------------- threshold

// roleTypeField: fa is &role.<field> for a tuf schema Role / GitHubApp / Delegation(embedded Role).
func roleFieldAddr(v ssa.Value, field string) (*ssa.FieldAddr, bool) {
	fa, ok := v.(*ssa.FieldAddr)
	if !ok {
		return nil, false
	}
	n := namedOf(fa.X.Type())
	if n == nil || !inTufSchemaPkg(n.Obj().Pkg()) || fieldName(fa) != field {
		return nil, false
	}
	switch n.Obj().Name() {
	case "Role", "GitHubApp", "GlobalRuleThreshold":
		return fa, true
	}
	return nil, false
}

func c13Threshold(c *Ctx, r *R) {
	ord := map[string]int{}
	c.ModuleFuncs(func(fn *ssa.Function) {
		for _, b := range fn.Blocks {
			for _, in := range b.Instrs {
				st, ok := in.(*ssa.Store)
				if !ok {
					continue
				}
				fa, ok := roleFieldAddr(st.Addr, "Threshold")
				if !ok {
					continue
				}
				r.Site(1)
				r.Funcs[fname(fn)] = true
				ord[fname(fn)]++
				key := fmt.Sprintf("threshold-store:%s#%d", fname(fn), ord[fname(fn)])
				c13ThresholdStore(c, r, key, fn, st, fa)
			}
		}
	})
	// removals from a role's principal set
	n := 0
	c.ModuleFuncs(func(fn *ssa.Function) {
		if fn.Pkg == nil || !inTufSchemaPkg(fn.Pkg.Pkg) {
			return
		}
		for _, k := range eng.CallsToMethod(fn, false, "Remove", "Set") {
			fld, base, isF := setFieldOf(k.Recv())
			if !isF {
				continue
			}
			n++
			r.Site(1)
			key := fmt.Sprintf("remove-guard:%s", fname(fn))
			// Len() of the same set <= Threshold of the same role → error
			isLen := func(v ssa.Value) bool {
				lk, _, ok := eng.RootCall(v)
				if !ok || lk.Method() != "Len" {
					return false
				}
				f2, b2, ok := setFieldOf(lk.Recv())
				return ok && f2 == fld && samePath(base, b2)
			}
			isThr := func(v ssa.Value) bool {
				f2, b2, ok := eng.FieldLoad(v)
				return ok && f2 == "Threshold" && samePath(base, b2)
			}
			fail := eng.RelEdges(fn, token.LEQ, isLen, isThr)
			cut := eng.NewCut()
			okErr := len(fail) > 0
			for _, e := range fail {
				if eng.LeadsOnlyToErr(e, "ErrCannotMeetThreshold") != nil {
					okErr = false
				}
				cut.AddEdges(eng.Edge{From: e.From, Idx: 1 - e.Idx})
			}
			p := eng.FindPathFromEntry(fn, isInstr(k.Instr), cut)
			r.Check(okErr && p == nil, key, k.Pos(), "removal only after Len() <= Threshold → ErrCannotMeetThreshold", fmt.Sprintf("%s removes a principal from a role without first refusing when Len() <= Threshold: the role's threshold can become unmeetable", fname(fn)))
		}
	})
	// global threshold rules
	for _, pkg := range tufSchemaPkgs {
		for _, m := range []string{"AddGlobalRule", "UpdateGlobalRule"} {
			fn := r.Fn(fmt.Sprintf("(*%s.RootMetadata).%s", pkg, m))
			if fn == nil {
				continue
			}
			r.Site(1)
			isThr := func(v ssa.Value) bool {
				k, _, ok := eng.RootCall(v)
				return ok && k.Method() == "GetThreshold"
			}
			fail := eng.RelEdges(fn, token.LEQ, isThr, eng.PInt(0))
			cut := eng.NewCut()
			okErr := len(fail) > 0
			for _, e := range fail {
				if eng.LeadsOnlyToErr(e, "ErrInvalidThreshold") != nil {
					okErr = false
				}
			}
			// success for a threshold rule requires passing the test: the type-assert-ok true edge must lead to the test
			_ = cut
			r.Check(okErr, "global-threshold-guard:"+fname(fn), fn.Pos(), "GetThreshold() <= 0 → ErrInvalidThreshold", fname(fn)+" accepts a global threshold rule with threshold <= 0")
		}
	}
}

func c13ThresholdStore(c *Ctx, r *R, key string, fn *ssa.Function, st *ssa.Store, fa *ssa.FieldAddr) {
	owner := namedOf(fa.X.Type()).Obj().Name()
	// sibling store of the principal set into the same struct
	var setVal ssa.Value
	if al, ok := fa.X.(*ssa.Alloc); ok {
		as := allocStores(al)
		if v, ok := as["PrincipalIDs"]; ok {
			setVal = v
		} else if v, ok := as["KeyIDs"]; ok {
			setVal = v
		}
	}
	if n, isC := eng.ConstInt(st.Val); isC {
		if n < 1 {
			r.Bad(key, st.Pos(), "%s stores the constant threshold %d (< 1) into a %s", fname(fn), n, owner)
			return
		}
		if fn.Name() == "AllowRule" {
			r.Ok(key, st.Pos(), "allow rule: threshold 1, no principals (named exception: it is never verified)")
			return
		}
		// constant 1 with a non-empty set
		if n == 1 && setVal != nil {
			if k, _, ok := eng.RootCall(rootOne(setVal)); ok && k.Callee != nil && k.Callee.Name() == "NewSetFromItems" {
				if els := eng.VariadicElems(k.Instr.Common().Args[len(k.Instr.Common().Args)-1]); len(els) >= 1 {
					r.Ok(key, st.Pos(), "constant threshold 1 with a literal set of %d principal(s)", len(els))
					return
				}
			}
		}
		r.Bad(key, st.Pos(), "%s stores constant threshold %d into a %s whose principal set is not a literal with at least that many members", fname(fn), n, owner)
		return
	}
	// copy from another role (migration): Threshold and principal set from the same source
	if f, base, ok := eng.FieldLoad(st.Val); ok && f == "Threshold" {
		if setVal != nil {
			if f2, b2, ok := eng.FieldLoad(setVal); ok && (f2 == "KeyIDs" || f2 == "PrincipalIDs") && samePath(base, b2) {
				r.Ok(key, st.Pos(), "threshold and principal set copied together from the same source role")
				return
			}
		}
		r.Bad(key, st.Pos(), "%s copies a threshold from another role without copying that role's principal set alongside it", fname(fn))
		return
	}
	// constructor of a global threshold rule: checked where it is added (AddGlobalRule / UpdateGlobalRule)
	if owner == "GlobalRuleThreshold" {
		r.Ok(key, st.Pos(), "global rule constructor; the value is validated by Add/UpdateGlobalRule (global-threshold-guard)")
		return
	}
	// a parameter: needs both guards on every path to the store
	thr := st.Val
	isThr := eng.PSame(thr)
	failInv := eng.RelEdges(fn, token.LEQ, isThr, eng.PInt(0))
	cutInv := eng.NewCut()
	okInv := len(failInv) > 0
	for _, e := range failInv {
		if eng.LeadsOnlyToErr(e, "ErrInvalidThreshold") != nil {
			okInv = false
		}
		cutInv.AddEdges(eng.Edge{From: e.From, Idx: 1 - e.Idx})
	}
	if !okInv || eng.FindPathFromEntry(fn, isInstr(st), cutInv) != nil {
		r.Bad(key, st.Pos(), "%s stores a threshold that was not refused when <= 0 (ErrInvalidThreshold) on every path to the store", fname(fn))
		return
	}
	// count < threshold → ErrCannotMeetThreshold
	var countKinds []string
	isCount := func(v ssa.Value) bool {
		if eng.IsLenOf(eng.Any)(v) {
			countKinds = append(countKinds, "len")
			return true
		}
		if k, _, ok := eng.RootCall(v); ok && k.Method() == "Len" {
			countKinds = append(countKinds, "Len")
			return true
		}
		return false
	}
	failMeet := eng.RelEdges(fn, token.LSS, isCount, isThr)
	cutMeet := eng.NewCut()
	okMeet := len(failMeet) > 0
	for _, e := range failMeet {
		if eng.LeadsOnlyToErr(e, "ErrCannotMeetThreshold") != nil {
			okMeet = false
		}
		cutMeet.AddEdges(eng.Edge{From: e.From, Idx: 1 - e.Idx})
	}
	if !okMeet || eng.FindPathFromEntry(fn, isInstr(st), cutMeet) != nil {
		r.Bad(key, st.Pos(), "%s stores a threshold without having refused (ErrCannotMeetThreshold) when the role has fewer principals than the threshold", fname(fn))
		return
	}
	r.Ok(key, st.Pos(), "threshold <= 0 → ErrInvalidThreshold and count < threshold → ErrCannotMeetThreshold dominate the store")
	// the count must be of DISTINCT principals: Len() of the very set that is stored / already in the role
	dkey := strings.Replace(key, "threshold-store:", "threshold-count-distinct:", 1)
	distinct := true
	var where token.Pos = st.Pos()
	for _, e := range failMeet {
		iff := e.From.Instrs[len(e.From.Instrs)-1].(*ssa.If)
		cond := iff.Cond
		for {
			u, ok := cond.(*ssa.UnOp)
			if !ok {
				break
			}
			cond = u.X
		}
		bo := cond.(*ssa.BinOp)
		cnt := bo.X
		if isThr(bo.X) {
			cnt = bo.Y
		}
		where = iff.Pos()
		if where == token.NoPos {
			where = bo.Pos()
		}
		lk, _, ok := eng.RootCall(cnt)
		if !ok || lk.Method() != "Len" {
			distinct = false
			continue
		}
		// receiver: the set stored alongside, or the role's existing set
		if setVal != nil && samePath(lk.Recv(), setVal) {
			continue
		}
		if _, b2, ok := setFieldOf(lk.Recv()); ok && samePath(fa.X, b2) {
			continue
		}
		distinct = false
	}
	r.Check(distinct, dkey, where, "the count compared with the threshold is Len() of the role's own principal set (distinct ids)",
		fmt.Sprintf("%s compares the threshold with len() of the argument slice, but stores a SET built from it: with a repeated id (e.g. [a, a], threshold 2) the rule is accepted with fewer distinct principals than its threshold — a threshold its listed principals can never meet", fname(fn)))
}

// ---------------------------------------------------------------- principals defined

func c13PrincipalsDefined(c *Ctx, r *R) {
	for _, pkg := range tufSchemaPkgs {
		table := "Principals"
		if strings.HasSuffix(pkg, "v01") {
			table = "Keys"
		}
		for _, m := range []string{"AddRule", "UpdateRule"} {
			fn := r.Fn(fmt.Sprintf("(*%s.TargetsMetadata).%s", pkg, m))
			if fn == nil {
				continue
			}
			r.Site(1)
			key := "ids-looked-up:" + fname(fn)
			// the set(s) stored into a Role in this function
			var sets []Call
			for _, k := range eng.Calls(fn, false) {
				if k.Callee != nil && k.Callee.Name() == "NewSetFromItems" {
					sets = append(sets, k)
				}
			}
			if len(sets) == 0 {
				r.Bad(key, fn.Pos(), "%s does not build the rule's principal set with NewSetFromItems; re-anchor", fname(fn))
				continue
			}
			okAll := true
			for _, sk := range sets {
				args := sk.Instr.Common().Args
				src := args[len(args)-1] // the variadic slice: authorizedPrincipalIDs...
				isSrc := func(v ssa.Value) bool { return sameValueOrRoots(v, src) }
				// lookups t.Delegations.<table>[id] with id the range element of src, !ok → ErrPrincipalNotFound
				found := false
				for _, b := range fn.Blocks {
					for _, in := range b.Instrs {
						lk, ok := in.(*ssa.Lookup)
						if !ok || !lk.CommaOk {
							continue
						}
						f, _, isF := eng.FieldLoad(lk.X)
						if !isF || f != table || !rangeElemOf(lk.Index, isSrc) {
							continue
						}
						for _, ref := range *lk.Referrers() {
							ex, ok := ref.(*ssa.Extract)
							if !ok || ex.Index != 1 {
								continue
							}
							for _, e := range eng.BoolEdges(fn, eng.PSame(ex), false) {
								if eng.LeadsOnlyToErr(e, "ErrPrincipalNotFound") == nil {
									found = true
								}
							}
						}
					}
				}
				if !found {
					okAll = false
					continue
				}
				// the loop is exhausted before the set is built
				cut := eng.NewCut()
				cut.AddEdges(rangeDoneEdges(fn, isSrc)...)
				if eng.FindPathFromEntry(fn, isInstr(sk.Instr), cut) != nil {
					okAll = false
				}
			}
			r.Check(okAll, key, fn.Pos(), "every id of the slice the set is built from is looked up in Delegations."+table+" (missing → ErrPrincipalNotFound) before the set is stored",
				fname(fn)+" can store a rule naming a principal id that was never looked up in the rule file's principal table")
		}
		rm := "removePrincipal"
		if table == "Keys" {
			rm = "removeKey"
		}
		if fn := r.Fn(fmt.Sprintf("(*%s.Delegations).%s", pkg, rm)); fn != nil {
			r.Site(1)
			key := "still-in-use:" + fname(fn)
			var dels []ssa.Instruction
			for _, b := range fn.Blocks {
				for _, in := range b.Instrs {
					if cl, ok := in.(*ssa.Call); ok {
						if bi, ok := cl.Call.Value.(*ssa.Builtin); ok && bi.Name() == "delete" {
							dels = append(dels, in)
						}
					}
				}
			}
			okAll := len(dels) > 0
			isRoles := func(v ssa.Value) bool { _, is := isRolesLoad(v); return is }
			cut := eng.NewCut()
			cut.AddEdges(rangeDoneEdges(fn, isRoles)...)
			for _, d := range dels {
				if eng.FindPathFromEntry(fn, isInstr(d), cut) != nil {
					okAll = false
				}
			}
			// inside the loop: Has(id) true → ErrPrincipalStillInUse
			okHas := false
			for _, k := range eng.CallsToMethod(fn, false, "Has", "Set") {
				if !sameObjVal(k.Arg(0), fn.Params[1]) {
					continue
				}
				for _, e := range eng.BoolEdges(fn, func(v ssa.Value) bool { return containsValue(v, k.Result(0)) }, true) {
					if eng.LeadsOnlyToErr(e, "ErrPrincipalStillInUse") == nil {
						okHas = true
					}
				}
			}
			r.Check(okAll && okHas, key, fn.Pos(), "delete only after every role was scanned for the id (used → ErrPrincipalStillInUse)", fname(fn)+" can delete a principal that a rule still names (the scan over Roles no longer dominates the delete, or no longer refuses)")
		}
	}
	// root: the principal is in the table before a role names it
	for _, pkg := range tufSchemaPkgs {
		adder := "addPrincipal"
		if strings.HasSuffix(pkg, "v01") {
			adder = "addKey"
		}
		for _, m := range []string{"AddRootPrincipal", "AddPrimaryRuleFilePrincipal", "AddGitHubAppPrincipal"} {
			fn := r.Fn(fmt.Sprintf("(*%s.RootMetadata).%s", pkg, m))
			if fn == nil {
				continue
			}
			r.Site(1)
			key := "root-principal-added-first:" + fname(fn)
			adds := eng.CallsTo(fn, false, fmt.Sprintf("(*%s.RootMetadata).%s", pkg, adder))
			if len(adds) != 1 {
				r.Bad(key, fn.Pos(), "%s does not add the principal to the metadata's table through %s exactly once", fname(fn), adder)
				continue
			}
			cut := eng.NewCut()
			if !adds[0].OKPoints(cut) {
				r.Bad(key, adds[0].Pos(), "%s drops the error of %s", fname(fn), adder)
				continue
			}
			// every use of principal.ID() as a role member comes after
			bad := false
			for _, k := range eng.CallsToMethod(fn, false, "ID", "Principal") {
				if k.Instr == adds[0].Instr {
					continue
				}
				if eng.FindPathFromEntry(fn, isInstr(k.Instr), cut) != nil {
					bad = true
				}
			}
			r.Check(!bad, key, adds[0].Pos(), adder+"(principal) succeeds before the principal's id is put into a role", fname(fn)+" can name the principal in a role without having added it to the metadata's principal table")
		}
	}
}

// containsValue: v is w or a boolean combination containing w.
func containsValue(v, w ssa.Value) bool {
	v = eng.Strip(v)
	if v == eng.Strip(w) {
		return true
	}
	if b, ok := v.(*ssa.BinOp); ok {
		return containsValue(b.X, w) || containsValue(b.Y, w)
	}
	if ph, ok := v.(*ssa.Phi); ok { // short-circuit && / ||
		for _, e := range ph.Edges {
			if eng.Strip(e) == eng.Strip(w) {
				return true
			}
		}
	}
	return false
}

var _ = sort.Strings

// setFieldOf: v is the principal set of a role, i.e. a load of <base>.PrincipalIDs
// / <base>.KeyIDs (possibly dereferenced for value-receiver methods).
func setFieldOf(v ssa.Value) (string, ssa.Value, bool) {
	if v == nil {
		return "", nil, false
	}
	for _, r := range eng.Roots(v) {
		for i := 0; i < 3; i++ {
			if f, b, ok := eng.FieldLoad(r); ok && (f == "PrincipalIDs" || f == "KeyIDs") {
				return f, b, true
			}
			u, ok := r.(*ssa.UnOp)
			if !ok || u.Op != token.MUL {
				break
			}
			rs := eng.Roots(u.X)
			if len(rs) != 1 {
				break
			}
			r = rs[0]
		}
	}
	return "", nil, false
}

var pureGetters = map[string]bool{"ID": true, "GetName": true, "GetID": true}

// samePath: a and b denote the same storage location / object by access path
// (go/ssa performs no CSE, so `x.F.G` evaluated twice yields distinct values).
// Flow-insensitive: assumes the path is not re-assigned in between, which holds
// for the straight-line mutators this is used on.
func samePath(a, b ssa.Value) bool {
	a, b = eng.Strip(a), eng.Strip(b)
	if a == b {
		return true
	}
	ra, rb := eng.Roots(a), eng.Roots(b)
	if len(ra) != 1 || len(rb) != 1 {
		return false
	}
	a, b = ra[0], rb[0]
	if a == b {
		return true
	}
	switch x := a.(type) {
	case *ssa.UnOp:
		y, ok := b.(*ssa.UnOp)
		return ok && x.Op == y.Op && samePath(x.X, y.X)
	case *ssa.FieldAddr:
		y, ok := b.(*ssa.FieldAddr)
		return ok && x.Field == y.Field && samePath(x.X, y.X)
	case *ssa.Field:
		y, ok := b.(*ssa.Field)
		return ok && x.Field == y.Field && samePath(x.X, y.X)
	case *ssa.IndexAddr:
		y, ok := b.(*ssa.IndexAddr)
		return ok && samePath(x.X, y.X) && samePath(x.Index, y.Index)
	case *ssa.Lookup:
		y, ok := b.(*ssa.Lookup)
		return ok && samePath(x.X, y.X) && samePath(x.Index, y.Index)
	case *ssa.Const:
		y, ok := b.(*ssa.Const)
		return ok && x.Value != nil && y.Value != nil && x.Value.ExactString() == y.Value.ExactString()
	case *ssa.BinOp:
		y, ok := b.(*ssa.BinOp)
		return ok && x.Op == y.Op && samePath(x.X, y.X) && samePath(x.Y, y.Y)
	case *ssa.Call:
		// argument-less pure getters called twice on the same receiver (rule.ID(), g.GetName())
		y, ok := b.(*ssa.Call)
		if !ok {
			return false
		}
		kx, ky := Call{Fn: x.Parent(), Instr: x, Callee: eng.CalleeOf(x)}, Call{Fn: y.Parent(), Instr: y, Callee: eng.CalleeOf(y)}
		if kx.Callee == nil || kx.Callee != ky.Callee || kx.NArgs() != 0 || !pureGetters[kx.Method()] {
			return false
		}
		return kx.Recv() != nil && ky.Recv() != nil && samePath(kx.Recv(), ky.Recv())
	}
	return false
}

// ---------------------------------------------------------------- unmarshal-copy / migration-complete (AST + types)
