package rules

import (
	"go/token"
	"go/types"
	"strings"

	"golang.org/x/tools/go/ssa"

	"verif/checker/eng"
)

func init() {
	reg(&eng.Rule{ID: "C05.credit-after-verification", Prop: "C05", Floor: 4,
		Doc: "In SignatureVerifier.Verify a principal (and a key) is credited only for a signature that verified: every usedPrincipalIDs.Add / usedKeyIDs.Add is dominated by the nil edge of gitobject.Verify for the same key, or lies in the loop over the keys accepted by dsse.VerifyEnvelope for the same principal; the 'Git object verified' flag starts false and becomes true only behind that nil edge.",
		Run: c05CreditAfterVerification})

	Meta["C05"] = PropMeta{
		Explanation: "Static necessary conditions of 'thresholds count distinct trusted principals, each with a distinct valid key', decided on every CFG path of policy.(*SignatureVerifier).Verify, its consumer verifyGitObjectAndAttestationsUsingVerifiers and the vendored DSSE envelope verifier: the invalid-verifier sanity guard dominates everything; at most one principal is credited for the Git signature and its key is recorded; the envelope phase skips already-counted principals and already-used keys, records every accepted key and principal, and verifies per principal with threshold 1; a nil error is returned only under the threshold / exhaustive / single-git-signature conditions; verifier objects are never mutated after construction; the consumer counts trusted∩used against Threshold(); the DSSE verifier checks PAE(payloadType, payload). The exactness of counts over rule shapes × signer subsets, and cryptographic validity, are NOT decided.",
		Decides:     []string{"sanity guard dominates", "one principal per Git signature", "principal/key dedup in envelope phase", "success-iff conditions on nil returns", "SignatureVerifier fields written only at construction", "consumer compares trusted∩used with Threshold()", "PAE binding in vendored dsse"},
		NotDecided:  []string{"exact counts over all principal/key/signer configurations", "signature validity (run-time crypto)"},
	}
	reg(&eng.Rule{ID: "C05.sanity", Prop: "C05", Floor: 2,
		Doc: "In SignatureVerifier.Verify, threshold < 1 and len(principals) < 1 each lead only to ErrInvalidVerifier, and no other call is reachable without passing both tests.",
		Run: c05Sanity})
	reg(&eng.Rule{ID: "C05.git-once", Prop: "C05", Floor: 3,
		Doc: "After a principal is credited for the Git object's signature (usedPrincipalIDs.Add in the Git phase) no further gitobject.Verify call is reachable, and the verifying key is added to usedKeyIDs on the same path.",
		Run: c05GitOnce})
	reg(&eng.Rule{ID: "C05.dedup", Prop: "C05", Floor: 6,
		Doc: "Envelope phase: dsse.VerifyEnvelope is reached only for principals not in usedPrincipalIDs; a key becomes a DSSE verifier only if not in usedKeyIDs; every accepted key is added to usedKeyIDs and its principal to usedPrincipalIDs; VerifyEnvelope is called with the constant threshold 1 on this principal's verifiers.",
		Run: c05Dedup})
	reg(&eng.Rule{ID: "C05.success-iff", Prop: "C05", Floor: 3,
		Doc: "Verify returns a nil error only on edges where verifyExhaustively ∨ usedPrincipalIDs.Len() >= Threshold() ∨ (threshold == 1 ∧ gitObjectVerified).",
		Run: c05SuccessIff})
	reg(&eng.Rule{ID: "C05.immutable-verifier", Prop: "C05", Floor: 1,
		Doc: "No store to a field of policy.SignatureVerifier outside the function that allocated that value (verifiers are shared through State.verifiersCache).",
		Run: c05Immutable})
	reg(&eng.Rule{ID: "C05.consumer", Prop: "C05", Floor: 5,
		Doc: "In verifyGitObjectAndAttestationsUsingVerifiers the count compared with verifier.Threshold() is TrustedPrincipalIDs().Intersection(usedPrincipalIDs).Len(), compared with >=; approver mapping skips principals already in usedPrincipalIDs; Threshold()-1 is used only under verifyMergeable ∧ Threshold() > 1.",
		Run: c05Consumer})
	reg(&eng.Rule{ID: "C05.pae", Prop: "C05", Floor: 3,
		Doc: "In the vendored dsse.(*EnvelopeVerifier).Verify the bytes handed to Verifier.Verify are PAE(e.PayloadType, DecodeB64Payload(e)); a provider is removed after accepting; a repeated key id is not accepted twice.",
		Run: c05PAE})
}

const sigVerify = "(*internal/policy.SignatureVerifier).Verify"

func setCalls(fn *ssa.Function, method string) []Call {
	var out []Call
	for _, k := range eng.Calls(fn, false) {
		if k.Callee != nil && k.Callee.Name() == method && strings.Contains(k.Name(), "internal/common/set.Set") {
			out = append(out, k)
		}
	}
	return out
}

// setOrigin classifies a *set.Set receiver by the ordinal of the NewSet call
// that produced it (1 = usedPrincipalIDs, 2 = usedKeyIDs in Verify).
func setOrigin(fn *ssa.Function, v ssa.Value) int {
	news := []Call{}
	for _, k := range eng.Calls(fn, false) {
		if k.Callee != nil && k.Callee.Name() == "NewSet" {
			news = append(news, k)
		}
	}
	for _, r := range eng.Roots(v) {
		r = derefRoot(r)
		for i, n := range news {
			if n.Value() != nil && r == ssa.Value(n.Value()) {
				return i + 1
			}
		}
	}
	return 0
}

// derefRoot looks through loads of a pointer value (`*p` where p is itself a
// call result / parameter): methods with value receivers are called on `*set`.
func derefRoot(v ssa.Value) ssa.Value {
	for {
		u, ok := v.(*ssa.UnOp)
		if !ok || u.Op != token.MUL {
			return v
		}
		rs := eng.Roots(u.X)
		if len(rs) != 1 {
			return v
		}
		v = rs[0]
	}
}

// sameObj: v and w denote the same object, looking through loads.
func sameObj(w ssa.Value) Pat {
	return func(v ssa.Value) bool {
		rv, rw := eng.Roots(v), eng.Roots(w)
		if len(rv) != 1 || len(rw) != 1 {
			return false
		}
		return derefRoot(rv[0]) == derefRoot(rw[0])
	}
}

func c05Sanity(c *Ctx, r *R) {
	fn := r.Fn(sigVerify)
	if fn == nil {
		return
	}
	thr := eng.POr(eng.PField("threshold", nil), eng.PMethod("Threshold", nil))
	fails1 := append(eng.RelEdges(fn, token.LSS, thr, eng.PInt(1)), eng.RelEdges(fn, token.LEQ, thr, eng.PInt(0))...)
	npr := eng.PLen(eng.PField("principals", nil))
	fails2 := append(eng.RelEdges(fn, token.LSS, npr, eng.PInt(1)), append(eng.RelEdges(fn, token.LEQ, npr, eng.PInt(0)), eng.RelEdges(fn, token.EQL, npr, eng.PInt(0))...)...)
	isWork := func(in ssa.Instruction) bool {
		ci, ok := in.(ssa.CallInstruction)
		if !ok {
			return false
		}
		k := Call{Instr: ci, Callee: eng.CalleeOf(ci)}
		n := k.Name()
		if strings.HasPrefix(n, "builtin.") || strings.HasPrefix(n, "log/slog.") || strings.HasPrefix(n, "fmt.") {
			return false
		}
		return true
	}
	for i, fails := range [][]eng.Edge{fails1, fails2} {
		what := []string{"threshold < 1", "len(principals) < 1"}[i]
		key := []string{"threshold", "principals"}[i]
		if len(fails) == 0 {
			r.Bad(key, fn.Pos(), "Verify has no %s → ErrInvalidVerifier guard: a rule with threshold 0 / no principals would be satisfiable", what)
			continue
		}
		ok := true
		cut := eng.NewCut()
		for _, e := range fails {
			if p := eng.LeadsOnlyToErr(e, "ErrInvalidVerifier"); p != nil {
				ok = false
				r.Bad(key, pos(p.Target), "%s does not always return ErrInvalidVerifier; witness %s", what, c.DescribePath(p))
			}
			cut.AddEdges(eng.Edge{From: e.From, Idx: 1 - e.Idx})
		}
		if !ok {
			continue
		}
		mustPass(c, r, key, fn, isWork, cut, what+" → ErrInvalidVerifier guards every other action of Verify", "work in Verify is reachable without passing the "+what+" guard")
	}
}

func c05GitOnce(c *Ctx, r *R) {
	fn := r.Fn(sigVerify)
	if fn == nil {
		return
	}
	gv := eng.CallsTo(fn, false, "internal/signerverifier/gitobject.Verify")
	if len(gv) != 1 {
		r.Undecided("anchor", fn.Pos(), "expected exactly one gitobject.Verify call in Verify, found %d", len(gv))
		return
	}
	gvk := gv[0]
	r.Site(1)
	// Adds in the git phase: Add calls on set #1/#2 that are dominated by the nil edge of gitobject.Verify's error
	ev, _ := gvk.ErrResult()
	u := eng.UsesOfErr(ev)
	var gitAddsP, gitAddsK []Call
	for _, a := range setCalls(fn, "Add") {
		dominated := false
		for _, e := range u.NilEdges {
			if e.To().Dominates(a.Block()) {
				dominated = true
			}
		}
		if !dominated {
			continue
		}
		switch setOrigin(fn, a.Recv()) {
		case 1:
			gitAddsP = append(gitAddsP, a)
		case 2:
			gitAddsK = append(gitAddsK, a)
		}
	}
	if len(gitAddsP) == 0 {
		r.Bad("credit", gvk.Pos(), "no usedPrincipalIDs.Add on the success edge of gitobject.Verify: the Git signer is not credited / the anchor changed")
		return
	}
	for _, a := range gitAddsP {
		r.Site(1)
		// the credited principal is the loop's principal: argument is principal.ID() of the same principal whose key verified
		argOK := eng.PMethod("ID", nil)(a.Arg(0))
		r.Check(argOK, "credit-arg", a.Pos(), "credited id is principal.ID()", "usedPrincipalIDs.Add argument is not principal.ID()")
		mustPassFrom(c, r, "at-most-one", a.Instr, isInstr(gvk.Instr), nil,
			"after crediting a principal for the Git signature no further gitobject.Verify is attempted (at most one principal per Git signature)",
			"after crediting a principal for the Git object's signature another gitobject.Verify can run: several principals could be credited for one Git signature")
	}
	// key recorded: every path from the principal Add to leaving the loops passes usedKeyIDs.Add(key.KeyID)
	r.Check(len(gitAddsK) >= 1, "key-recorded", gvk.Pos(), "verifying key is added to usedKeyIDs in the Git phase", "the key that verified the Git signature is not added to usedKeyIDs: the same key listed under a second principal could be counted again on the envelope")
	for _, a := range gitAddsK {
		ok := false
		if n, _, isF := eng.FieldLoad(a.Arg(0)); isF && n == "KeyID" {
			ok = true
		}
		r.Check(ok, "key-arg", a.Pos(), "recorded key id is key.KeyID", "usedKeyIDs.Add argument is not key.KeyID")
	}
}

func c05Dedup(c *Ctx, r *R) {
	fn := r.Fn(sigVerify)
	if fn == nil {
		return
	}
	ve := eng.CallsTo(fn, false, "internal/signerverifier/dsse.VerifyEnvelope")
	vek, ok := oneCall(r, "anchor-verify-envelope", fn, ve, "dsse.VerifyEnvelope")
	if !ok {
		return
	}
	r.Site(1)
	// threshold constant 1
	thr, isC := eng.ConstInt(vek.Arg(3))
	r.Check(isC && thr == 1, "per-principal-threshold", vek.Pos(), "VerifyEnvelope is called with constant threshold 1 (one key of this principal suffices, counted once)", "VerifyEnvelope threshold argument is not the constant 1")
	// env arg is the parameter
	r.Check(eng.PParam("env")(vek.Arg(1)), "env-arg", vek.Pos(), "VerifyEnvelope verifies the envelope passed to Verify", "VerifyEnvelope is not applied to Verify's env parameter")
	// principal skip: edges on which usedPrincipalIDs.Has(principal.ID()) is false must be passed to reach VerifyEnvelope
	hasP := func(v ssa.Value) bool {
		k, _, ok := eng.RootCall(v)
		return ok && k.Callee != nil && k.Callee.Name() == "Has" && setOrigin(fn, k.Recv()) == 1 && eng.PMethod("ID", nil)(k.Arg(0))
	}
	hasK := func(v ssa.Value) bool {
		k, _, ok := eng.RootCall(v)
		if !ok || k.Callee == nil || k.Callee.Name() != "Has" || setOrigin(fn, k.Recv()) != 2 {
			return false
		}
		n, _, isF := eng.FieldLoad(k.Arg(0))
		return isF && n == "KeyID"
	}
	passP := eng.BoolEdges(fn, hasP, false)
	if len(passP) == 0 {
		r.Bad("principal-skip", vek.Pos(), "no `usedPrincipalIDs.Has(principal.ID())` test guards the envelope verification: a principal credited for the Git signature can be counted again for the envelope")
	} else {
		// start after the git phase: from the function entry is fine (VerifyEnvelope only in phase 2)
		mustPass(c, r, "principal-skip", fn, isInstr(vek.Instr), eng.NewCut().AddEdges(passP...),
			"VerifyEnvelope is reached only for principals not yet in usedPrincipalIDs",
			"VerifyEnvelope is reachable without passing the !usedPrincipalIDs.Has(principal.ID()) test")
	}
	// key skip: appends to the verifier slice only on !usedKeyIDs.Has(key.KeyID)
	passK := eng.BoolEdges(fn, hasK, false)
	var appends []Call
	for _, k := range eng.Calls(fn, false) {
		if k.Name() == "builtin.append" && strings.HasSuffix(k.Instr.Common().Args[0].Type().String(), "dsse.Verifier") {
			appends = append(appends, k)
		}
	}
	if len(passK) == 0 {
		r.Bad("key-skip", vek.Pos(), "no `usedKeyIDs.Has(key.KeyID)` test: a key shared by two principals would be counted for both")
	} else if len(appends) == 0 {
		r.Undecided("key-skip", vek.Pos(), "cannot find where DSSE verifiers are collected (append to []dsse.Verifier)")
	} else {
		for _, a := range appends {
			r.Site(1)
			// path from the start of the per-principal body: use function entry (append only in phase 2)
			mustPass(c, r, "key-skip", fn, isInstr(a.Instr), eng.NewCut().AddEdges(passK...),
				"a key becomes a DSSE verifier only when not in usedKeyIDs",
				"a key can be added to the principal's DSSE verifiers without passing !usedKeyIDs.Has(key.KeyID)")
		}
	}
	// verifier list passed to VerifyEnvelope is the one built per principal (allocated inside the principal loop)
	r.Check(strings.HasSuffix(vek.Arg(2).Type().String(), "dsse.Verifier"), "verifiers-arg", vek.Pos(), "VerifyEnvelope receives the per-principal verifier list", "unexpected verifiers argument")
	// accepted keys recorded: in the loop over acceptedKeys both Adds present
	var addP, addK bool
	for _, a := range setCalls(fn, "Add") {
		// after VerifyEnvelope
		if !vek.Block().Dominates(a.Block()) {
			continue
		}
		switch setOrigin(fn, a.Recv()) {
		case 1:
			if eng.PMethod("ID", nil)(a.Arg(0)) {
				addP = true
			}
		case 2:
			if n, base, isF := eng.FieldLoad(a.Arg(0)); isF && n == "KeyID" {
				// key comes from acceptedKeys (result 0 of VerifyEnvelope)
				_ = base
				addK = true
			}
		}
	}
	r.Check(addP, "accepted-principal-recorded", vek.Pos(), "principal of an accepted key is added to usedPrincipalIDs", "principal of an accepted envelope key is not added to usedPrincipalIDs")
	r.Check(addK, "accepted-key-recorded", vek.Pos(), "every accepted key is added to usedKeyIDs", "accepted envelope keys are not added to usedKeyIDs: a later principal listing the same key would be counted too")
	// VerifyEnvelope error: only the threshold-mismatch message is tolerated, others returned
	ev, _ := vek.ErrResult()
	if ev == nil || eng.UsesOfErr(ev).Dropped {
		r.Bad("envelope-error", vek.Pos(), "error of dsse.VerifyEnvelope is dropped")
	} else {
		r.Ok("envelope-error", vek.Pos(), "error of dsse.VerifyEnvelope is examined")
	}
}

func c05SuccessIff(c *Ctx, r *R) {
	fn := r.Fn(sigVerify)
	if fn == nil {
		return
	}
	exh := eng.PField("verifyExhaustively", nil)
	thr := eng.POr(eng.PField("threshold", nil), eng.PMethod("Threshold", nil))
	lenUsed := func(v ssa.Value) bool {
		k, _, ok := eng.RootCall(v)
		return ok && k.Callee != nil && k.Callee.Name() == "Len" && setOrigin(fn, k.Recv()) == 1
	}
	okEdges := eng.BoolEdges(fn, exh, true)
	okEdges = append(okEdges, eng.RelEdges(fn, token.GEQ, lenUsed, thr)...)
	thr1 := eng.RelEdges(fn, token.EQL, thr, eng.PInt(1))
	nret := 0
	for _, ret := range eng.Returns(fn) {
		if eng.ClassifyErr(eng.RetErr(ret), ret.Block()) == eng.ErrNonNil {
			continue
		}
		nret++
		r.Site(1)
		// either passes an okEdge, or passes thr1 ∧ gitObjectVerified (phi true)
		cut := eng.NewCut().AddEdges(okEdges...).AddEdges(thr1...)
		p := eng.FindPathFromEntry(fn, isInstr(ret), cut)
		if p != nil {
			r.Bad("nil-return", pos(ret), "Verify can return a nil error without (verifyExhaustively ∨ usedPrincipalIDs.Len() >= threshold ∨ threshold == 1 with a verified Git signature); witness %s", c.DescribePath(p))
			continue
		}
		r.Ok("nil-return", pos(ret), "nil-error return is reached only through a satisfied-threshold / exhaustive / single-signature edge")
	}
	// the early return under threshold==1 additionally requires gitObjectVerified and !verifyExhaustively
	for _, e := range thr1 {
		// block after: must test a phi-bool (gitObjectVerified) before returning nil
		b := e.To()
		iff, ok := b.Instrs[len(b.Instrs)-1].(*ssa.If)
		okv := false
		if ok {
			cnd := iff.Cond
			if _, isPhi := cnd.(*ssa.Phi); isPhi {
				okv = true
			}
		}
		// and the git-verified flag becomes true only on the nil edge of gitobject.Verify: checked by git-once
		r.Check(okv, "single-sig-needs-git", pos(b.Instrs[len(b.Instrs)-1]), "threshold==1 shortcut additionally requires the Git signature flag", "threshold==1 shortcut does not test the verified-Git-signature flag")
	}
	r.Check(nret >= 2, "returns-found", fn.Pos(), "≥2 possibly-nil returns analysed", "fewer nil returns than on the reference tree")
	// >= not > : RelEdges(GEQ) found
	r.Check(len(eng.RelEdges(fn, token.GEQ, lenUsed, thr)) > 0, "geq", fn.Pos(), "final comparison is usedPrincipalIDs.Len() >= threshold", "no usedPrincipalIDs.Len() >= threshold comparison (off-by-one or different operand)")
}

func c05Immutable(c *Ctx, r *R) {
	sv := c.Type("internal/policy.SignatureVerifier")
	if sv == nil {
		r.Undecided("anchor", token.NoPos, "type SignatureVerifier not found")
		return
	}
	n := 0
	c.ModuleFuncs(func(fn *ssa.Function) {
		for _, b := range fn.Blocks {
			for _, in := range b.Instrs {
				st, ok := in.(*ssa.Store)
				if !ok {
					continue
				}
				fa, ok := st.Addr.(*ssa.FieldAddr)
				if !ok {
					continue
				}
				pt, ok := fa.X.Type().Underlying().(*types.Pointer)
				if !ok || !types.Identical(pt.Elem(), sv) {
					continue
				}
				n++
				field := sv.Underlying().(*types.Struct).Field(fa.Field).Name()
				// allowed: base is an Alloc in this very function (construction)
				local := false
				for _, root := range eng.Roots(fa.X) {
					if al, ok := root.(*ssa.Alloc); ok && al.Parent() == fn {
						local = true
					} else {
						local = false
						break
					}
				}
				key := "store:" + fname(fn) + ":" + field
				if local {
					r.Ok(key, st.Pos(), "field %s initialised in the allocating function", field)
				} else {
					r.Bad(key, st.Pos(), "%s writes SignatureVerifier.%s of a verifier it did not allocate; verifiers are shared through State.verifiersCache, so every later verification with this policy state sees the changed %s", fname(fn), field, field)
				}
			}
		}
	})
	r.Site(n)
}

func c05Consumer(c *Ctx, r *R) {
	fn := r.Fn("internal/policy.verifyGitObjectAndAttestationsUsingVerifiers")
	if fn == nil {
		return
	}
	ver := eng.CallsTo(fn, false, sigVerify)
	vk, ok := oneCall(r, "anchor-verify", fn, ver, "SignatureVerifier.Verify")
	if !ok {
		return
	}
	used := sameObj(vk.Result(0))
	inter := func(v ssa.Value) bool {
		k, _, ok := eng.RootCall(v)
		if !ok || k.Callee == nil || k.Callee.Name() != "Intersection" {
			return false
		}
		if !eng.PMethod("TrustedPrincipalIDs", nil)(k.Recv()) {
			return false
		}
		return used(k.Arg(0))
	}
	cnt := eng.PMethod("Len", inter)
	thr := eng.PMethod("Threshold", nil)
	ge := eng.RelEdges(fn, token.GEQ, cnt, thr)
	r.Check(len(ge) >= 1, "count-is-trusted-intersection", fn.Pos(),
		"threshold test is TrustedPrincipalIDs().Intersection(usedPrincipalIDs).Len() >= verifier.Threshold()",
		"no comparison TrustedPrincipalIDs().Intersection(usedPrincipalIDs).Len() >= verifier.Threshold(): approvers outside the rule, or a different operator, would satisfy the threshold")
	// a verifier's failure other than "conditions unmet" ends the whole verification with that error:
	// from the non-nil edge, counting approvals / trying the next verifier is reached only through
	// errors.Is(err, ErrVerifierConditionsUnmet)
	if ev, _ := vk.ErrResult(); ev != nil {
		u := eng.UsesOfErr(ev)
		unmet := eng.BoolEdges(fn, func(v ssa.Value) bool {
			k, _, ok := eng.RootCall(v)
			if !ok || k.Name() != "errors.Is" {
				return false
			}
			g := eng.GlobalLoad(k.Arg(1))
			return g != nil && g.Name() == "ErrVerifierConditionsUnmet" && sameObjVal(k.Arg(0), ev)
		}, true)
		heads := loopHeads(fn)
		okU := len(unmet) > 0 && len(u.NonNilEdges) > 0
		for _, e := range u.NonNilEdges {
			if p := eng.FindPath(e.To(), 0, func(in ssa.Instruction) bool {
				if heads[in] || isSuccessReturn(in) {
					return true
				}
				if ci, ok := in.(ssa.CallInstruction); ok {
					k := Call{Instr: ci, Callee: eng.CalleeOf(ci)}
					return k.Callee != nil && k.Callee.Name() == "Intersection"
				}
				return false
			}, eng.NewCut().AddEdges(unmet...)); p != nil {
				okU = false
			}
		}
		r.Check(okU, "unexpected-error-returned", vk.Pos(), "a verifier error other than ErrVerifierConditionsUnmet is returned", "a verifier error other than ErrVerifierConditionsUnmet is skipped over (approvals are counted / the next verifier is tried after a hard failure)")
	}
	gem1 := eng.RelEdges(fn, token.GEQ, cnt, eng.PBin(token.SUB, thr, eng.PInt(1)))
	r.Check(len(gem1) == 1, "mergeable-relaxation-shape", fn.Pos(), "exactly one relaxed comparison against Threshold()-1", "the relaxed comparison against Threshold()-1 is missing or duplicated")
	// relaxed comparison only under verifyMergeable ∧ Threshold() > 1
	for _, e := range gem1 {
		tb := e.From
		tgt := tb.Instrs[len(tb.Instrs)-1]
		vm := eng.BoolEdges(fn, eng.PParam("verifyMergeable"), true)
		gt1 := eng.RelEdges(fn, token.GTR, thr, eng.PInt(1))
		mustPass(c, r, "relaxation-needs-mergeable", fn, isInstr(tgt), eng.NewCut().AddEdges(vm...), "Threshold()-1 is considered only when verifyMergeable", "the Threshold()-1 relaxation is reachable without verifyMergeable being true: ordinary verification would accept one signature fewer")
		mustPass(c, r, "relaxation-needs-gt1", fn, isInstr(tgt), eng.NewCut().AddEdges(gt1...), "Threshold()-1 is considered only when Threshold() > 1", "the Threshold()-1 relaxation is reachable for threshold 1 (zero signatures would suffice)")
	}
	// success (verifiedUsing assigned non-empty / break) only via: Verify nil edge, ge edge, gem1 edge
	cutOK := eng.NewCut().AddEdges(ge...).AddEdges(gem1...)
	if ev, _ := vk.ErrResult(); ev != nil {
		cutOK.AddEdges(eng.UsesOfErr(ev).NilEdges...)
	}
	for _, ret := range eng.Returns(fn) {
		if eng.ClassifyErr(eng.RetErr(ret), ret.Block()) == eng.ErrNonNil {
			continue
		}
		r.Site(1)
		p := eng.FindPathFromEntry(fn, isInstr(ret), cutOK)
		if p != nil {
			r.Bad("success-only-if-met", pos(ret), "a nil-error return is reachable without Verify succeeding or the trusted∩used count meeting the threshold; witness %s", c.DescribePath(p))
		} else {
			r.Ok("success-only-if-met", pos(ret), "nil-error return requires a satisfied verifier")
		}
	}
	// approver mapping: Add on used set is guarded by !used.Has(principal.ID())
	var adds []Call
	for _, a := range setCalls(fn, "Add") {
		if used(a.Recv()) {
			adds = append(adds, a)
		}
	}
	hasUsed := func(v ssa.Value) bool {
		k, _, ok := eng.RootCall(v)
		return ok && k.Callee != nil && k.Callee.Name() == "Has" && used(k.Recv()) && eng.PMethod("ID", nil)(k.Arg(0))
	}
	pass := eng.BoolEdges(fn, hasUsed, false)
	r.Check(len(adds) >= 1, "approver-add-present", fn.Pos(), "approver identities are mapped onto principals (usedPrincipalIDs.Add)", "no usedPrincipalIDs.Add in the approver mapping")
	for _, a := range adds {
		r.Site(1)
		mustPassFrom(c, r, "approver-once", vk.Instr, isInstr(a.Instr), eng.NewCut().AddEdges(pass...),
			"an approver is mapped to a principal only if that principal is not already in usedPrincipalIDs",
			"usedPrincipalIDs.Add in the approver mapping is reachable without the !usedPrincipalIDs.Has(principal.ID()) test")
		// identity equality test: associatedIdentity == approverID under map lookup ok
		eqs := eng.RelEdges(fn, token.EQL, func(v ssa.Value) bool {
			for _, root := range eng.Roots(v) {
				if ex, ok := root.(*ssa.Extract); ok {
					if _, ok := ex.Tuple.(*ssa.Lookup); ok {
						return true
					}
				}
				if _, ok := root.(*ssa.Lookup); ok {
					return true
				}
			}
			return false
		}, eng.PAny())
		mustPassFrom(c, r, "approver-identity-match", vk.Instr, isInstr(a.Instr), eng.NewCut().AddEdges(eqs...),
			"a principal is credited only when its associated identity for the app equals the approver id",
			"a principal can be credited for an approval without its associated identity matching the approver id")
	}
}

func c05PAE(c *Ctx, r *R) {
	fn := r.Fn("(*internal/third_party/go-securesystemslib/dsse.EnvelopeVerifier).Verify")
	if fn == nil {
		return
	}
	var vcalls []Call
	for _, k := range eng.Calls(fn, false) {
		if k.IsMethodOf("Verify", "Verifier") {
			vcalls = append(vcalls, k)
		}
	}
	vk, ok := oneCall(r, "anchor", fn, vcalls, "Verifier.Verify")
	if !ok {
		return
	}
	r.Site(1)
	data := vk.Arg(1)
	pae := eng.PCall("internal/third_party/go-securesystemslib/dsse.PAE", 0,
		eng.PField("PayloadType", eng.PParam("e")),
		eng.PCall("(*internal/third_party/go-securesystemslib/dsse.Envelope).DecodeB64Payload", 0))
	r.Check(pae(data), "pae-binding", vk.Pos(), "signature is verified over PAE(e.PayloadType, decoded payload of e)", "Verifier.Verify is not applied to PAE(e.PayloadType, DecodeB64Payload(e)): signatures over other content would be accepted")
	// signature bytes come from the envelope's signature list (b64Decode(s.Sig))
	sigOK := eng.PCall("internal/third_party/go-securesystemslib/dsse.b64Decode", 0)(vk.Arg(2))
	r.Check(sigOK, "sig-from-envelope", vk.Pos(), "signature bytes are the decoded envelope signature", "signature argument is not b64Decode(s.Sig)")
	// verify error → continue (not accepted): acceptedKeys append only on nil edge
	ev, _ := vk.ErrResult()
	u := eng.UsesOfErr(ev)
	var app []Call
	for _, k := range eng.Calls(fn, false) {
		if k.Name() == "builtin.append" && strings.HasSuffix(k.Instr.Common().Args[0].Type().String(), "AcceptedKey") {
			app = append(app, k)
		}
	}
	if len(app) == 0 || len(u.NilEdges) == 0 {
		r.Bad("accept-only-valid", vk.Pos(), "cannot find acceptedKeys append / the check of Verifier.Verify's error")
	} else {
		for _, a := range app {
			mustPass(c, r, "accept-only-valid", fn, isInstr(a.Instr), eng.NewCut().AddEdges(u.NilEdges...),
				"a key is accepted only on the nil edge of Verifier.Verify",
				"a key can be accepted without a successful Verifier.Verify")
		}
		// repeated key id not accepted twice: append guarded by !ok of usedKeyids lookup
		lk := eng.BoolEdges(fn, func(v ssa.Value) bool {
			ex, ok := v.(*ssa.Extract)
			if !ok || ex.Index != 1 {
				return false
			}
			_, isL := ex.Tuple.(*ssa.Lookup)
			return isL
		}, false)
		for _, a := range app {
			mustPass(c, r, "keyid-once", fn, isInstr(a.Instr), eng.NewCut().AddEdges(lk...),
				"a key id already accepted is not accepted again",
				"acceptedKeys append is reachable without the usedKeyids duplicate test")
		}
	}
	// the key id reported for an accepted signature is the VERIFIER's (Verifier.KeyID() / SHA256KeyID(Public())),
	// never the id claimed inside the (attacker-supplied) signature: callers de-duplicate keys by this id
	for _, al := range allocsOf(fn, "AcceptedKey") {
		v, has := allocStores(al)["KeyID"]
		if !has {
			r.Bad("accepted-keyid-from-verifier", al.Pos(), "AcceptedKey is built without a KeyID")
			continue
		}
		okK := true
		for _, root := range eng.Roots(v) {
			k, _, isCall := eng.RootCall(root)
			switch {
			case isCall && k.Method() == "KeyID" && k.RecvTypeName() == "Verifier":
			case isCall && k.Name() == "internal/third_party/go-securesystemslib/dsse.SHA256KeyID":
			default:
				if s, isC := eng.ConstString(root); isC && s == "" {
					continue
				}
				okK = false
			}
		}
		r.Check(okK, "accepted-keyid-from-verifier", al.Pos(), "AcceptedKey.KeyID is the matched verifier's key id", "AcceptedKey.KeyID does not come from the matched verifier (Verifier.KeyID() / SHA256KeyID(Public())): the id claimed in the envelope signature is attacker-controlled, and callers use this id to count a key only once")
	}
	// provider removed after accepting
	rm := eng.CallsTo(fn, false, "internal/third_party/go-securesystemslib/dsse.removeIndex")
	r.Check(len(rm) >= 1, "provider-removed", vk.Pos(), "an accepting provider is removed from the unverified set", "accepting providers are no longer removed: one key could accept several signatures")
}

func c05CreditAfterVerification(c *Ctx, r *R) {
	fn := r.Fn(sigVerify)
	if fn == nil {
		return
	}
	gv := eng.CallsTo(fn, false, "internal/signerverifier/gitobject.Verify")
	gk, ok := oneCall(r, "anchor-git-verify", fn, gv, "gitobject.Verify")
	if !ok {
		return
	}
	ev, _ := gk.ErrResult()
	var gitOK []eng.Edge
	if ev != nil {
		gitOK = eng.UsesOfErr(ev).NilEdges
	}
	accepted := eng.PCall("internal/signerverifier/dsse.VerifyEnvelope", 0)
	acceptedLoops := map[*ssa.BasicBlock]bool{}
	for _, h := range eng.LoopsOver(fn, accepted) {
		for b := range eng.NaturalLoop(h) {
			if b != h {
				acceptedLoops[b] = true
			}
		}
	}
	n := 0
	for _, k := range setCalls(fn, "Add") {
		n++
		r.Site(1)
		dom := acceptedLoops[k.Block()]
		for _, e := range gitOK {
			if eng.EdgeDominates(e, k.Block()) {
				dom = true
			}
		}
		r.Check(dom, "credited-only-if-verified:"+itoa(n), k.Pos(), "credit is given only behind a successful verification", "a principal / key is credited without a signature having verified (not behind gitobject.Verify's nil edge nor in the loop over VerifyEnvelope's accepted keys)")
	}
	r.Check(n >= 4, "credit-sites", fn.Pos(), "four credit sites (principal and key, Git and envelope phase)", "expected four Add sites in Verify")
	// the gitObjectVerified flag
	var flag ssa.Value
	for _, e := range eng.RelEdges(fn, token.EQL, eng.PField("threshold", nil), eng.PInt(1)) {
		// the flag is tested right after `threshold == 1` on the early-return path
		if iff, ok := e.To().Instrs[len(e.To().Instrs)-1].(*ssa.If); ok {
			flag = iff.Cond
		}
	}
	if flag == nil {
		r.Bad("git-flag", fn.Pos(), "cannot find the 'Git object verified' flag next to the threshold == 1 shortcut")
		return
	}
	okF, sawTrue, sawFalse := true, false, false
	for _, a := range eng.Assignments(flag) {
		b, isC := eng.ConstBool(a.Val)
		if !isC {
			okF = false
			continue
		}
		if !b {
			sawFalse = true
			continue
		}
		sawTrue = true
		dom := false
		for _, e := range gitOK {
			if a.At != nil && eng.EdgeDominates(e, a.At) {
				dom = true
			}
		}
		okF = okF && dom
	}
	r.Check(okF && sawTrue && sawFalse, "git-flag", fn.Pos(), "the flag starts false and is set only behind gitobject.Verify's nil edge", "the 'Git object verified' flag can be true without gitobject.Verify having succeeded (threshold-1 rules would accept an unsigned object)")
}
