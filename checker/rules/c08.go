package rules

import (
	"go/token"
	"go/types"
	"sort"
	"strings"

	"golang.org/x/tools/go/ssa"

	"verif/checker/eng"
)

func init() {
	Meta["C08"] = PropMeta{
		Explanation: "Static necessary conditions of 'verdicts depend only on the log: never on cache, repetition or checkpoint': (1) effect analysis over the module call graph — from every verification entry point the only reference that can be written is the local cache reference (clones made for network/controller checks are separate repositories); (2) objects handed out by the per-state verifier cache are never mutated after construction and the cache maps are written only by their owner, so repeating a verification cannot see a different rule; (3) information flow — a function answering a 'latest entry' query must read the log tip on every successful path, because an answer computed from the cache reference alone cannot change when the log grows; (4) the last-verified checkpoint and the cached policy/attestation indices are written only after the corresponding entry/state was accepted. Equivalence of verdicts across cache states, orders and checkpoints is NOT decided; in particular the staleness of entry-relative cache lookups has no structural condition independent of a particular repair and is left to dynamic techniques.",
		Decides:     []string{"who-may-write refs from verification (effects)", "immutability of shared verifiers / cache ownership", "latest-entry queries read the log tip (violated today for the cache searcher: F7)", "checkpoint written only after success"},
		NotDecided:  []string{"verdict equivalence over (history × cache state × order × checkpoint)", "staleness of FindPolicyEntryFor / FindAttestationsEntryFor / FindPolicyEntriesInRange answers for entries recorded after the cache was populated"},
	}
	reg(&eng.Rule{ID: "C08.effects", Prop: "C08", Floor: 4,
		Doc: "From PolicyVerifier.{VerifyRef,VerifyRefFull,VerifyRefFromEntry,VerifyMergeable,VerifyMergeableForCommit,VerifyRelativeForRef,VerifyNetwork} and gittuf.Repository.{VerifyRef,VerifyRefFromEntry,VerifyMergeable,VerifyNetwork}, every call-graph path to a reference mutator of the storage interface has a reference argument that evaluates to the constant cache reference; transfers happen only inside gitinterface.CloneAndFetchRepository (a different, temporary repository).",
		Run: c08Effects})
	reg(&eng.Rule{ID: "C08.no-shared-mutation", Prop: "C08", Floor: 3,
		Doc: "= C05.immutable-verifier, plus: State.verifiersCache is written only in FindVerifiersForPath and State.allPrincipals / globalRules / ruleNames / hasFileRule only in preprocess.",
		Run: c08NoSharedMutation})
	reg(&eng.Rule{ID: "C08.latest-reads-tip", Prop: "C08", Floor: 4,
		Doc: "Every implementer of searcher.FindLatestPolicyEntry / FindLatestAttestationsEntry makes, on every nil-error return path, a call that (transitively, on all of its own success paths) reads Storer.GetReference(rsl.Ref).",
		Run: c08LatestReadsTip})
	reg(&eng.Rule{ID: "C08.cache-after-success", Prop: "C08", Floor: 4,
		Doc: "In VerifyRelativeForRef SetLastVerifiedEntryForRef is called only on the nil edge of verifyEntry or after a completed recovery; Insert{Policy,Attestation}EntryNumber only after the corresponding state was loaded (and, for policies, chained) successfully.",
		Run: c08CacheAfterSuccess})
}

var verifyEntryPoints = []string{
	"(*internal/policy.PolicyVerifier).VerifyRef",
	"(*internal/policy.PolicyVerifier).VerifyRefFull",
	"(*internal/policy.PolicyVerifier).VerifyRefFromEntry",
	"(*internal/policy.PolicyVerifier).VerifyMergeable",
	"(*internal/policy.PolicyVerifier).VerifyMergeableForCommit",
	"(*internal/policy.PolicyVerifier).VerifyRelativeForRef",
	"(*internal/policy.PolicyVerifier).VerifyNetwork",
	"(*experimental/gittuf.Repository).VerifyRef",
	"(*experimental/gittuf.Repository).VerifyRefFromEntry",
	"(*experimental/gittuf.Repository).VerifyMergeable",
	"(*experimental/gittuf.Repository).VerifyNetwork",
	"internal/policy.NewPolicyVerifier",
}

func isStoragePkg(f *ssa.Function) bool {
	p := pkgOf(f)
	return p == "pkg/gitinterface" || p == "internal/gitstoretest"
}

func c08Effects(c *Ctx, r *R) {
	var entries []*ssa.Function
	for _, s := range verifyEntryPoints {
		if f := r.Fn(s); f != nil {
			entries = append(entries, f)
		}
	}
	g := c.CG()
	type hit struct {
		chain []*ssa.Function
		site  Call
		what  string
		ref   string
		dyn   bool
	}
	var hits []hit
	seenSite := map[ssa.Instruction]bool{}
	nEdges := 0
	g.Reach(entries, isStoragePkg, func(chain []*ssa.Function, e eng.CGEdge) {
		nEdges++
		k := e.Site
		if k.Instr == nil || k.Callee == nil || seenSite[k.Instr] {
			return
		}
		m := k.Callee.Name()
		rt := k.RecvTypeName()
		storage := rt == "Storer" || rt == "Repository" || rt == "FakeStorer"
		if storage {
			if idx, ok := refMutators[m]; ok {
				seenSite[k.Instr] = true
				h := hit{chain: chain, site: k, what: m}
				if s, isC := eng.ConstString(k.Arg(idx)); isC {
					h.ref = s
				} else {
					h.dyn = true
				}
				hits = append(hits, h)
				return
			}
			if refTransfers[m] {
				seenSite[k.Instr] = true
				hits = append(hits, hit{chain: chain, site: k, what: m, dyn: true})
				return
			}
		}
		// package-level functions of the storage layer that create / move refs
		n := k.Name()
		if n == "pkg/gitinterface.CloneAndFetchRepository" {
			seenSite[k.Instr] = true
			hits = append(hits, hit{chain: chain, site: k, what: "CloneAndFetchRepository"})
		}
	})
	r.Site(nEdges)
	sort.SliceStable(hits, func(i, j int) bool { return c.Rel(hits[i].site.Pos()) < c.Rel(hits[j].site.Pos()) })
	for _, h := range hits {
		caller := fname(rootFn(h.site.Fn))
		key := "write:" + caller + ":" + h.what
		switch {
		case h.what == "CloneAndFetchRepository":
			r.Ok(key, h.site.Pos(), "clones into a fresh temporary directory (separate repository); chain: %s", eng.ChainString(h.chain))
		case !h.dyn && h.ref == refCacheRef:
			r.Ok(key, h.site.Pos(), "%s(%s): the local cache reference; chain: %s", h.what, h.ref, eng.ChainString(h.chain))
		case !h.dyn:
			r.Bad(key, h.site.Pos(), "verification can write reference %q via %s in %s; verification must change no reference other than the local cache reference. call chain: %s", h.ref, h.what, caller, eng.ChainString(h.chain))
		default:
			r.Bad(key, h.site.Pos(), "verification reaches %s on a reference that is not a compile-time constant in %s: it may move an arbitrary reference. call chain: %s", h.what, caller, eng.ChainString(h.chain))
		}
	}
	r.Check(len(hits) >= 1, "effects-found", token.NoPos, "the analysis reaches the cache commit (sanity: the call graph is connected)", "no reference write at all is reachable from verification — the persistent cache commit should be; call graph anchors are broken")
	// raw exec outside the storage layer
	g.Reach(entries, isStoragePkg, func(chain []*ssa.Function, e eng.CGEdge) {
		if e.Leaf == "os/exec.Command" || e.Leaf == "os/exec.CommandContext" {
			caller := fname(rootFn(e.Site.Fn))
			if strings.Contains(caller, "signerverifier") || strings.Contains(caller, "luasandbox") {
				return
			}
			r.Bad("exec:"+caller, e.Site.Pos(), "verification reaches os/exec outside the storage layer in %s (chain %s)", caller, eng.ChainString(chain))
		}
	})
}

func c08NoSharedMutation(c *Ctx, r *R) {
	c05Immutable(c, r)
	st := c.Type("internal/policy.State")
	if st == nil {
		r.Undecided("anchor", token.NoPos, "policy.State not found")
		return
	}
	owners := map[string][]string{
		"verifiersCache": {"(*internal/policy.State).FindVerifiersForPath"},
		"allPrincipals":  {"(*internal/policy.State).preprocess"},
		"globalRules":    {"(*internal/policy.State).preprocess"},
		"ruleNames":      {"(*internal/policy.State).preprocess"},
		"hasFileRule":    {"(*internal/policy.State).preprocess"},
	}
	sstruct := st.Underlying().(*types.Struct)
	c.ModuleFuncs(func(fn *ssa.Function) {
		for _, b := range fn.Blocks {
			for _, in := range b.Instrs {
				var fa *ssa.FieldAddr
				switch x := in.(type) {
				case *ssa.Store:
					fa, _ = x.Addr.(*ssa.FieldAddr)
				case *ssa.MapUpdate:
					if u, ok := x.Map.(*ssa.UnOp); ok {
						fa, _ = u.X.(*ssa.FieldAddr)
					}
				}
				if fa == nil {
					continue
				}
				pt, ok := fa.X.Type().Underlying().(*types.Pointer)
				if !ok || !types.Identical(pt.Elem(), st) {
					continue
				}
				f := sstruct.Field(fa.Field).Name()
				allowed, tracked := owners[f]
				if !tracked {
					continue
				}
				// construction in the allocating function is fine
				local := false
				for _, root := range eng.Roots(fa.X) {
					if al, ok := root.(*ssa.Alloc); ok && al.Parent() == fn {
						local = true
					}
				}
				name := fname(rootFn(fn))
				okW := local
				for _, a := range allowed {
					if a == name {
						okW = true
					}
				}
				r.Site(1)
				if okW {
					r.Ok("owner:"+f+":"+name, in.Pos(), "State.%s written by its owner", f)
				} else {
					r.Bad("owner:"+f+":"+name, in.Pos(), "%s writes State.%s, which is owned by %v: per-state cached data changes between two verifications with the same state", name, f, allowed)
				}
			}
		}
	})
}

// mustReadTip: on every success return path of fn a call is made that itself
// must read the log tip (base: Storer.GetReference with the constant log ref).
func mustReadTip(c *Ctx, fn *ssa.Function, memo map[*ssa.Function]int, depth int) bool {
	if fn == nil || fn.Blocks == nil {
		return false
	}
	if v, ok := memo[fn]; ok {
		return v == 1
	}
	memo[fn] = 0 // assume false while computing (cycles)
	if depth > 8 {
		return false
	}
	cut := eng.NewCut()
	for _, k := range eng.Calls(fn, false) {
		isBase := false
		if k.Method() == "GetReference" {
			if s, isC := eng.ConstString(k.Arg(0)); isC && s == refRSL {
				isBase = true
			}
		}
		if !isBase {
			// static callee or interface implementers: all must read the tip
			var tgts []*ssa.Function
			if sc := k.Instr.Common().StaticCallee(); sc != nil {
				tgts = []*ssa.Function{sc}
			} else {
				for _, e := range c.CG().Out[fn] {
					if e.Site.Instr == k.Instr && e.Callee != nil {
						tgts = append(tgts, e.Callee)
					}
				}
			}
			if len(tgts) == 0 {
				continue
			}
			all := true
			for _, t := range tgts {
				if !eng.InModule(t) || !mustReadTip(c, t, memo, depth+1) {
					all = false
				}
			}
			if !all {
				continue
			}
		}
		k.OKPoints(cut)
	}
	p := eng.FindPathFromEntry(fn, isSuccessReturn, cut)
	if p == nil && len(eng.Returns(fn)) > 0 {
		memo[fn] = 1
		return true
	}
	return false
}

func c08LatestReadsTip(c *Ctx, r *R) {
	it := c.Object("internal/policy.searcher")
	if it == nil {
		r.Undecided("anchor", token.NoPos, "searcher interface not found")
		return
	}
	iface := it.Type().Underlying().(*types.Interface)
	p := c.Pkg("internal/policy")
	memo := map[*ssa.Function]int{}
	for _, name := range p.Types.Scope().Names() {
		tn, ok := p.Types.Scope().Lookup(name).(*types.TypeName)
		if !ok {
			continue
		}
		if _, isI := tn.Type().Underlying().(*types.Interface); isI {
			continue
		}
		if !types.Implements(types.NewPointer(tn.Type()), iface) {
			continue
		}
		for _, m := range []string{"FindLatestPolicyEntry", "FindLatestAttestationsEntry"} {
			fn := r.Fn("(*internal/policy." + name + ")." + m)
			if fn == nil {
				continue
			}
			r.Site(1)
			delete(memo, fn)
			if mustReadTip(c, fn, memo, 0) {
				r.Ok("reads-tip:"+name+"."+m, fn.Pos(), "every successful path reads the log tip")
			} else {
				// witness
				cut := eng.NewCut()
				for _, k := range eng.Calls(fn, false) {
					if sc := k.Instr.Common().StaticCallee(); sc != nil && memo[sc] == 1 {
						k.OKPoints(cut)
					}
				}
				w := ""
				if pth := eng.FindPathFromEntry(fn, isSuccessReturn, cut); pth != nil {
					w = c.DescribePath(pth)
				}
				r.Bad("reads-tip:"+name+"."+m, fn.Pos(), "%s.%s can answer 'latest entry' without reading the log tip (refs/gittuf/reference-state-log): the answer comes from the cache reference alone, so it cannot change when the log grows after the cache was written — mergeability and network verification then use a stale policy / attestation state; witness %s", name, m, w)
			}
		}
	}
}

func c08CacheAfterSuccess(c *Ctx, r *R) {
	fn := r.Fn(fnVRFR)
	if fn == nil {
		return
	}
	ve := eng.CallsTo(fn, false, "internal/policy.verifyEntry")
	if len(ve) != 1 {
		r.Undecided("anchor", fn.Pos(), "verifyEntry anchor")
		return
	}
	ev, _ := ve[0].ErrResult()
	okEdges := eng.UsesOfErr(ev).NilEdges
	x := c07Anchors(c, eng.Scratch(c))
	var sets []Call
	for _, k := range eng.Calls(fn, false) {
		if k.Method() == "SetLastVerifiedEntryForRef" {
			sets = append(sets, k)
		}
	}
	r.Check(len(sets) == 2, "checkpoint-sites", fn.Pos(), "two checkpoint writes (after verifyEntry success, after completed recovery)", "expected exactly two SetLastVerifiedEntryForRef sites")
	for i, s := range sets {
		r.Site(1)
		cut := eng.NewCut().AddEdges(okEdges...)
		if x != nil && len(x.spread) == 1 {
			cut.AddInstrs(x.spread[0].Instr)
		}
		mustPass(c, r, "checkpoint-after-success:"+itoa(i), fn, isInstr(s.Instr), cut,
			"the last-verified checkpoint is written only after the entry verified (or a recovery completed)",
			"SetLastVerifiedEntryForRef is reachable without the entry having verified: a later from-checkpoint verification would skip a violation")
	}
	// the recovery checkpoint additionally requires the exit checks
	if x != nil && len(sets) == 2 {
		empty := eng.RelEdges(fn, token.EQL, eng.PLen(func(v ssa.Value) bool {
			return strings.HasSuffix(v.Type().String(), "[]*"+eng.Module+"/pkg/rsl.ReferenceEntry")
		}), eng.PInt(0))
		for _, s := range sets {
			if x.lastGood.Block().Dominates(s.Block()) {
				mustPassFrom(c, r, "recovery-checkpoint-after-exit-checks", x.lastGood.Instr, isInstr(s.Instr), eng.NewCut().AddEdges(empty...),
					"the recovery checkpoint is written only after all intermediates were found skipped", "the recovery checkpoint can be written although an unskipped intermediate entry exists")
				// value: the fix entry
				r.Check(strings.HasSuffix(eng.Strip(s.Recv()).Type().String(), "cache.Persistent"), "recovery-checkpoint-recv", s.Pos(), "written to the persistent cache", "unexpected receiver")
			} else {
				// checkpoint value is the judged entry
				okV := sameObjVal(eng.Roots(s.Arg(2))[0], nil) || eng.PMethod("GetID", sameObj(ve[0].Arg(4)))(s.Arg(2))
				r.Check(okV, "checkpoint-is-judged-entry", s.Pos(), "the checkpoint names the entry that verified", "the checkpoint does not name the entry that was just verified")
			}
		}
	}
	// cached indices
	for _, m := range []string{"InsertPolicyEntryNumber", "InsertAttestationEntryNumber"} {
		for _, k := range eng.Calls(fn, false) {
			if k.Method() != m {
				continue
			}
			r.Site(1)
			loader := fnLSFE
			if m == "InsertAttestationEntryNumber" {
				loader = "internal/attestations.LoadAttestationsForEntry"
			}
			cut := eng.NewCut()
			for _, l := range eng.CallsTo(fn, false, loader) {
				if k.Block() != l.Block() && !l.Block().Dominates(k.Block()) {
					continue
				}
				l.OKPoints(cut)
			}
			mustPass(c, r, "index-after-load:"+m, fn, isInstr(k.Instr), cut, m+" only after the state was loaded successfully", m+" is reachable without the corresponding state having loaded")
			okA := eng.PMethod("GetNumber", nil)(k.Arg(0)) && eng.PMethod("GetID", nil)(k.Arg(1))
			if okA {
				a0, _, _ := eng.RootCall(eng.Roots(k.Arg(0))[0])
				a1, _, _ := eng.RootCall(eng.Roots(k.Arg(1))[0])
				okA = sameObjVal(a0.Recv(), a1.Recv())
			}
			r.Check(okA, "index-consistent:"+m, k.Pos(), "number and id of the same entry are cached", "the cached (number, id) pair does not come from one entry")
		}
	}
}
