package rules

import (
	"go/token"
	"strings"

	"golang.org/x/tools/go/ssa"

	"verif/checker/eng"
)

func init() {
	Meta["C19"] = PropMeta{
		Explanation: "Static necessary conditions of 'mergeability predictions agree with verification of the predicted merge', as a sibling cross-check: the predictor (verifyMergeable) is the verifier's own machinery with exactly the documented relaxations — both go through getApproverAttestationAndKeyIDsForIndex and verifyGitObjectAndAttestations with the same namespace schemes; the only option that differs is withVerifyMergeable() on the git-rule call, and it is absent on the file-rule calls; the approval index used for prediction is (target reference, latest unskipped entry's target or zero, merge tree of that and the feature commit), the same triple the verifier derives after the merge is recorded and the writer stores under; the 'signature needed' flag becomes true only on the threshold-minus-one edge under verifyMergeable ∧ threshold > 1 and is what VerifyMergeable returns on every success path; prediction uses the latest policy and attestation states; tag targets are refused first. The agreement between prediction and later verification over all policies/approvals/recorders is NOT decided.",
		Decides:     []string{"predictor and verifier share machinery; option sets differ only by withVerifyMergeable on the git rule", "approval index derivation in predictor, verifier and writer", "relaxation flag provenance and propagation to the API result", "latest states used", "tags refused first"},
		NotDecided:  []string{"agreement of the predicted verdict with the verdict of the recorded merge", "effects of policy/attestation changes between prediction and merge"},
	}
	reg(&eng.Rule{ID: "C19.same-machinery", Prop: "C19", Floor: 6,
		Doc: "verifyMergeable and verifyEntry both call getApproverAttestationAndKeyIDsForIndex (directly / via getApproverAttestationAndKeyIDs) and verifyGitObjectAndAttestations; git-rule option sets are {withApproverPrincipalIDs[, withVerifyMergeable]} and file-rule option sets are {withApproverPrincipalIDs, withTrustedVerifier} in both; a failing git rule → ErrVerificationFailed in both.",
		Run: c19SameMachinery})
	reg(&eng.Rule{ID: "C19.index", Prop: "C19", Floor: 8,
		Doc: "Prediction looks approvals up under (targetRef, fromID, GetMergeTree(fromID, featureID)) with fromID = latest unskipped entry's target for targetRef, or the zero hash exactly when none exists; the writer AddReferenceAuthorization stores under (targetRef, latest entry's target | zero, GetMergeTree(from, feature)) for branches and the feature commit for tags.",
		Run: c19Index})
	reg(&eng.Rule{ID: "C19.relaxation", Prop: "C19", Floor: 5,
		Doc: "rslEntrySignatureNeededForThreshold becomes true only on the edge verifyMergeable ∧ Threshold() > 1 ∧ count >= Threshold()-1 (after count >= Threshold() failed); block-force-push rules are skipped only under verifyMergeable; the boolean returned by verifyMergeable / VerifyMergeable* / gittuf.VerifyMergeable is that flag on every nil-error path.",
		Run: c19Relaxation})
	reg(&eng.Rule{ID: "C19.tags-refused", Prop: "C19", Floor: 2,
		Doc: "VerifyMergeable and VerifyMergeableForCommit return ErrCannotVerifyMergeableForTagRef for refs/tags/ targets before doing anything else.",
		Run: c19TagsRefused})
}

func gitAndFileCalls(fn *ssa.Function) (git, file []Call) {
	for _, k := range eng.CallsTo(fn, false, fnVGOA) {
		if sp, _, ok := eng.RootCall(eng.Roots(k.Arg(2))[0]); ok && sp.Name() == "fmt.Sprintf" {
			els := eng.VariadicElems(sp.Arg(1))
			if len(els) == 2 {
				if s, isC := eng.ConstString(els[0]); isC && s == "git" {
					git = append(git, k)
				} else if isC && s == "file" {
					file = append(file, k)
				}
			}
		}
	}
	return
}

func c19SameMachinery(c *Ctx, r *R) {
	vm, ve := r.Fn(fnVM), r.Fn("internal/policy.verifyEntry")
	if vm == nil || ve == nil {
		return
	}
	gm, fm := gitAndFileCalls(vm)
	gv, fv := gitAndFileCalls(ve)
	if len(gm) != 1 || len(fm) != 1 || len(gv) != 1 || len(fv) != 1 {
		r.Bad("anchors", vm.Pos(), "expected one git-rule and one file-rule verification call in each of verifyMergeable and verifyEntry (found %d/%d and %d/%d)", len(gm), len(fm), len(gv), len(fv))
		return
	}
	r.Site(4)
	opt := func(k Call) []string { n, _, _ := optionNames(k); return n }
	r.Check(sameStringSet(opt(gm[0]), "withApproverPrincipalIDs", "withVerifyMergeable"), "predictor-git-options", gm[0].Pos(), "predictor git rule: {approvers, verifyMergeable}", "verifyMergeable's git-rule call carries options {"+strings.Join(opt(gm[0]), ",")+"}; expected withApproverPrincipalIDs, withVerifyMergeable")
	r.Check(sameStringSet(opt(gv[0]), "withApproverPrincipalIDs"), "verifier-git-options", gv[0].Pos(), "verifier git rule: {approvers}", "verifyEntry's git-rule call carries options {"+strings.Join(opt(gv[0]), ",")+"}; expected exactly withApproverPrincipalIDs (a relaxation leaked into real verification?)")
	r.Check(sameStringSet(opt(fm[0]), "withApproverPrincipalIDs", "withTrustedVerifier"), "predictor-file-options", fm[0].Pos(), "predictor file rule: {approvers, trustedVerifier} — no mergeable relaxation", "verifyMergeable's file-rule call carries options {"+strings.Join(opt(fm[0]), ",")+"}; expected withApproverPrincipalIDs, withTrustedVerifier (the RSL signature does not count for file rules)")
	r.Check(sameStringSet(opt(fv[0]), "withApproverPrincipalIDs", "withTrustedVerifier"), "verifier-file-options", fv[0].Pos(), "verifier file rule: {approvers, trustedVerifier}", "verifyEntry's file-rule call options changed: "+strings.Join(opt(fv[0]), ","))
	// both feed the same attestation/approver values into git and file calls
	for _, pr := range []struct {
		name string
		g, f Call
	}{{"predictor", gm[0], fm[0]}, {"verifier", gv[0], fv[0]}} {
		r.Check(sameObjVal(pr.g.Arg(4), pr.f.Arg(4)) && sameObjVal(pr.g.Arg(1), pr.f.Arg(1)), "same-inputs:"+pr.name, pr.f.Pos(), "git and file rules use the same policy and authorization", "git and file rule calls of the "+pr.name+" do not use the same policy / authorization envelope")
	}
	// predictor: gitID nil (nothing recorded yet)
	r.Check(eng.IsNilConst(gm[0].Arg(3)), "predictor-no-entry", gm[0].Pos(), "predictor verifies approvals only (no RSL entry yet)", "the predictor passes an object id to the git-rule verification")
	// approvals come through ForIndex in both
	idx := eng.CallsTo(vm, false, "internal/policy.getApproverAttestationAndKeyIDsForIndex")
	r.Check(len(idx) == 1, "predictor-uses-index", vm.Pos(), "predictor uses getApproverAttestationAndKeyIDsForIndex", "the predictor does not look approvals up through getApproverAttestationAndKeyIDsForIndex")
	via := eng.CallsTo(ve, false, "internal/policy.getApproverAttestationAndKeyIDs")
	r.Check(len(via) == 1, "verifier-uses-index", ve.Pos(), "verifier uses getApproverAttestationAndKeyIDs → ForIndex", "the verifier does not look approvals up through getApproverAttestationAndKeyIDs")
	// failing git rule
	ev, _ := gm[0].ErrResult()
	if ev != nil {
		u := eng.UsesOfErr(ev)
		okE := len(u.NonNilEdges) > 0
		for _, e := range u.NonNilEdges {
			if p := eng.LeadsOnlyToErr(e, "ErrVerificationFailed"); p != nil {
				okE = false
			}
		}
		r.Check(okE, "predictor-git-failure", gm[0].Pos(), "not enough approvals → ErrVerificationFailed", "the predictor does not fail with ErrVerificationFailed when the git rule cannot be met")
	}
}

func c19Index(c *Ctx, r *R) {
	vm := r.Fn(fnVM)
	if vm == nil {
		return
	}
	idx := eng.CallsTo(vm, false, "internal/policy.getApproverAttestationAndKeyIDsForIndex")
	if len(idx) == 1 {
		k := idx[0]
		r.Site(1)
		mt := eng.PCall("GetMergeTree", 0, eng.PParam("fromID"), eng.PParam("featureID"))
		r.Check(eng.PParam("targetRef")(k.Arg(4)) && eng.PParam("fromID")(k.Arg(5)) && mt(k.Arg(6)), "predictor-index", k.Pos(), "index = (targetRef, fromID, GetMergeTree(fromID, featureID))", "the predictor's approval index is not (targetRef, fromID, GetMergeTree(fromID, featureID))")
		b, isC := eng.ConstBool(k.Arg(7))
		r.Check(isC && !b, "predictor-not-tag", k.Pos(), "isTag = false", "the predictor passes isTag = true")
		for _, m := range eng.Calls(vm, false) {
			if m.Method() == "GetMergeTree" {
				errPropagates(c, r, "merge-tree-error", m)
			}
		}
	}
	for _, spec := range []string{"(*internal/policy.PolicyVerifier).VerifyMergeable", "(*internal/policy.PolicyVerifier).VerifyMergeableForCommit"} {
		fn := r.Fn(spec)
		if fn == nil {
			continue
		}
		short := spec[strings.LastIndex(spec, ".")+1:]
		vc := eng.CallsTo(fn, false, fnVM)
		vk, ok := oneCall(r, "delegates:"+short, fn, vc, "verifyMergeable")
		if !ok {
			continue
		}
		r.Site(1)
		// fromID roots: {ZeroHash(), GetTargetID() of latest unskipped entry for targetRef}
		okF, sawT, sawZ := true, false, false
		for _, root := range eng.Roots(vk.Arg(2)) {
			k, _, isCall := eng.RootCall(root)
			switch {
			case eng.IsNilConst(root):
			case isCall && k.Method() == "ZeroHash":
				sawZ = true
			case isCall && k.Method() == "GetTargetID":
				for _, rr := range eng.Roots(k.Recv()) {
					if lk, _, ok := eng.RootCall(rr); ok && lk.Name() == "pkg/rsl.GetLatestReferenceUpdaterEntry" {
						names, ctors, _ := optionNames(lk)
						if sameStringSet(names, "ForReference", "IsUnskipped") {
							if f, ok := optionCtor(ctors, "ForReference"); ok && eng.PParam("targetRef")(f.Arg(0)) {
								sawT = true
							}
						}
					}
				}
			default:
				okF = false
			}
		}
		r.Check(okF && sawT && sawZ, "from-derivation:"+short, vk.Pos(), "from = latest unskipped entry's target for targetRef, or zero", short+": `from` is not (target of GetLatestReferenceUpdaterEntry(ForReference(targetRef), IsUnskipped()) | ZeroHash())")
		r.Check(eng.PParam("targetRef")(vk.Arg(1)), "target-through:"+short, vk.Pos(), "targetRef passed through", short+" predicts for a different reference")
		// zero only when not found: the lookup error is handled with ErrRSLEntryNotFound only
		for _, lk := range eng.CallsTo(fn, false, "pkg/rsl.GetLatestReferenceUpdaterEntry") {
			errPropagates(c, r, "lookup-error:"+callKey(fn, lk), lk, "ErrRSLEntryNotFound")
		}
		if short == "VerifyMergeable" {
			okFe := false
			for _, root := range eng.Roots(vk.Arg(3)) {
				if k, _, isCall := eng.RootCall(root); isCall && k.Method() == "GetTargetID" {
					for _, rr := range eng.Roots(k.Recv()) {
						if lk, _, ok := eng.RootCall(rr); ok && lk.Name() == "pkg/rsl.GetLatestReferenceUpdaterEntry" {
							_, ctors, _ := optionNames(lk)
							if f, ok := optionCtor(ctors, "ForReference"); ok && eng.PParam("featureRef")(f.Arg(0)) {
								okFe = true
							}
						}
					}
				}
			}
			r.Check(okFe, "feature-from-log", vk.Pos(), "feature tip = latest entry's target for featureRef", "the feature state is not the recorded tip of featureRef")
		} else {
			r.Check(eng.PParam("featureID")(vk.Arg(3)), "feature-through", vk.Pos(), "featureID passed through", "VerifyMergeableForCommit does not pass featureID through")
		}
	}
	// writer sibling
	if w := r.Fn("(*experimental/gittuf.Repository).AddReferenceAuthorization"); w != nil {
		sets := []Call{}
		for _, k := range eng.Calls(w, false) {
			if k.Method() == "SetReferenceAuthorization" {
				sets = append(sets, k)
			}
		}
		if sk, ok := oneCall(r, "writer-store", w, sets, "SetReferenceAuthorization"); ok {
			r.Site(1)
			str := func(p Pat) Pat { return eng.PMethod("String", p) }
			fromOK := func(v ssa.Value) bool {
				sawT := false
				for _, root := range eng.Roots(v) {
					k, _, isCall := eng.RootCall(root)
					switch {
					case eng.IsNilConst(root):
					case isCall && k.Method() == "ZeroHash":
					case isCall && k.Method() == "GetTargetID":
						sawT = true
					default:
						return false
					}
				}
				return sawT
			}
			toOK := func(v ssa.Value) bool {
				sawM := false
				for _, root := range eng.Roots(v) {
					k, _, isCall := eng.RootCall(root)
					switch {
					case eng.IsNilConst(root):
					case isCall && k.Method() == "GetMergeTree":
						sawM = true
					case isCall && k.Method() == "GetTargetID": // tags: feature commit
					default:
						return false
					}
				}
				return sawM
			}
			r.Check(str(fromOK)(sk.Arg(3)) && str(toOK)(sk.Arg(4)), "writer-index", sk.Pos(), "the writer stores under (targetRef, latest target | zero, merge tree | feature commit)", "AddReferenceAuthorization does not store the authorization under (targetRef, current target, GetMergeTree(current target, feature))")
			for _, m := range eng.Calls(w, false) {
				if m.Method() == "GetMergeTree" {
					okM := true
					for _, root := range eng.Roots(m.Arg(0)) {
						k, _, isCall := eng.RootCall(root)
						if !(eng.IsNilConst(root) || (isCall && (k.Method() == "ZeroHash" || k.Method() == "GetTargetID"))) {
							okM = false
						}
					}
					r.Check(okM && eng.PMethod("GetTargetID", nil)(m.Arg(1)), "writer-merge-tree-operands", m.Pos(), "GetMergeTree(from, feature tip)", "the writer's merge tree is not computed from (current target, feature tip)")
				}
			}
		}
	}
}

func c19Relaxation(c *Ctx, r *R) {
	uv := r.Fn(fnVGOAUV)
	if uv == nil {
		return
	}
	cnt := eng.PMethod("Len", nil)
	thr := eng.PMethod("Threshold", nil)
	gem1 := eng.RelEdges(uv, token.GEQ, cnt, eng.PBin(token.SUB, thr, eng.PInt(1)))
	r.Site(1)
	// the flag result (index 2) is true only via a gem1 edge
	for _, ret := range eng.Returns(uv) {
		if eng.ClassifyErr(eng.RetErr(ret), ret.Block()) == eng.ErrNonNil {
			continue
		}
		v := ret.Results[2]
		okAll := true
		var walk func(v ssa.Value, from *ssa.BasicBlock, depth int)
		seen := map[ssa.Value]bool{}
		walk = func(v ssa.Value, from *ssa.BasicBlock, depth int) {
			if seen[v] || depth > 10 {
				return
			}
			seen[v] = true
			if b, isC := eng.ConstBool(v); isC {
				if b {
					dom := false
					for _, e := range gem1 {
						if from != nil && e.To().Dominates(from) {
							dom = true
						}
					}
					if !dom {
						okAll = false
					}
				}
				return
			}
			if phi, ok := v.(*ssa.Phi); ok {
				for i, e := range phi.Edges {
					walk(e, phi.Block().Preds[i], depth+1)
				}
				return
			}
			okAll = false
		}
		walk(v, ret.Block(), 0)
		r.Check(okAll, "flag-only-on-relaxed-edge", pos(ret), "'signature needed' is true only on the Threshold()-1 edge", "the 'RSL signature needed' flag can be true without the count having met Threshold()-1 on the relaxed edge")
	}
	// conversely: accepting on the relaxed edge sets the flag — somewhere behind a gem1 edge the flag's
	// variable is assigned the constant true (otherwise 'possible, signature needed' is reported as
	// 'possible, no further signature needed')
	for _, ret := range eng.Returns(uv) {
		if eng.ClassifyErr(eng.RetErr(ret), ret.Block()) == eng.ErrNonNil {
			continue
		}
		set := false
		for _, a := range eng.Assignments(ret.Results[2]) {
			if b, isC := eng.ConstBool(a.Val); isC && b && a.At != nil {
				for _, e := range gem1 {
					if eng.EdgeDominates(e, a.At) {
						set = true
					}
				}
			}
		}
		r.Check(set, "flag-set-on-relaxed-edge", pos(ret), "accepting on the Threshold()-1 edge reports 'signature needed'", "the relaxed acceptance (count >= Threshold()-1) does not set the 'RSL signature needed' flag: the prediction would say no further signature is needed")
	}
	// relaxed test only after the full test failed: gem1's block is reachable only via the false edge of count >= Threshold()
	ge := eng.RelEdges(uv, token.LSS, cnt, thr)
	for _, e := range gem1 {
		tgt := e.From.Instrs[len(e.From.Instrs)-1]
		mustPass(c, r, "relaxed-after-full-failed", uv, isInstr(tgt), eng.NewCut().AddEdges(ge...), "the relaxed comparison is evaluated only after count >= Threshold() failed", "the relaxed comparison can be evaluated although the full threshold was met (flag would be set needlessly)")
	}
	// force-push skip only under verifyMergeable
	if fn := r.Fn(fnVGOA); fn != nil {
		vmf := eng.BoolEdges(fn, eng.PField("verifyMergeable", nil), false)
		for _, k := range eng.CallsToMethod(fn, false, "KnowsCommit", storageRecvs...) {
			_ = k
		}
		// the BlockForcePushes case reaches rsl.GetEntry (start of the check) unless verifyMergeable
		ge := eng.CallsTo(fn, false, "pkg/rsl.GetEntry")
		if len(ge) == 1 {
			mustPass(c, r, "force-push-check-unless-mergeable", fn, isInstr(ge[0].Instr), eng.NewCut().AddEdges(vmf...), "the force-push check runs whenever verifyMergeable is false", "the force-push check is not gated exactly by !verifyMergeable")
		}
	}
	// propagation of the flag to the API
	if vm := r.Fn(fnVM); vm != nil {
		g, _ := gitAndFileCalls(vm)
		if len(g) == 1 {
			flag := g[0].Result(1)
			okAll := true
			n := 0
			for _, ret := range eng.Returns(vm) {
				if eng.ClassifyErr(eng.RetErr(ret), ret.Block()) == eng.ErrNonNil {
					continue
				}
				n++
				if !sameObjVal(ret.Results[0], flag) {
					okAll = false
				}
			}
			r.Check(okAll && n == 2, "predictor-returns-flag", vm.Pos(), "both success returns of verifyMergeable return the flag", "verifyMergeable does not return the 'signature needed' flag of the git-rule verification on every success path")
		}
	}
	for _, spec := range []string{"(*internal/policy.PolicyVerifier).VerifyMergeable", "(*internal/policy.PolicyVerifier).VerifyMergeableForCommit"} {
		fn := r.Fn(spec)
		if fn == nil {
			continue
		}
		short := spec[strings.LastIndex(spec, ".")+1:]
		okT := false
		for _, ret := range eng.Returns(fn) {
			if len(ret.Results) == 2 {
				if k, i, ok := eng.RootCall(eng.Roots(ret.Results[0])[0]); ok && i == 0 && k.Name() == fnVM {
					okT = true
				}
			}
		}
		r.Check(okT, "passes-flag:"+short, fn.Pos(), "returns verifyMergeable's results", short+" does not return verifyMergeable's results unchanged")
	}
	if g := r.Fn("(*experimental/gittuf.Repository).VerifyMergeable"); g != nil {
		okAll := true
		for _, ret := range eng.Returns(g) {
			if eng.ClassifyErr(eng.RetErr(ret), ret.Block()) == eng.ErrNonNil {
				continue
			}
			for _, root := range eng.Roots(ret.Results[0]) {
				k, i, ok := eng.RootCall(root)
				if !ok || i != 0 || !strings.Contains(k.Name(), "VerifyMergeable") {
					okAll = false
				}
			}
		}
		r.Check(okAll, "api-returns-flag", g.Pos(), "the API returns the verifier's flag", "gittuf.VerifyMergeable does not return the verifier's 'signature needed' flag")
		for _, k := range eng.Calls(g, false) {
			if strings.Contains(k.Name(), "PolicyVerifier).VerifyMergeable") {
				errPropagates(c, r, "api-error:"+k.Method(), k)
			}
		}
	}
}

func c19TagsRefused(c *Ctx, r *R) {
	for _, spec := range []string{"(*internal/policy.PolicyVerifier).VerifyMergeable", "(*internal/policy.PolicyVerifier).VerifyMergeableForCommit"} {
		fn := r.Fn(spec)
		if fn == nil {
			continue
		}
		short := spec[strings.LastIndex(spec, ".")+1:]
		r.Site(1)
		isTag := eng.PCall("strings.HasPrefix", 0, eng.PParam("targetRef"), eng.PStr("refs/tags/"))
		te := eng.BoolEdges(fn, isTag, true)
		fe := eng.BoolEdges(fn, isTag, false)
		okT := len(te) > 0
		for _, e := range te {
			if p := eng.LeadsOnlyToErr(e, "ErrCannotVerifyMergeableForTagRef"); p != nil {
				okT = false
			}
		}
		r.Check(okT, "tag-refused:"+short, fn.Pos(), "tag target → ErrCannotVerifyMergeableForTagRef", short+" no longer refuses tag references")
		mustPass(c, r, "tag-test-first:"+short, fn, func(in ssa.Instruction) bool {
			k, ok := in.(*ssa.Call)
			if !ok {
				return false
			}
			n := (Call{Instr: k, Callee: eng.CalleeOf(k)}).Name()
			return n == "pkg/rsl.GetLatestReferenceUpdaterEntry" || n == fnVM
		}, eng.NewCut().AddEdges(fe...), "nothing is looked up before the tag test", "work is done before tag targets are refused")
	}
}
