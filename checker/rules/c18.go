package rules

import (
	"go/token"
	"go/types"
	"strings"

	"golang.org/x/tools/go/ssa"

	"verif/checker/eng"
)

func init() {
	Meta["C18"] = PropMeta{
		Explanation: "Static necessary conditions of 'propagation copies exactly the upstream subtree and is idempotent': the tree compared with the downstream path's current content depends on every directive field the copy depends on (in particular the upstream path), so that 'already propagated' is recognised; the copy and the log entry are skipped on the equal edge and made otherwise; the propagation entry names the downstream reference given to the copy, the commit the copy returned, the directive's upstream location and the upstream entry whose target was copied, that entry being the latest unskipped one for the directive's upstream reference; the rebuild retains exactly the entries outside <path>/, refuses an empty path and places the new content under the path; retained entries must not pass through a representation that cannot carry a file mode; the synthesized controller directive and the path checked by VerifyNetwork are built from the same format and upstream path. Tree equality over all trees and repetitions is NOT decided; names are covered by C10.nul-protocol.",
		Decides:     []string{"compared value depends on the upstream path (violated today: F11)", "no-op on equality", "recorded fields name what was used", "retain/replace filter shape", "mode-preserving representation for retained entries (violated today: F11b)", "controller directive ↔ VerifyNetwork agreement"},
		NotDecided:  []string{"byte-for-byte equality of resulting trees", "behaviour under repetition at run time"},
	}
	reg(&eng.Rule{ID: "C18.compare-what-you-copy", Prop: "C18", Floor: 2,
		Doc: "In PropagateChangesFromUpstreamRepository the tree id compared with the downstream path's current tree depends on detail.GetUpstreamPath() whenever CreateSubtreeFromUpstreamRepository receives it (dependency-set inclusion), and both derive from the same upstream entry's target.",
		Run: c18CompareWhatYouCopy})
	reg(&eng.Rule{ID: "C18.no-op-when-equal", Prop: "C18", Floor: 2,
		Doc: "CreateSubtreeFromUpstreamRepository and the propagation entry are reachable only through the edge on which the downstream path is absent or differs from the upstream tree.",
		Run: c18NoOpWhenEqual})
	reg(&eng.Rule{ID: "C18.record-what-you-used", Prop: "C18", Floor: 6,
		Doc: "NewPropagationEntry(ref, commitID, repo, entryID): ref = detail.GetDownstreamReference() (also given to the copy), commitID = the copy's result, repo = detail.GetUpstreamRepository(), entryID = latestUpstreamEntry.GetID() where latestUpstreamEntry.GetTargetID() is the commit copied and the lookup carries ForReference(detail.GetUpstreamReference()), IsUnskipped().",
		Run: c18RecordWhatYouUsed})
	reg(&eng.Rule{ID: "C18.replace-only-path", Prop: "C18", Floor: 4,
		Doc: "In CreateSubtreeFromUpstreamRepository retained entries are exactly those with !HasPrefix(filePath, localPath + \"/\"); an empty localPath is refused; new content is placed under localPath.",
		Run: c18ReplaceOnlyPath})
	reg(&eng.Rule{ID: "C18.lossless-rebuild", Prop: "C18", Floor: 1,
		Doc: "Entries retained from the previous downstream tree must not come from a map[string]Hash flatten (GetAllFilesInTree), which cannot carry file modes.",
		Run: c18LosslessRebuild})
	reg(&eng.Rule{ID: "C18.controller-directive", Prop: "C18", Floor: 3,
		Doc: "The synthesized controller directive's downstream path in PropagateChangesFromUpstreamRepositories and the path checked by VerifyNetwork use the same format (\"%s/%s-%s\" over GittufControllerPrefix, name, base64.URLEncoding of the location) and the upstream path constant equals the policy tree's metadata directory name.",
		Run: c18ControllerDirective})
}

const fnProp = "internal/propagation.PropagateChangesFromUpstreamRepository"
const fnCST = "(*pkg/gitinterface.Repository).CreateSubtreeFromUpstreamRepository"

// dependsOn reports whether v's backward slice (operands, transitively,
// within the function) contains a value satisfying p.
func dependsOn(v ssa.Value, p Pat) bool {
	seen := map[ssa.Value]bool{}
	var rec func(v ssa.Value, d int) bool
	rec = func(v ssa.Value, d int) bool {
		if v == nil || seen[v] || d > 40 {
			return false
		}
		seen[v] = true
		if p(v) {
			return true
		}
		in, ok := v.(ssa.Instruction)
		if !ok {
			return false
		}
		for _, op := range in.Operands(nil) {
			if op != nil && *op != nil && rec(*op, d+1) {
				return true
			}
		}
		// loads of locals: follow stores
		if u, ok := v.(*ssa.UnOp); ok && u.Op == token.MUL {
			for _, r := range eng.Roots(v) {
				if r != v && rec(r, d+1) {
					return true
				}
			}
		}
		return false
	}
	return rec(v, 0)
}

func c18CompareWhatYouCopy(c *Ctx, r *R) {
	fn := r.Fn(fnProp)
	if fn == nil {
		return
	}
	cs := eng.CallsTo(fn, false, fnCST)
	ck, ok := oneCall(r, "anchor-copy", fn, cs, "CreateSubtreeFromUpstreamRepository")
	if !ok {
		return
	}
	r.Site(1)
	isUpPath := func(v ssa.Value) bool {
		k, _, ok := eng.RootCall(v)
		return ok && k.Method() == "GetUpstreamPath"
	}
	copyUsesPath := dependsOn(ck.Arg(2), isUpPath)
	// the comparison: X.Equal(Y) where one side derives from GetPathIDInTree(downstream, GetDownstreamPath())
	downPath := eng.PCall("(*pkg/gitinterface.Repository).GetPathIDInTree", 0, nil, eng.PMethod("GetDownstreamPath", nil))
	var cmp Call
	var other ssa.Value
	for _, k := range eng.Calls(fn, false) {
		if k.Method() != "Equal" || k.Recv() == nil {
			continue
		}
		if downPath(k.Recv()) {
			cmp, other = k, k.Arg(0)
		} else if dependsOn(k.Arg(0), func(v ssa.Value) bool { return downPath(v) }) {
			cmp, other = k, k.Recv()
		}
	}
	if cmp.Instr == nil {
		r.Bad("comparison-present", fn.Pos(), "no comparison of the downstream path's current tree with the upstream content: propagation is repeated every time (a commit and a log entry per run)")
		return
	}
	r.Ok("comparison-present", cmp.Pos(), "downstream path content is compared before copying")
	if copyUsesPath {
		if dependsOn(other, isUpPath) {
			r.Ok("compared-depends-on-upstream-path", cmp.Pos(), "the compared tree is computed from the directive's upstream path, like the copy")
		} else {
			r.Bad("compared-depends-on-upstream-path", cmp.Pos(), "the copy takes detail.GetUpstreamPath() but the tree compared with the downstream path does not depend on it (it is the upstream commit's ROOT tree): with a non-empty upstream path the comparison never matches, so every run creates a new commit and a new propagation entry (not idempotent)")
		}
	} else {
		r.Ok("compared-depends-on-upstream-path", cmp.Pos(), "copy does not use an upstream path")
	}
	// both derive from the same upstream entry's target
	tgt := func(v ssa.Value) bool {
		k, _, ok := eng.RootCall(v)
		return ok && k.Method() == "GetTargetID" && eng.PCall("pkg/rsl.GetLatestReferenceUpdaterEntry", 0)(k.Recv())
	}
	r.Check(dependsOn(other, tgt) && dependsOn(ck.Arg(1), tgt), "same-upstream-entry", cmp.Pos(), "compared tree and copied commit both come from the latest upstream entry's target", "the compared tree and the copied commit do not both derive from the latest upstream entry's target")
	// downstream side: tree of the downstream reference's tip
	r.Check(dependsOn(cmp.Recv(), func(v ssa.Value) bool {
		k, _, ok := eng.RootCall(v)
		return ok && k.Method() == "GetReference" && eng.PMethod("GetDownstreamReference", nil)(k.Arg(0))
	}) || dependsOn(cmp.Arg(0), func(v ssa.Value) bool {
		k, _, ok := eng.RootCall(v)
		return ok && k.Method() == "GetReference" && eng.PMethod("GetDownstreamReference", nil)(k.Arg(0))
	}), "downstream-side", cmp.Pos(), "the downstream side is the path inside the downstream reference's current tree", "the downstream side of the comparison is not derived from the downstream reference's tip")
}

func c18NoOpWhenEqual(c *Ctx, r *R) {
	fn := r.Fn(fnProp)
	if fn == nil {
		return
	}
	cs := eng.CallsTo(fn, false, fnCST)
	if len(cs) != 1 {
		r.Undecided("anchor", fn.Pos(), "copy anchor")
		return
	}
	var eq Call
	for _, k := range eng.Calls(fn, false) {
		if k.Method() == "Equal" {
			eq = k
		}
	}
	if eq.Instr == nil {
		r.Bad("guarded", fn.Pos(), "no equality test guards the copy")
		return
	}
	r.Site(1)
	differ := eng.BoolEdges(fn, eng.PSame(eq.Value()), false)
	absent := eng.BoolEdges(fn, eng.PMethod("IsZero", nil), true)
	cut := eng.NewCut().AddEdges(differ...).AddEdges(absent...)
	// conversely the directive is skipped ONLY when the downstream path exists and equals the upstream content:
	// from the loop body the next directive / success is reached without the copy only through the Equal-true edge
	{
		same := eng.BoolEdges(fn, eng.PSame(eq.Value()), true)
		hs := loopHeads(fn)
		var lookups []ssa.Instruction
		for _, k := range eng.CallsTo(fn, false, "pkg/rsl.GetLatestReferenceUpdaterEntry") {
			lookups = append(lookups, k.Instr)
		}
		okSkip := len(same) > 0 && len(lookups) > 0
		// start after the comparison's operands are known: the block that tests IsZero / Equal
		for _, e := range eng.BoolEdges(fn, eng.PMethod("IsZero", nil), false) {
			cutK := eng.NewCut().AddEdges(same...).AddInstrs(cs[0].Instr)
			if p := eng.FindPath(e.To(), 0, func(in ssa.Instruction) bool { return hs[in] || isSuccessReturn(in) }, cutK); p != nil {
				okSkip = false
			}
		}
		// every directive is processed: nothing but the loop's own exhaustion (or an error) ends the loop over the directives
		for _, h := range eng.LoopsOver(fn, eng.PParam("details")) {
			scanExhaustive(c, r, "all-directives", h, nil, "propagation directives")
		}
		r.Check(okSkip, "skip-only-if-equal", fn.Pos(), "a directive is skipped only when the downstream path already equals the upstream content", "a directive can be skipped although the downstream path differs from the upstream content (the no-op test is weakened): propagation silently stops")
		// the sub-path comparison is made exactly when a sub-path is configured
		for _, k := range eng.Calls(fn, false) {
			if k.Method() != "GetPathIDInTree" || !eng.PMethod("GetUpstreamPath", nil)(k.Arg(1)) {
				continue
			}
			ne := eng.RelEdges(fn, token.NEQ, eng.PMethod("GetUpstreamPath", nil), eng.PStr(""))
			dom := false
			for _, e := range ne {
				if eng.EdgeDominates(e, k.Block()) {
					dom = true
				}
			}
			r.Check(dom, "subpath-compare-iff-configured", k.Pos(), "the upstream sub-tree is compared exactly when an upstream path is configured", "the comparison against the upstream sub-tree is not guarded by `GetUpstreamPath() != \"\"`")
		}
	}
	mustPass(c, r, "copy-only-if-different", fn, isInstr(cs[0].Instr), cut, "the copy is made only when the downstream path is absent or differs", "the copy can be made although the downstream path already holds the upstream content")
	for _, k := range eng.CallsTo(fn, false, "(*pkg/rsl.PropagationEntry).Commit") {
		cc := eng.NewCut()
		cs[0].OKPoints(cc)
		mustPass(c, r, "entry-only-after-copy", fn, isInstr(k.Instr), cc, "a propagation entry is recorded only after a successful copy", "a propagation entry can be recorded without a successful copy")
		errPropagates(c, r, "entry-error", k)
	}
	errPropagates(c, r, "copy-error", cs[0])
}

func c18RecordWhatYouUsed(c *Ctx, r *R) {
	fn := r.Fn(fnProp)
	if fn == nil {
		return
	}
	cs := eng.CallsTo(fn, false, fnCST)
	ns := eng.CallsTo(fn, false, "pkg/rsl.NewPropagationEntry")
	ls := eng.CallsTo(fn, false, "pkg/rsl.GetLatestReferenceUpdaterEntry")
	if len(cs) != 1 || len(ns) != 1 || len(ls) != 1 {
		r.Undecided("anchor", fn.Pos(), "expected one copy, one NewPropagationEntry, one latest-entry lookup")
		return
	}
	ck, nk, lk := cs[0], ns[0], ls[0]
	r.Site(3)
	detailOf := func(m string) Pat { return eng.PMethod(m, nil) }
	sameDetail := func(a, b ssa.Value) bool {
		ka, _, ok1 := eng.RootCall(eng.Roots(a)[0])
		kb, _, ok2 := eng.RootCall(eng.Roots(b)[0])
		return ok1 && ok2 && sameObjVal(ka.Recv(), kb.Recv())
	}
	r.Check(detailOf("GetDownstreamReference")(nk.Arg(0)) && detailOf("GetDownstreamReference")(ck.Arg(3)) && sameDetail(nk.Arg(0), ck.Arg(3)), "ref", nk.Pos(), "entry.ref = detail.GetDownstreamReference() = the reference the copy committed to", "the propagation entry does not name the downstream reference the copy committed to")
	r.Check(sameObjVal(nk.Arg(1), ck.Result(0)), "commit", nk.Pos(), "entry.target = the commit returned by the copy", "the propagation entry's target is not the commit the copy created")
	r.Check(detailOf("GetUpstreamRepository")(nk.Arg(2)), "upstream-location", nk.Pos(), "entry.upstreamRepository = detail.GetUpstreamRepository()", "the propagation entry does not record the directive's upstream location")
	latest := eng.PCall("pkg/rsl.GetLatestReferenceUpdaterEntry", 0)
	r.Check(eng.PMethod("GetID", latest)(nk.Arg(3)), "upstream-entry", nk.Pos(), "entry.upstreamEntryID = latestUpstreamEntry.GetID()", "the propagation entry does not record the upstream log entry that was used")
	r.Check(eng.PMethod("GetTargetID", latest)(ck.Arg(1)), "copied-commit", ck.Pos(), "the commit copied is that entry's target", "the commit copied is not the target of the recorded upstream entry")
	names, ctors, okb := optionNames(lk)
	r.Check(okb && sameStringSet(names, "ForReference", "IsUnskipped"), "lookup-options", lk.Pos(), "upstream entry = latest unskipped entry for the directive's upstream reference", "upstream entry lookup options are {"+strings.Join(names, ",")+"}; expected ForReference(detail.GetUpstreamReference()), IsUnskipped()")
	if f, ok := optionCtor(ctors, "ForReference"); ok {
		r.Check(detailOf("GetUpstreamReference")(f.Arg(0)), "lookup-ref", f.Pos(), "ForReference(detail.GetUpstreamReference())", "the upstream entry is not looked up for the directive's upstream reference")
	}
	r.Check(eng.PParam("upstreamRepo")(lk.Arg(0)) && eng.PParam("upstreamRepo")(ck.Arg(0)) && eng.PParam("downstreamRepo")(ck.Recv()), "repos", ck.Pos(), "lookup in upstream, copy upstream → downstream", "upstream/downstream repositories are mixed up")
	r.Check(detailOf("GetDownstreamPath")(ck.Arg(4)), "downstream-path", ck.Pos(), "copied into detail.GetDownstreamPath()", "the copy does not target the directive's downstream path")
	errPropagates(c, r, "lookup-error", lk, "ErrRSLEntryNotFound")
}

func c18ReplaceOnlyPath(c *Ctx, r *R) {
	fn := r.Fn(fnCST)
	if fn == nil {
		return
	}
	r.Site(1)
	// empty path refused
	empty := eng.RelEdges(fn, token.EQL, eng.PParam("localPath"), eng.PStr(""))
	okE := len(empty) > 0
	for _, e := range empty {
		if p := eng.LeadsOnlyToErr(e, "ErrCannotCreateSubtreeIntoRootTree"); p != nil {
			okE = false
		}
	}
	r.Check(okE, "empty-path-refused", fn.Pos(), "localPath == \"\" → ErrCannotCreateSubtreeIntoRootTree", "an empty downstream path is no longer refused (the whole tree would be replaced)")
	// retained entries: NewEntryBlob(filePath, blobID) appended only on !HasPrefix(filePath, localPath+"/")
	var hp []Call
	for _, k := range eng.CallsTo(fn, false, "strings.HasPrefix") {
		hp = append(hp, k)
	}
	var filt Call
	for _, k := range hp {
		// second arg is localPath possibly with "/" appended
		if dependsOn(k.Arg(1), eng.PParam("localPath")) {
			filt = k
		}
	}
	if filt.Instr == nil {
		r.Bad("retain-filter", fn.Pos(), "no HasPrefix(filePath, localPath…) filter: entries under the downstream path are kept (upstream deletions never propagate) or everything is dropped")
		return
	}
	notUnder := eng.BoolEdges(fn, eng.PSame(filt.Value()), false)
	var retained []Call
	for _, k := range eng.CallsTo(fn, false, "pkg/gitinterface.NewEntryBlob") {
		if sameObjVal(k.Arg(0), filt.Arg(0)) {
			retained = append(retained, k)
		}
	}
	if len(retained) != 1 {
		r.Bad("retain-filter", filt.Pos(), "cannot identify the single place where entries of the previous tree are retained")
	} else {
		mustPass(c, r, "retain-filter", fn, isInstr(retained[0].Instr), eng.NewCut().AddEdges(notUnder...), "an entry of the previous tree is retained only if it is not under <path>/", "entries under the downstream path can be retained (or the filter is inverted)")
	}
	// the prefix carries the trailing slash: HasSuffix(localPath, "/") test and concatenation with "/"
	slash := false
	for _, b := range fn.Blocks {
		for _, in := range b.Instrs {
			if bo, ok := in.(*ssa.BinOp); ok && bo.Op == token.ADD {
				if s, isC := eng.ConstString(bo.Y); isC && s == "/" {
					slash = true
				}
			}
		}
	}
	hs := eng.BoolEdges(fn, eng.PCall("strings.HasSuffix", 0, nil, eng.PStr("/")), false)
	// …on every path to the filter: either the path already ends in "/" (HasSuffix true edge) or "/" was appended
	{
		cutS := eng.NewCut().AddEdges(eng.BoolEdges(fn, eng.PCall("strings.HasSuffix", 0, nil, eng.PStr("/")), true)...)
		for _, b := range fn.Blocks {
			for _, in := range b.Instrs {
				if bo, ok := in.(*ssa.BinOp); ok && bo.Op == token.ADD {
					if sv, isC := eng.ConstString(bo.Y); isC && sv == "/" {
						cutS.AddInstrs(in)
					}
				}
			}
		}
		mustPass(c, r, "prefix-slash-on-every-path", fn, isInstr(filt.Instr), cutS, "the filter prefix ends in '/' on every path to the filter", "the retain filter can be reached with a prefix that does not end in '/' (the `has it a trailing slash` test is inverted or bypassed): sibling paths sharing the downstream path as a name prefix are dropped")
	}
	// the sub-path of the upstream tree is taken exactly when a sub-path is configured
	for _, k := range eng.Calls(fn, false) {
		if k.Method() != "GetPathIDInTree" {
			continue
		}
		nonEmpty := eng.RelEdges(fn, token.NEQ, eng.PParam("upstreamPath"), eng.PStr(""))
		dom := false
		for _, e := range nonEmpty {
			if eng.EdgeDominates(e, k.Block()) {
				dom = true
			}
		}
		r.Check(dom && eng.PParam("upstreamPath")(k.Arg(1)), "subpath-iff-configured", k.Pos(), "the upstream sub-tree is selected exactly when an upstream path is configured", "the upstream sub-tree selection is not guarded by `upstreamPath != \"\"` (inverted: the whole tree is copied when a sub-path is configured, and vice versa)")
	}
	r.Check(slash && len(hs) > 0, "prefix-has-slash", filt.Pos(), "the filter prefix is <path>/ (foo does not match foobar/…)", "the retain filter no longer appends '/' to the path: sibling directories sharing the prefix are dropped")
	// new content under localPath
	under := false
	for _, k := range eng.CallsTo(fn, false, "pkg/gitinterface.NewEntryTree") {
		if dependsOn(k.Arg(0), eng.PParam("localPath")) {
			under = true
		}
	}
	joined := false
	for _, k := range eng.CallsTo(fn, false, "pkg/gitinterface.NewEntryBlob") {
		if jk, _, ok := eng.RootCall(eng.Roots(k.Arg(0))[0]); ok && jk.Name() == "path.Join" {
			els := eng.VariadicElems(jk.Arg(0))
			if len(els) == 2 && dependsOn(els[0], eng.PParam("localPath")) {
				joined = true
			}
		}
	}
	r.Check(under && joined, "new-content-under-path", fn.Pos(), "upstream content is placed under <path> (tree entry / joined blob paths)", "upstream content is not placed under the downstream path")
	// upstream path selects the subtree
	sel := false
	for _, k := range eng.Calls(fn, false) {
		if k.Method() == "GetPathIDInTree" && eng.PParam("upstream")(k.Recv()) && eng.PParam("upstreamPath")(k.Arg(1)) {
			sel = true
			errPropagates(c, r, "subtree-error", k)
		}
	}
	r.Check(sel, "upstream-path-selects-subtree", fn.Pos(), "a non-empty upstream path selects that subtree of the upstream commit", "the upstream path is not used to select the subtree to copy")
}

func c18LosslessRebuild(c *Ctx, r *R) {
	fn := r.Fn(fnCST)
	if fn == nil {
		return
	}
	r.Site(1)
	// the value ranged over for retained entries
	bad := false
	for _, k := range eng.Calls(fn, false) {
		if k.Method() != "GetAllFilesInTree" || !eng.PParam(fn.Params[0].Name())(k.Recv()) {
			continue
		}
		v := k.Result(0)
		if v == nil {
			continue
		}
		if mt, ok := v.Type().Underlying().(*types.Map); ok {
			if !strings.Contains(mt.Elem().String(), "TreeEntry") {
				bad = true
				r.Bad("retained-entries-carry-mode", k.Pos(), "untouched paths of the downstream tree are rebuilt from GetAllFilesInTree's %s, which carries no file mode; every retained file is rewritten as a regular 100644 blob (executable bits and symlinks outside the propagated path are lost)", v.Type().String())
			}
		}
	}
	if !bad {
		r.Ok("retained-entries-carry-mode", fn.Pos(), "retained entries do not pass through a mode-less representation")
	}
}

func c18ControllerDirective(c *Ctx, r *R) {
	pf := r.Fn("(*experimental/gittuf.Repository).PropagateChangesFromUpstreamRepositories")
	vn := r.Fn("(*internal/policy.PolicyVerifier).VerifyNetwork")
	if pf == nil || vn == nil {
		return
	}
	r.Site(2)
	type fmtUse struct {
		format string
		args   []ssa.Value
		k      Call
	}
	collect := func(fn *ssa.Function) []fmtUse {
		var out []fmtUse
		for _, k := range eng.CallsTo(fn, false, "fmt.Sprintf") {
			f, ok := eng.ConstString(k.Arg(0))
			if !ok {
				continue
			}
			els := eng.VariadicElems(k.Arg(1))
			if len(els) == 3 {
				if s, isC := eng.ConstString(els[0]); isC && s == "gittuf-controller" {
					out = append(out, fmtUse{f, els, k})
				}
			}
		}
		return out
	}
	pu, vu := collect(pf), collect(vn)
	var down *fmtUse
	for i := range pu {
		if strings.Contains(pu[i].format, "/") {
			down = &pu[i]
		}
	}
	if down == nil || len(vu) != 1 {
		r.Bad("format-agreement", pf.Pos(), "cannot find the controller directive's downstream path format / VerifyNetwork's controller path format")
		return
	}
	r.Check(down.format == vu[0].format, "format-agreement", down.k.Pos(), "writer and verifier use the same path format "+down.format, "the controller metadata path is written as "+down.format+" but verified as "+vu[0].format)
	b64 := func(v ssa.Value) bool {
		k, _, ok := eng.RootCall(eng.Roots(v)[0])
		return ok && k.Method() == "EncodeToString" && eng.PGlobal("URLEncoding")(k.Recv())
	}
	r.Check(b64(down.args[2]) && b64(vu[0].args[2]), "encoding-agreement", down.k.Pos(), "both sides use base64.URLEncoding of the location", "the two sides do not both use base64.URLEncoding for the location component")
	r.Check(eng.PMethod("GetName", nil)(down.args[1]), "name-component", down.k.Pos(), "name component is the controller's declared name", "the name component of the controller path is not the controller's name")
	// upstream path constant: NewPropagationDirective(..., upstreamPath="metadata", ...)
	okU := false
	for _, k := range eng.Calls(pf, false) {
		if k.Method() == "NewPropagationDirective" {
			s, isC := eng.ConstString(k.Arg(3))
			okU = isC && s == "metadata"
			r1, ok1 := eng.ConstString(k.Arg(2))
			r2, ok2 := eng.ConstString(k.Arg(4))
			r.Check(ok1 && ok2 && r1 == refPolicy && r2 == refPolicy, "policy-to-policy", k.Pos(), "controller policy → network policy reference", "the controller directive does not go from the policy reference to the policy reference")
		}
	}
	r.Check(okU, "upstream-path-is-metadata-dir", pf.Pos(), "the controller directive copies the policy tree's metadata directory", "the controller directive's upstream path is not the policy tree's \"metadata\" directory (what VerifyNetwork compares against)")
	// VerifyNetwork compares with GetPathIDInTree(policyTree, "metadata")
	okV := false
	for _, k := range eng.Calls(vn, false) {
		if k.Method() == "GetPathIDInTree" {
			if s, isC := eng.ConstString(k.Arg(1)); isC && s == "metadata" {
				okV = true
			}
		}
	}
	r.Check(okV, "verifier-compares-metadata-dir", vn.Pos(), "VerifyNetwork compares against the controller's metadata directory", "VerifyNetwork no longer compares against the \"metadata\" subtree of the controller policy")
}
