package rules

import (
	"go/token"

	"golang.org/x/tools/go/ssa"

	"verif/checker/eng"
)

func init() {
	reg(&eng.Rule{ID: "C01.tag-object", Prop: "C01", Floor: 3,
		Doc: "When a tag object id is supplied (verifyTagEntry), verifyGitObjectAndAttestations returns success only after a SignatureVerifier.Verify of that very object id returned nil, with a verifier built from the principals of one of the rule's verifiers; other Verify errors than ErrVerifierConditionsUnmet are returned.",
		Run: c01TagObject})
}

// loopHeads returns the If instructions that decide whether a loop continues
// (index loops `i < len(x)` and map/string ranges `ok` of Next): reaching one
// again means "next element".
func loopHeads(fn *ssa.Function) map[ssa.Instruction]bool {
	out := map[ssa.Instruction]bool{}
	for _, b := range fn.Blocks {
		if len(b.Instrs) == 0 {
			continue
		}
		iff, ok := b.Instrs[len(b.Instrs)-1].(*ssa.If)
		if !ok {
			continue
		}
		// a loop head has a predecessor that it dominates (back edge)
		back := false
		for _, p := range b.Preds {
			if b.Dominates(p) {
				back = true
			}
		}
		if back {
			out[iff] = true
		}
	}
	return out
}

func c01TagObject(c *Ctx, r *R) {
	fn := r.Fn(fnVGOA)
	if fn == nil {
		return
	}
	isTagID := eng.PField("tagObjectID", nil)
	// the branch that enters tag-object verification: !options.tagObjectID.IsZero()
	enter := eng.BoolEdges(fn, func(v ssa.Value) bool {
		k, _, ok := eng.RootCall(v)
		return ok && k.Method() == "IsZero" && isTagID(k.Recv())
	}, false)
	if len(enter) == 0 {
		r.Bad("entered-when-supplied", fn.Pos(), "no `!options.tagObjectID.IsZero()` test: a supplied tag object is not verified")
		return
	}
	r.Ok("entered-when-supplied", fn.Pos(), "tag-object verification is entered when a tag object id is supplied")
	var vs []Call
	for _, k := range eng.CallsTo(fn, false, sigVerify) {
		if isTagID(k.Arg(1)) {
			vs = append(vs, k)
		}
	}
	vk, ok := oneCall(r, "anchor-tag-verify", fn, vs, "SignatureVerifier.Verify(ctx, options.tagObjectID, nil)")
	if !ok {
		return
	}
	r.Site(1)
	cut := eng.NewCut()
	ev, _ := vk.ErrResult()
	if ev == nil {
		r.Bad("verified-before-success", vk.Pos(), "the result of verifying the tag object is discarded")
		return
	}
	u := eng.UsesOfErr(ev)
	cut.AddEdges(u.NilEdges...)
	for _, e := range enter {
		p := eng.FindPath(e.To(), 0, isSuccessReturn, cut)
		if p != nil {
			r.Bad("verified-before-success", pos(p.Target), "with a tag object supplied, success can be returned without any verifier having accepted the tag object's signature; witness %s", c.DescribePath(p))
		} else {
			r.Ok("verified-before-success", vk.Pos(), "success requires the nil edge of Verify(tagObjectID)")
		}
	}
	// the verifier's principals come from one of the rule's verifiers (same slice as the delegation verification)
	okP := false
	for _, root := range eng.Roots(vk.Recv()) {
		if al, isA := root.(*ssa.Alloc); isA {
			st := allocStores(al)
			if pv := st["principals"]; pv != nil {
				if n, base, isF := eng.FieldLoad(pv); isF && n == "principals" {
					for _, br := range eng.Roots(base) {
						eng.WalkOperands(br, 4, func(v ssa.Value) {
							if k, idx, ok := eng.RootCall(v); ok && idx == 0 && k.Name() == fnFVFP {
								okP = true
							}
						})
					}
				}
			}
			if tv := st["threshold"]; tv != nil {
				n, isC := eng.ConstInt(tv)
				r.Check(isC && n == 1, "tag-threshold-one", vk.Pos(), "the tag object needs one authorised signature", "the tag-object verifier's threshold is not the constant 1")
			}
			if ex := st["verifyExhaustively"]; ex != nil {
				if b, isC := eng.ConstBool(ex); isC && b {
					r.Bad("tag-verifier-not-forced", vk.Pos(), "the tag-object verifier is built with verifyExhaustively: true — it accepts any object")
				}
			}
		} else if k, idx, ok := eng.RootCall(root); ok && idx == 0 && k.Name() == fnFVFP {
			okP = true
		}
	}
	r.Check(okP, "tag-verifier-principals", vk.Pos(), "the tag object is checked against the principals of the path's own verifiers", "the tag-object verifier's principals do not come from policy.FindVerifiersForPath(target)")
	// unexpected errors are returned: the non-nil edge leads to an error return unless errors.Is(err, ErrVerifierConditionsUnmet)
	unmet := eng.BoolEdges(fn, func(v ssa.Value) bool {
		k, _, ok := eng.RootCall(v)
		if !ok || k.Name() != "errors.Is" {
			return false
		}
		g := eng.GlobalLoad(k.Arg(1))
		return g != nil && g.Name() == "ErrVerifierConditionsUnmet" && sameObjVal(k.Arg(0), ev)
	}, true)
	okU := len(unmet) > 0
	heads := loopHeads(fn)
	for _, e := range u.NonNilEdges {
		p := eng.FindPath(e.To(), 0, func(in ssa.Instruction) bool { return heads[in] || isSuccessReturn(in) }, eng.NewCut().AddEdges(unmet...))
		if p != nil {
			okU = false
		}
	}
	r.Check(okU, "unexpected-error-returned", vk.Pos(), "a Verify failure other than ErrVerifierConditionsUnmet is returned", "a failure of the tag-object verification other than ErrVerifierConditionsUnmet is skipped over")
	_ = token.NoPos
}
