package rules

import (
	"fmt"
	"go/ast"
	"go/constant"
	"go/token"
	"go/types"
	"strings"

	"golang.org/x/tools/go/packages"
	"golang.org/x/tools/go/ssa"

	"verif/checker/eng"
)

func init() {
	Meta["C14"] = PropMeta{
		Explanation: "Static necessary conditions of 'RSL entry text and its parsed form determine each other': the key tables of each writer (createCommitMessage) and of its parser (parse…EntryText state machine) are extracted from the syntax tree on every run and must describe the same language of key sequences — same header, same keys, same order, same optional/repeated marks — and the dispatcher must know exactly the three headers; in each parser every known key first tests the state and rejects with ErrInvalidRSLEntry (so reordered / repeated fields are rejected), a line without ':' is rejected, missing required fields are rejected after the loop, skip accepts only the two literals the writer emits, hashes and numbers go through the validating helpers; every index/slice operation on the parse path is guarded by a length test; the parsed ID is the argument. Round-trip identity and idempotence over all byte strings are NOT decided.",
		Decides:     []string{"writer/parser key-table agreement for the 3 entry kinds", "dispatcher covers exactly the writer's headers", "state test first in every key case; post-loop required test; ':'-less line rejected", "skip literal set equals writer's", "hash/number validation helpers used", "bounds of index/slice operations on the parse path", "ID is the argument"},
		NotDecided:  []string{"parse(write(e)) == e for all field values (e.g. values containing newlines or leading/trailing blanks)", "canonical re-serialisation idempotence over all byte strings", "absence of panics inside standard-library callees"},
	}
	reg(&eng.Rule{ID: "C14.tables-agree", Prop: "C14", Floor: 7,
		Doc: "For each entry kind: header constant, ordered key constants, optional marks (number under includeNumber ∧ Number>0; message block under len>0) and repetition (entryID in a loop) extracted from createCommitMessage equal the header given to entryBody and the key order / optional / repeated structure of the parser's state machine; parseRSLEntryText dispatches on exactly those headers.",
		Run: c14Tables})
	reg(&eng.Rule{ID: "C14.reject", Prop: "C14", Floor: 20,
		Doc: "In every parser: each `case <key>` begins with `if state != <expected> … { return nil, ErrInvalidRSLEntry }`; strings.Cut failure returns ErrInvalidRSLEntry; the post-loop `state < …` test returns ErrInvalidRSLEntry; skip accepts only \"true\"/\"false\"; hashes through NewHash/setHash and numbers through setNumber (ParseUint base 10, 64 bit), errors returned.",
		Run: c14Reject})
	reg(&eng.Rule{ID: "C14.no-panic", Prop: "C14", Floor: 3,
		Doc: "Every Index/IndexAddr/Slice instruction with a non-constant-safe bound and every non-comma-ok type assertion in the functions reachable from ParseEntryText inside pkg/rsl and pkg/githash is dominated by a length test on the same operand that bounds it.",
		Run: c14NoPanic})
	reg(&eng.Rule{ID: "C14.id-is-argument", Prop: "C14", Floor: 4,
		Doc: "The ID field of each parsed entry is the parser's id parameter; GetEntry passes the id it looked up; ParseEntryText passes its id through.",
		Run: c14ID})
}

type keyItem struct {
	Key      string
	Optional bool
	Repeated bool
}

func (k keyItem) String() string {
	s := k.Key
	if k.Repeated {
		s += "+"
	}
	if k.Optional {
		s += "?"
	}
	return s
}

func constStr(p *packages.Package, e ast.Expr) (string, bool) {
	tv, ok := p.TypesInfo.Types[e]
	if !ok || tv.Value == nil || tv.Value.Kind() != constant.String {
		return "", false
	}
	return constant.StringVal(tv.Value), true
}

// sprintfKey: fmt.Sprintf("%s: …", Key, …) → Key's constant value.
func sprintfKey(p *packages.Package, e ast.Expr) (string, bool) {
	call, ok := e.(*ast.CallExpr)
	if !ok || len(call.Args) < 2 {
		return "", false
	}
	sel, ok := call.Fun.(*ast.SelectorExpr)
	if !ok || sel.Sel.Name != "Sprintf" {
		return "", false
	}
	f, ok := constStr(p, call.Args[0])
	if !ok || !strings.HasPrefix(f, "%s: ") {
		return "", false
	}
	return constStr(p, call.Args[1])
}

// writerTable extracts header + key items from a createCommitMessage body.
func writerTable(p *packages.Package, fd *ast.FuncDecl) (header string, items []keyItem, skipLits []string, err error) {
	var visit func(stmts []ast.Stmt, optional, repeated bool)
	addAppend := func(call *ast.CallExpr, optional, repeated bool) {
		for _, a := range call.Args[1:] {
			if k, ok := sprintfKey(p, a); ok {
				// collapse if/else alternatives for the same key
				if n := len(items); n > 0 && items[n-1].Key == k {
					items[n-1].Optional = false
					if f, ok := constStr(p, a.(*ast.CallExpr).Args[0]); ok {
						skipLits = append(skipLits, strings.TrimPrefix(f, "%s: "))
					}
					continue
				}
				items = append(items, keyItem{Key: k, Optional: optional, Repeated: repeated})
				if f, ok := constStr(p, a.(*ast.CallExpr).Args[0]); ok && !strings.Contains(strings.TrimPrefix(f, "%s: "), "%") {
					skipLits = append(skipLits, strings.TrimPrefix(f, "%s: "))
				}
			} else {
				// message block: strings.TrimSpace(message.String()) etc.
				items = append(items, keyItem{Key: "<message-block>", Optional: optional, Repeated: repeated})
			}
		}
	}
	visit = func(stmts []ast.Stmt, optional, repeated bool) {
		for _, s := range stmts {
			switch x := s.(type) {
			case *ast.AssignStmt:
				for _, rhs := range x.Rhs {
					if cl, ok := rhs.(*ast.CompositeLit); ok {
						if at, ok := cl.Type.(*ast.ArrayType); ok {
							if id, ok := at.Elt.(*ast.Ident); ok && id.Name == "string" && len(cl.Elts) >= 2 {
								h, ok1 := constStr(p, cl.Elts[0])
								blank, ok2 := constStr(p, cl.Elts[1])
								if !ok1 || !ok2 || blank != "" {
									err = fmt.Errorf("lines literal does not start with header constant and empty line")
									return
								}
								header = h
								for _, e := range cl.Elts[2:] {
									if k, ok := sprintfKey(p, e); ok {
										items = append(items, keyItem{Key: k})
									} else {
										err = fmt.Errorf("unrecognised element in lines literal")
									}
								}
							}
						}
					}
					if call, ok := rhs.(*ast.CallExpr); ok {
						if id, ok := call.Fun.(*ast.Ident); ok && id.Name == "append" {
							addAppend(call, optional, repeated)
						}
					}
				}
			case *ast.IfStmt:
				// if/else with appends of the same key = alternatives (not optional)
				if x.Else != nil {
					if eb, ok := x.Else.(*ast.BlockStmt); ok {
						n0 := len(items)
						visit(x.Body.List, false, repeated)
						visit(eb.List, false, repeated)
						_ = n0
						continue
					}
				}
				visit(x.Body.List, true, repeated)
			case *ast.RangeStmt:
				visit(x.Body.List, optional, true)
			case *ast.ForStmt:
				visit(x.Body.List, optional, true)
			case *ast.BlockStmt:
				visit(x.List, optional, repeated)
			}
		}
	}
	visit(fd.Body.List, false, false)
	if header == "" && err == nil {
		err = fmt.Errorf("no `lines := []string{Header, \"\", …}` literal found")
	}
	return
}

type parserCase struct {
	Key       string
	Requires  string // state ident required (first statement), "" if none
	Next      string // state assigned, "" if none (stays)
	FirstIsOK bool   // first stmt is the state test returning ErrInvalidRSLEntry
	Pos       token.Pos
	Body      []ast.Stmt
}

type parserTable struct {
	Header    string
	States    []string // iota order
	Cases     []parserCase
	FinalLess string // `state < X`
	FinalOK   bool
	CutOK     bool
	StopsAt   string // constant compared for break (BeginMessage)
}

func isErrInvalidReturn(p *packages.Package, s ast.Stmt) bool {
	ret, ok := s.(*ast.ReturnStmt)
	if !ok || len(ret.Results) != 2 {
		return false
	}
	id, ok := ret.Results[1].(*ast.Ident)
	return ok && id.Name == "ErrInvalidRSLEntry"
}

func parserTableOf(p *packages.Package, fd *ast.FuncDecl) (*parserTable, error) {
	pt := &parserTable{}
	var err error
	ast.Inspect(fd.Body, func(n ast.Node) bool {
		switch x := n.(type) {
		case *ast.CallExpr:
			if id, ok := x.Fun.(*ast.Ident); ok && id.Name == "entryBody" && len(x.Args) == 2 {
				pt.Header, _ = constStr(p, x.Args[1])
			}
		case *ast.GenDecl:
			if x.Tok == token.CONST {
				for _, sp := range x.Specs {
					for _, nm := range sp.(*ast.ValueSpec).Names {
						pt.States = append(pt.States, nm.Name)
					}
				}
			}
		case *ast.RangeStmt:
			// the line loop
			for _, s := range x.Body.List {
				switch y := s.(type) {
				case *ast.IfStmt:
					// `if !ok { return nil, ErrInvalidRSLEntry }`
					if u, ok := y.Cond.(*ast.UnaryExpr); ok && u.Op == token.NOT {
						if id, ok := u.X.(*ast.Ident); ok && id.Name == "ok" && len(y.Body.List) == 1 && isErrInvalidReturn(p, y.Body.List[0]) {
							pt.CutOK = true
						}
					}
					if b, ok := y.Cond.(*ast.BinaryExpr); ok && b.Op == token.EQL {
						if v, ok := constStr(p, b.Y); ok && len(y.Body.List) == 1 {
							if br, ok := y.Body.List[0].(*ast.BranchStmt); ok && br.Tok == token.BREAK {
								pt.StopsAt = v
							}
						}
					}
				case *ast.SwitchStmt:
					tag, ok := y.Tag.(*ast.Ident)
					if !ok || tag.Name != "key" {
						continue
					}
					for _, cc := range y.Body.List {
						cl := cc.(*ast.CaseClause)
						if len(cl.List) != 1 {
							err = fmt.Errorf("case with %d expressions", len(cl.List))
							continue
						}
						k, ok := constStr(p, cl.List[0])
						if !ok {
							err = fmt.Errorf("non-constant case key")
							continue
						}
						pc := parserCase{Key: k, Pos: cl.Pos(), Body: cl.Body}
						if len(cl.Body) > 0 {
							if ifs, ok := cl.Body[0].(*ast.IfStmt); ok && len(ifs.Body.List) == 1 && isErrInvalidReturn(p, ifs.Body.List[0]) {
								// cond: state != X  [|| …]
								cond := ifs.Cond
								if b, ok := cond.(*ast.BinaryExpr); ok && b.Op == token.LOR {
									cond = b.X
								}
								if b, ok := cond.(*ast.BinaryExpr); ok && b.Op == token.NEQ {
									if l, ok := b.X.(*ast.Ident); ok && l.Name == "state" {
										if rr, ok := b.Y.(*ast.Ident); ok {
											pc.Requires = rr.Name
											pc.FirstIsOK = true
										}
									}
								}
							}
						}
						for _, bs := range cl.Body {
							if as, ok := bs.(*ast.AssignStmt); ok && len(as.Lhs) == 1 {
								if l, ok := as.Lhs[0].(*ast.Ident); ok && l.Name == "state" {
									if rr, ok := as.Rhs[0].(*ast.Ident); ok {
										pc.Next = rr.Name
									}
								}
							}
						}
						pt.Cases = append(pt.Cases, pc)
					}
				}
			}
		case *ast.IfStmt:
			if b, ok := x.Cond.(*ast.BinaryExpr); ok && b.Op == token.LSS {
				if l, ok := b.X.(*ast.Ident); ok && l.Name == "state" {
					if rr, ok := b.Y.(*ast.Ident); ok && len(x.Body.List) == 1 && isErrInvalidReturn(p, x.Body.List[0]) {
						pt.FinalLess = rr.Name
						pt.FinalOK = true
					}
				}
			}
		}
		return true
	})
	return pt, err
}

// language derives the accepted key sequence from the state machine.
func (pt *parserTable) language() ([]keyItem, error) {
	idx := map[string]int{}
	for i, s := range pt.States {
		idx[s] = i
	}
	fin, ok := idx[pt.FinalLess]
	if !ok {
		return nil, fmt.Errorf("post-loop `state < X` test not found")
	}
	var items []keyItem
	state := pt.States[0]
	used := map[string]bool{}
	for steps := 0; steps < 20; steps++ {
		// keys accepted in this state
		var here []parserCase
		for _, c := range pt.Cases {
			if c.Requires == state && !used[c.Key] {
				here = append(here, c)
			}
		}
		if len(here) == 0 {
			break
		}
		// repeated keys (no transition) first, then the transitioning one
		progressed := false
		for _, c := range here {
			if c.Next == "" || c.Next == state {
				items = append(items, keyItem{Key: c.Key, Repeated: true, Optional: idx[state] >= fin})
				used[c.Key] = true
			}
		}
		for _, c := range here {
			if c.Next != "" && c.Next != state {
				if idx[c.Next] != idx[state]+1 {
					return nil, fmt.Errorf("key %q moves state %s → %s (not the successor)", c.Key, state, c.Next)
				}
				items = append(items, keyItem{Key: c.Key, Optional: idx[state] >= fin})
				used[c.Key] = true
				state = c.Next
				progressed = true
				break
			}
		}
		if !progressed {
			break
		}
	}
	for _, c := range pt.Cases {
		if !used[c.Key] {
			return nil, fmt.Errorf("key %q is not reachable in the state machine (requires %q)", c.Key, c.Requires)
		}
	}
	return items, nil
}

func findFuncDecl(p *packages.Package, recv, name string) *ast.FuncDecl {
	for _, f := range p.Syntax {
		for _, d := range f.Decls {
			fd, ok := d.(*ast.FuncDecl)
			if !ok || fd.Name.Name != name {
				continue
			}
			if recv == "" && fd.Recv == nil {
				return fd
			}
			if recv != "" && fd.Recv != nil && len(fd.Recv.List) == 1 {
				t := fd.Recv.List[0].Type
				if st, ok := t.(*ast.StarExpr); ok {
					t = st.X
				}
				if id, ok := t.(*ast.Ident); ok && id.Name == recv {
					return fd
				}
			}
		}
	}
	return nil
}

var c14Kinds = []struct{ Kind, Parser string }{
	{"ReferenceEntry", "parseReferenceEntryText"},
	{"AnnotationEntry", "parseAnnotationEntryText"},
	{"PropagationEntry", "parsePropagationEntryText"},
}

func itemsString(it []keyItem) string {
	var s []string
	for _, i := range it {
		s = append(s, i.String())
	}
	return strings.Join(s, " ")
}

func c14Tables(c *Ctx, r *R) {
	p := c.Pkg("pkg/rsl")
	if p == nil {
		r.Undecided("anchor", token.NoPos, "pkg/rsl not loaded")
		return
	}
	headers := map[string]bool{}
	for _, k := range c14Kinds {
		wfd := findFuncDecl(p, k.Kind, "createCommitMessage")
		pfd := findFuncDecl(p, "", k.Parser)
		if wfd == nil || pfd == nil {
			r.Undecided("anchor:"+k.Kind, token.NoPos, "writer or parser of %s not found", k.Kind)
			continue
		}
		r.Site(2)
		hdr, witems, _, err := writerTable(p, wfd)
		if err != nil {
			r.Undecided("writer-table:"+k.Kind, wfd.Pos(), "cannot extract the writer's key table: %v", err)
			continue
		}
		pt, err := parserTableOf(p, pfd)
		if err != nil {
			r.Undecided("parser-table:"+k.Kind, pfd.Pos(), "cannot extract the parser's state machine: %v", err)
			continue
		}
		headers[hdr] = true
		r.Check(hdr == pt.Header, "header:"+k.Kind, pfd.Pos(), fmt.Sprintf("writer and parser agree on header %q", hdr), fmt.Sprintf("writer emits header %q but the parser expects %q", hdr, pt.Header))
		pitems, err := pt.language()
		if err != nil {
			r.Bad("keys:"+k.Kind, pfd.Pos(), "parser state machine of %s is not a linear key sequence: %v", k.Kind, err)
			continue
		}
		// message block: writer item "<message-block>" corresponds to the parser stopping at BeginMessage
		w2 := witems
		hasMsg := false
		if n := len(w2); n > 0 && w2[n-1].Key == "<message-block>" {
			hasMsg = true
			w2 = w2[:n-1]
		}
		same := len(w2) == len(pitems)
		if same {
			for i := range w2 {
				if w2[i] != pitems[i] {
					same = false
				}
			}
		}
		r.Check(same, "keys:"+k.Kind, pfd.Pos(),
			fmt.Sprintf("writer and parser describe the same key sequence: %s", itemsString(pitems)),
			fmt.Sprintf("writer emits [%s] but the parser's state machine accepts [%s] (order / optional(?) / repeated(+) marks differ): some recorded entries cannot be read back, or the parser accepts texts the writer never produces", itemsString(w2), itemsString(pitems)))
		if hasMsg {
			r.Check(pt.StopsAt == "-----BEGIN MESSAGE-----", "message-stop:"+k.Kind, pfd.Pos(), "parser stops the key scan at BeginMessage, which the writer emits after the keys", "writer appends a message block but the parser does not stop at BeginMessage")
		}
	}
	// dispatcher
	dfd := findFuncDecl(p, "", "parseRSLEntryText")
	if dfd == nil {
		r.Undecided("anchor:dispatcher", token.NoPos, "parseRSLEntryText not found")
		return
	}
	disp := map[string]string{}
	hasDefaultErr := false
	ast.Inspect(dfd.Body, func(n ast.Node) bool {
		cl, ok := n.(*ast.CaseClause)
		if !ok {
			return true
		}
		if cl.List == nil {
			if len(cl.Body) == 1 && isErrInvalidReturn(p, cl.Body[0]) {
				hasDefaultErr = true
			}
			return true
		}
		for _, e := range cl.List {
			if call, ok := e.(*ast.CallExpr); ok && len(call.Args) == 2 {
				if h, ok := constStr(p, call.Args[1]); ok {
					// which parser is called in the body
					ast.Inspect(cl, func(m ast.Node) bool {
						if c2, ok := m.(*ast.CallExpr); ok {
							if id, ok := c2.Fun.(*ast.Ident); ok && strings.HasPrefix(id.Name, "parse") {
								disp[h] = id.Name
							}
						}
						return true
					})
				}
			}
		}
		return true
	})
	okDisp := len(disp) == len(headers)
	for h := range headers {
		if _, ok := disp[h]; !ok {
			okDisp = false
		}
	}
	for _, k := range c14Kinds {
		wfd := findFuncDecl(p, k.Kind, "createCommitMessage")
		if wfd == nil {
			continue
		}
		hdr, _, _, _ := writerTable(p, wfd)
		if disp[hdr] != k.Parser {
			okDisp = false
		}
	}
	r.Check(okDisp && hasDefaultErr, "dispatcher", dfd.Pos(), "parseRSLEntryText dispatches exactly the writers' headers to their parsers; anything else → ErrInvalidRSLEntry", fmt.Sprintf("dispatcher table %v does not match the writers' headers %v (or unknown text is not rejected)", disp, headers))
	// every implementer of Entry has a writer in the table
	if et := c.Type("pkg/rsl.Entry"); et != nil {
		iface := et.Underlying().(*types.Interface)
		n := 0
		for _, name := range p.Types.Scope().Names() {
			tn, ok := p.Types.Scope().Lookup(name).(*types.TypeName)
			if !ok {
				continue
			}
			if _, isI := tn.Type().Underlying().(*types.Interface); isI {
				continue
			}
			if types.Implements(types.NewPointer(tn.Type()), iface) {
				n++
				found := false
				for _, k := range c14Kinds {
					if k.Kind == name {
						found = true
					}
				}
				r.Check(found, "kind-covered:"+name, tn.Pos(), "entry kind has a writer/parser pair in the table", "entry kind "+name+" implements rsl.Entry but has no parser in the table (cannot be read back)")
			}
		}
	}
}

func c14Reject(c *Ctx, r *R) {
	p := c.Pkg("pkg/rsl")
	if p == nil {
		return
	}
	for _, k := range c14Kinds {
		pfd := findFuncDecl(p, "", k.Parser)
		wfd := findFuncDecl(p, k.Kind, "createCommitMessage")
		if pfd == nil || wfd == nil {
			r.Undecided("anchor:"+k.Kind, token.NoPos, "parser not found")
			continue
		}
		pt, _ := parserTableOf(p, pfd)
		r.Site(len(pt.Cases))
		for _, cs := range pt.Cases {
			r.Check(cs.FirstIsOK, "state-test-first:"+k.Kind+":"+cs.Key, cs.Pos, "case "+cs.Key+" first tests the state and rejects", "case "+cs.Key+" of "+k.Parser+" does not begin with `if state != <expected> { return nil, ErrInvalidRSLEntry }`: a repeated or out-of-order "+cs.Key+" field is accepted (two values for one field from one text)")
		}
		r.Check(pt.CutOK, "colon-required:"+k.Kind, pfd.Pos(), "a line without ':' is rejected", "a body line without ':' is no longer rejected")
		r.Check(pt.FinalOK, "required-fields:"+k.Kind, pfd.Pos(), "missing required fields are rejected after the loop (state < "+pt.FinalLess+")", "no post-loop `state < …` test returning ErrInvalidRSLEntry: texts missing required fields are accepted")
		// value handling per key
		for _, cs := range pt.Cases {
			uses := map[string]bool{}
			for _, s := range cs.Body {
				ast.Inspect(s, func(n ast.Node) bool {
					if call, ok := n.(*ast.CallExpr); ok {
						if id, ok := call.Fun.(*ast.Ident); ok {
							uses[id.Name] = true
						}
					}
					return true
				})
			}
			switch cs.Key {
			case "targetID", "upstreamEntryID", "entryID":
				r.Check(uses["setHash"] || uses["NewHash"], "hash-validated:"+k.Kind+":"+cs.Key, cs.Pos, cs.Key+" goes through NewHash", cs.Key+" is stored without NewHash validation (length/hex)")
			case "number":
				r.Check(uses["setNumber"], "number-validated:"+k.Kind, cs.Pos, "number goes through setNumber", "number is stored without setNumber/ParseUint")
			case "skip":
				// inner switch with exactly "true","false" and a default returning error
				lits := []string{}
				defErr := false
				for _, s := range cs.Body {
					if sw, ok := s.(*ast.SwitchStmt); ok {
						for _, cc := range sw.Body.List {
							cl := cc.(*ast.CaseClause)
							if cl.List == nil {
								defErr = len(cl.Body) == 1 && isErrInvalidReturn(p, cl.Body[0])
							}
							for _, e := range cl.List {
								if v, ok := constStr(p, e); ok {
									lits = append(lits, v)
								}
							}
						}
					}
				}
				_, _, wl, _ := writerTable(p, wfd)
				r.Check(defErr && sameStringSet(lits, wl...), "skip-literals:"+k.Kind, cs.Pos, "skip accepts exactly the literals the writer emits "+fmt.Sprint(wl), fmt.Sprintf("skip accepts %v but the writer emits %v, or other values are not rejected", lits, wl))
				// requires at least one entryID: `|| len(annotation.RSLEntryIDs) == 0`
				has := false
				if len(cs.Body) > 0 {
					if ifs, ok := cs.Body[0].(*ast.IfStmt); ok {
						ast.Inspect(ifs.Cond, func(n ast.Node) bool {
							if b, ok := n.(*ast.BinaryExpr); ok && b.Op == token.EQL {
								if call, ok := b.X.(*ast.CallExpr); ok {
									if id, ok := call.Fun.(*ast.Ident); ok && id.Name == "len" {
										has = true
									}
								}
							}
							return true
						})
					}
				}
				r.Check(has, "skip-needs-entryid:"+k.Kind, cs.Pos, "skip is rejected unless at least one entryID was seen", "skip is accepted without any preceding entryID")
			}
		}
	}
	// helper bodies via SSA
	if fn := r.Fn("pkg/rsl.setNumber"); fn != nil {
		ks := eng.CallsTo(fn, false, "strconv.ParseUint")
		if k, ok := oneCall(r, "parseuint", fn, ks, "strconv.ParseUint"); ok {
			b, ok1 := eng.ConstInt(k.Arg(1))
			w, ok2 := eng.ConstInt(k.Arg(2))
			r.Check(ok1 && ok2 && b == 10 && w == 64, "parseuint-args", k.Pos(), "ParseUint(value, 10, 64)", "number is not parsed as base-10 64-bit unsigned")
			errPropagates(c, r, "parseuint-error", k)
		}
	}
	if fn := r.Fn("pkg/rsl.setHash"); fn != nil {
		for _, k := range eng.CallsTo(fn, false, "pkg/rsl.NewHash") {
			errPropagates(c, r, "sethash-error", k)
		}
	}
	if fn := r.Fn("pkg/githash.NewHash"); fn != nil {
		l := eng.PLen(eng.PParam("h"))
		n40 := eng.RelEdges(fn, token.NEQ, l, eng.PInt(40))
		n64 := eng.RelEdges(fn, token.NEQ, l, eng.PInt(64))
		r.Check(len(n40) > 0 && len(n64) > 0, "hash-length", fn.Pos(), "NewHash rejects lengths other than 40/64", "NewHash no longer restricts the length to 40 or 64 hex digits")
		for _, k := range eng.CallsTo(fn, false, "encoding/hex.DecodeString") {
			ev, _ := k.ErrResult()
			u := eng.UsesOfErr(ev)
			r.Check(!u.Dropped && len(u.NonNilEdges) > 0, "hash-hex", k.Pos(), "hex decoding error is checked", "hex.DecodeString error is dropped")
		}
	}
	if fn := r.Fn("pkg/rsl.entryBody"); fn != nil {
		// header equality + blank second line
		ok := len(eng.RelEdges(fn, token.NEQ, eng.PAny(), eng.PParam("header"))) > 0
		r.Check(ok, "header-exact", fn.Pos(), "entryBody requires lines[0] == header exactly", "entryBody no longer compares the first line with the header")
	}
	// every error of a parser call in the dispatcher / GetEntry is propagated
	for _, spec := range []string{"pkg/rsl.parseRSLEntryText", "pkg/rsl.GetEntry", "pkg/rsl.ParseEntryText"} {
		fn := r.Fn(spec)
		if fn == nil {
			continue
		}
		for _, k := range eng.Calls(fn, false) {
			if strings.HasPrefix(k.Name(), "pkg/rsl.parse") {
				errPropagates(c, r, "parser-error:"+fname(fn)+":"+k.Method(), k)
			}
		}
	}
}

func c14NoPanic(c *Ctx, r *R) {
	entry := r.Fn("pkg/rsl.ParseEntryText")
	if entry == nil {
		return
	}
	reach := c.CG().Reachable([]*ssa.Function{entry}, func(f *ssa.Function) bool {
		pk := pkgOf(f)
		return pk != "pkg/rsl" && pk != "pkg/githash"
	})
	n := 0
	for fn := range reach {
		pk := pkgOf(fn)
		if pk != "pkg/rsl" && pk != "pkg/githash" {
			continue
		}
		r.Funcs[fname(fn)] = true
		for _, b := range fn.Blocks {
			for _, in := range b.Instrs {
				switch x := in.(type) {
				case *ssa.IndexAddr:
					if _, isArr := x.X.Type().Underlying().(*types.Pointer); isArr {
						// pointer to array: index against array length
						if idx, ok := eng.ConstInt(x.Index); ok {
							if at, ok := x.X.Type().Underlying().(*types.Pointer).Elem().Underlying().(*types.Array); ok && idx < at.Len() {
								continue
							}
						}
					}
					n++
					c14Bound(c, r, fn, in, x.X, x.Index, nil, nil)
				case *ssa.Index:
					n++
					c14Bound(c, r, fn, in, x.X, x.Index, nil, nil)
				case *ssa.Slice:
					if _, isArr := x.X.Type().Underlying().(*types.Pointer); isArr {
						continue // slicing a local array literal
					}
					if x.Low == nil && x.High == nil {
						continue
					}
					n++
					c14Bound(c, r, fn, in, x.X, nil, x.Low, x.High)
				case *ssa.TypeAssert:
					if !x.CommaOk {
						n++
						r.Bad("type-assert:"+fname(fn), x.Pos(), "non-comma-ok type assertion on the parse path can panic")
					}
				}
			}
		}
	}
	r.Site(n)
}

// c14Bound discharges one index/slice operation: constant index k on operand v
// needs a dominating guard len(v) > k (any spelling); loop indices need i < len(v).
func c14Bound(c *Ctx, r *R, fn *ssa.Function, in ssa.Instruction, v, idx, lo, hi ssa.Value) {
	key := "bound:" + fname(fn)
	isV := sameObj(v)
	lenV := eng.PLen(isV)
	need := int64(-1)
	if idx != nil {
		if k, ok := eng.ConstInt(idx); ok {
			need = k + 1
		}
	} else {
		if lo != nil {
			if k, ok := eng.ConstInt(lo); ok && need < k {
				need = k
			}
		}
		if hi != nil {
			if k, ok := eng.ConstInt(hi); ok && need < k {
				need = k
			}
		}
	}
	b := in.Block()
	if need >= 0 {
		// guards: len(v) >= need  ⇔ pass edge of `len(v) < need`
		var okEdges []eng.Edge
		for k := need; k <= need+4; k++ {
			okEdges = append(okEdges, eng.RelEdges(fn, token.GEQ, lenV, eng.PInt(k))...)
		}
		for k := need - 1; k <= need+4; k++ {
			if k >= 0 {
				okEdges = append(okEdges, eng.RelEdges(fn, token.GTR, lenV, eng.PInt(k))...)
			}
		}
		if need == 0 {
			r.Ok(key, in.Pos(), "slice from/to 0")
			return
		}
		p := eng.FindPathFromEntry(fn, isInstr(in), eng.NewCut().AddEdges(okEdges...))
		if p == nil {
			r.Ok(key, in.Pos(), "index/slice bound %d on %s is guarded by a length test", need, v.Name())
		} else {
			r.Bad(key, in.Pos(), "index/slice operation needing len >= %d is reachable without a length test on the same operand: ParseEntryText can panic on short input; witness %s", need, c.DescribePath(p))
		}
		return
	}
	// variable index: must be a loop index guarded by i < len(v) (range loop) in a dominating test
	if idx != nil {
		for _, g := range eng.GuardsAt(b) {
			if bo, ok := g.Cond.(*ssa.BinOp); ok && g.Pol && bo.Op == token.LSS && sameObjVal(bo.X, idx) && lenV(bo.Y) {
				r.Ok(key, in.Pos(), "loop index bounded by len")
				return
			}
		}
	}
	r.Undecided(key, in.Pos(), "cannot bound a non-constant index/slice expression on the parse path in %s", fname(fn))
}

func c14ID(c *Ctx, r *R) {
	for _, k := range c14Kinds {
		fn := r.Fn("pkg/rsl." + k.Parser)
		if fn == nil {
			continue
		}
		r.Site(1)
		ok := false
		for _, al := range allocsOf(fn, k.Kind) {
			st := allocStores(al)
			if v, has := st["ID"]; has && eng.PParam("id")(v) {
				ok = true
			}
		}
		r.Check(ok, "id:"+k.Kind, fn.Pos(), "parsed entry's ID is the id parameter", "the parsed entry's ID is not the parser's id argument")
	}
	if fn := r.Fn("pkg/rsl.parseRSLEntryText"); fn != nil {
		for _, k := range eng.Calls(fn, false) {
			if strings.HasPrefix(k.Name(), "pkg/rsl.parse") {
				r.Check(eng.PParam("id")(k.Arg(0)) && eng.PParam("text")(k.Arg(1)), "dispatch-args:"+k.Method(), k.Pos(), "dispatcher passes (id, text) through", "dispatcher does not pass its (id, text) to "+k.Method())
			}
		}
	}
	if fn := r.Fn("pkg/rsl.GetEntry"); fn != nil {
		ks := eng.CallsTo(fn, false, "pkg/rsl.parseRSLEntryText")
		if k, ok := oneCall(r, "getentry-parse", fn, ks, "parseRSLEntryText"); ok {
			msg := eng.PCall("GetCommitMessage", 0, eng.PParam("entryID"))
			r.Check(eng.PParam("entryID")(k.Arg(0)) && msg(k.Arg(1)), "getentry-binds-id", k.Pos(), "GetEntry parses the message of the commit it was asked for and records that id", "GetEntry does not parse GetCommitMessage(entryID) with id entryID")
		}
	}
}
